//! mirfacts: a rustc driver that dumps the MIR, items and evaluated constants of one crate
//! (default `circ`) as a single JSON fact file. Zero cargo dependencies.
//!
//! Run as RUSTC_WORKSPACE_WRAPPER (argv[1] is the real rustc path and is dropped).
//! Env: MIRFACTS_OUT (path of the fact file), MIRFACTS_CRATE (crate name, default circ).
#![feature(rustc_private)]
#![allow(clippy::all)]

extern crate rustc_abi;
extern crate rustc_data_structures;
extern crate rustc_driver;
extern crate rustc_hir;
extern crate rustc_interface;
extern crate rustc_middle;
extern crate rustc_session;
extern crate rustc_span;

use std::fmt::Write as _;

use rustc_hir::def::DefKind;
use rustc_hir::def_id::{DefId, LocalDefId};
use rustc_middle::mir::{
    self, AggregateKind, BasicBlock, Body, Const, Operand, Place, PlaceElem, Rvalue, StatementKind,
    TerminatorKind, UnwindAction,
};
use rustc_middle::ty::{self, GenericArgKind, GenericArgsRef, Instance, Ty, TyCtxt, TypingEnv};
use rustc_span::Span;

// ---------------------------------------------------------------- tiny JSON builder

enum J {
    Null,
    B(bool),
    I(i128),
    S(String),
    A(Vec<J>),
    O(Vec<(&'static str, J)>),
}

fn esc(s: &str, out: &mut String) {
    out.push('"');
    for c in s.chars() {
        match c {
            '"' => out.push_str("\\\""),
            '\\' => out.push_str("\\\\"),
            '\n' => out.push_str("\\n"),
            '\r' => out.push_str("\\r"),
            '\t' => out.push_str("\\t"),
            c if (c as u32) < 0x20 => {
                let _ = write!(out, "\\u{:04x}", c as u32);
            }
            c => out.push(c),
        }
    }
    out.push('"');
}

impl J {
    fn write(&self, out: &mut String) {
        match self {
            J::Null => out.push_str("null"),
            J::B(b) => out.push_str(if *b { "true" } else { "false" }),
            J::I(i) => {
                let _ = write!(out, "{}", i);
            }
            J::S(s) => esc(s, out),
            J::A(v) => {
                out.push('[');
                for (i, x) in v.iter().enumerate() {
                    if i > 0 {
                        out.push(',');
                    }
                    x.write(out);
                }
                out.push(']');
            }
            J::O(v) => {
                out.push('{');
                for (i, (k, x)) in v.iter().enumerate() {
                    if i > 0 {
                        out.push(',');
                    }
                    esc(k, out);
                    out.push(':');
                    x.write(out);
                }
                out.push('}');
            }
        }
    }
}

fn s<T: ToString>(x: T) -> J {
    J::S(x.to_string())
}

// ---------------------------------------------------------------- dumper

struct D<'tcx> {
    tcx: TyCtxt<'tcx>,
}

impl<'tcx> D<'tcx> {
    fn span(&self, sp: Span) -> J {
        let sm = self.tcx.sess.source_map();
        // Use the call-site of macro expansions so that lines point into the crate.
        let root = sp.source_callsite();
        let lo = sm.lookup_char_pos(root.lo());
        let file = match &lo.file.name {
            rustc_span::FileName::Real(r) => match r.local_path() {
                Some(p) => p.to_string_lossy().to_string(),
                None => format!("{:?}", lo.file.name),
            },
            other => format!("{:?}", other),
        };
        let mut o = vec![
            ("file", J::S(file)),
            ("line", J::I(lo.line as i128)),
            ("col", J::I(lo.col.0 as i128 + 1)),
            ("exp", J::B(sp.from_expansion())),
        ];
        if sp.from_expansion() {
            // which macro (outermost expansion): `cfg`, `debug_assert`, ..
            let mut cur = sp;
            let mut name: Option<String> = None;
            while cur.from_expansion() {
                let ed = cur.ctxt().outer_expn_data();
                if let rustc_span::ExpnKind::Macro(_, n) = ed.kind {
                    name = Some(n.to_string());
                }
                cur = ed.call_site;
            }
            if let Some(n) = name {
                o.push(("mac", J::S(n)));
            }
        }
        J::O(o)
    }

    fn path(&self, did: DefId) -> String {
        self.tcx.def_path_str(did)
    }

    fn ty(&self, t: Ty<'tcx>) -> J {
        J::S(format!("{}", t))
    }

    fn generic_args(&self, args: GenericArgsRef<'tcx>, env: TypingEnv<'tcx>) -> J {
        let mut v = vec![];
        for a in args.iter() {
            match a.kind() {
                GenericArgKind::Type(t) => {
                    let mut o = vec![("k", s("ty")), ("ty", self.ty(t))];
                    match t.kind() {
                        ty::Closure(did, _) => o.push(("closure", J::S(self.path(*did)))),
                        ty::FnDef(did, _) => o.push(("fndef", J::S(self.path(*did)))),
                        ty::Adt(adt, _) => o.push(("adt", J::S(self.path(adt.did())))),
                        ty::Ref(_, inner, m) => {
                            o.push(("ref_mut", J::B(m.is_mut())));
                            if let ty::Closure(did, _) = inner.kind() {
                                o.push(("closure", J::S(self.path(*did))));
                            }
                            if let ty::Adt(adt, _) = inner.kind() {
                                o.push(("adt", J::S(self.path(adt.did()))));
                            }
                        }
                        ty::Param(p) => o.push(("param", s(p.name))),
                        _ => {}
                    }
                    // layout where it does not depend on the parameters (`Tagged<T>` is one thin pointer for every T)
                    if !matches!(t.kind(), ty::Param(_)) {
                        if let Ok(l) = self.tcx.layout_of(env.as_query_input(t)) {
                            o.push(("align", J::I(l.align.abi.bytes() as i128)));
                            o.push(("size", J::I(l.size.bytes() as i128)));
                        }
                    }
                    v.push(J::O(o));
                }
                GenericArgKind::Const(c) => {
                    let mut o = vec![("k", s("const")), ("display", s(c))];
                    if let Some(v) = c.try_to_target_usize(self.tcx) {
                        o.push(("int", J::S(v.to_string())));
                    } else if let Some(sc) = self.try_eval_ty_const(c, env) {
                        o.push(("int", J::S(sc)));
                    }
                    v.push(J::O(o));
                }
                GenericArgKind::Lifetime(_) => {}
            }
        }
        J::A(v)
    }

    fn try_eval_ty_const(&self, c: ty::Const<'tcx>, _env: TypingEnv<'tcx>) -> Option<String> {
        match c.kind() {
            ty::ConstKind::Value(v) => v.try_to_leaf().map(|sc| sc.to_bits_unchecked().to_string()),
            _ => None,
        }
    }

    fn place(&self, p: &Place<'tcx>, body: &Body<'tcx>) -> J {
        let mut proj = vec![];
        let mut cur_ty = mir::PlaceTy::from_ty(body.local_decls[p.local].ty);
        for elem in p.projection.iter() {
            let j = match elem {
                PlaceElem::Deref => s("deref"),
                PlaceElem::Field(f, fty) => {
                    let mut o = vec![("field", J::I(f.as_u32() as i128)), ("ty", self.ty(fty))];
                    // field name when the base is an ADT
                    if let ty::Adt(adt, _) = cur_ty.ty.kind() {
                        let vidx = cur_ty.variant_index.unwrap_or(rustc_abi::FIRST_VARIANT);
                        if adt.is_struct() || adt.is_enum() || adt.is_union() {
                            if let Some(v) = adt.variants().get(vidx) {
                                if let Some(fd) = v.fields.get(f) {
                                    o.push(("name", s(fd.name)));
                                    o.push(("adt", J::S(self.path(adt.did()))));
                                }
                            }
                        }
                    }
                    J::O(o)
                }
                PlaceElem::Downcast(name, idx) => J::O(vec![
                    ("downcast", J::I(idx.as_u32() as i128)),
                    ("name", match name {
                        Some(n) => s(n),
                        None => J::Null,
                    }),
                ]),
                PlaceElem::Index(l) => J::O(vec![("index", J::I(l.as_u32() as i128))]),
                PlaceElem::ConstantIndex { offset, from_end, .. } => J::O(vec![
                    ("const_index", J::I(offset as i128)),
                    ("from_end", J::B(from_end)),
                ]),
                PlaceElem::Subslice { from, to, from_end } => J::O(vec![
                    ("subslice", J::I(from as i128)),
                    ("to", J::I(to as i128)),
                    ("from_end", J::B(from_end)),
                ]),
                PlaceElem::OpaqueCast(t) => J::O(vec![("opaque_cast", self.ty(t))]),
                PlaceElem::UnwrapUnsafeBinder(t) => J::O(vec![("unwrap_binder", self.ty(t))]),
            };
            proj.push(j);
            cur_ty = cur_ty.projection_ty(self.tcx, elem);
        }
        J::O(vec![
            ("local", J::I(p.local.as_u32() as i128)),
            ("proj", J::A(proj)),
            ("ty", self.ty(cur_ty.ty)),
        ])
    }

    fn constant(&self, c: &mir::ConstOperand<'tcx>, env: TypingEnv<'tcx>) -> J {
        let t = c.const_.ty();
        let mut o = vec![("ty", self.ty(t)), ("display", s(&c.const_))];
        if let ty::FnDef(did, args) = t.kind() {
            o.push(("fn", J::S(self.path(*did))));
            o.push(("fn_full", J::S(self.tcx.def_path_str_with_args(*did, args))));
            o.push(("fn_args", self.generic_args(args, env)));
            o.push(("fn_local", J::B(did.is_local())));
            if did.is_local() {
                let sm = self.tcx.sess.source_map();
                let lo = sm.lookup_char_pos(self.tcx.def_span(*did).lo());
                o.push(("fn_def_line", J::I(lo.line as i128)));
            }
            if let Some(tr) = self.tcx.trait_of_assoc(*did) {
                o.push(("fn_trait", J::S(self.path(tr))));
            }
            if matches!(self.tcx.def_kind(*did), DefKind::Fn | DefKind::AssocFn) {
                if let Ok(Some(inst)) = Instance::try_resolve(self.tcx, env, *did, args) {
                    let rd = inst.def_id();
                    let kind = match inst.def {
                        ty::InstanceKind::Item(_) => "item",
                        ty::InstanceKind::Intrinsic(_) => "intrinsic",
                        ty::InstanceKind::Virtual(..) => "virtual",
                        ty::InstanceKind::ClosureOnceShim { .. } => "closure_once_shim",
                        ty::InstanceKind::FnPtrShim(..) => "fn_ptr_shim",
                        ty::InstanceKind::DropGlue(..) => "drop_glue",
                        ty::InstanceKind::CloneShim(..) => "clone_shim",
                        _ => "other",
                    };
                    o.push(("resolved", J::S(self.path(rd))));
                    o.push(("resolved_kind", s(kind)));
                    o.push(("resolved_args", self.generic_args(inst.args, env)));
                    o.push(("resolved_local", J::B(rd.is_local())));
                }
            }
        } else {
            // scalar?
            match c.const_ {
                Const::Val(mir::ConstValue::Scalar(mir::interpret::Scalar::Int(si)), _) => {
                    o.push(("int", J::S(si.to_bits_unchecked().to_string())));
                    o.push(("size", J::I(si.size().bytes() as i128)));
                }
                Const::Val(mir::ConstValue::ZeroSized, _) => {
                    o.push(("zst", J::B(true)));
                }
                Const::Val(mir::ConstValue::Scalar(mir::interpret::Scalar::Ptr(ptr, _)), _) => {
                    // the address of a static: name it
                    let aid = ptr.provenance.alloc_id();
                    if let Some(mir::interpret::GlobalAlloc::Static(sd)) = self.tcx.try_get_global_alloc(aid) {
                        o.push(("static", J::S(self.path(sd))));
                    }
                }
                _ => {
                    if let Some(si) = c.const_.try_eval_scalar_int(self.tcx, env) {
                        o.push(("int", J::S(si.to_bits_unchecked().to_string())));
                        o.push(("size", J::I(si.size().bytes() as i128)));
                    } else {
                        match c.const_ {
                            Const::Unevaluated(u, _) => {
                                o.push(("uneval", J::S(self.path(u.def))));
                                o.push(("uneval_args", self.generic_args(u.args, env)));
                                if u.promoted.is_some() {
                                    o.push(("promoted", J::B(true)));
                                }
                            }
                            Const::Ty(_, tc) => {
                                o.push(("ty_const", s(tc)));
                                if let ty::ConstKind::Param(p) = tc.kind() {
                                    o.push(("param", s(p.name)));
                                }
                            }
                            _ => {}
                        }
                    }
                }
            }
        }
        J::O(vec![("const", J::O(o))])
    }

    fn operand(&self, op: &Operand<'tcx>, body: &Body<'tcx>, env: TypingEnv<'tcx>) -> J {
        match op {
            Operand::Copy(p) => J::O(vec![("copy", self.place(p, body))]),
            Operand::Move(p) => J::O(vec![("move", self.place(p, body))]),
            Operand::Constant(c) => self.constant(c, env),
            #[allow(unreachable_patterns)]
            other => J::O(vec![("other", s(format!("{:?}", other)))]),
        }
    }

    fn rvalue(&self, rv: &Rvalue<'tcx>, body: &Body<'tcx>, env: TypingEnv<'tcx>) -> J {
        match rv {
            Rvalue::Use(op, ..) => J::O(vec![("k", s("use")), ("op", self.operand(op, body, env))]),
            Rvalue::Repeat(op, n) => J::O(vec![
                ("k", s("repeat")),
                ("op", self.operand(op, body, env)),
                ("n", s(n)),
            ]),
            Rvalue::Ref(_, bk, p) => J::O(vec![
                ("k", s("ref")),
                ("mut", J::B(matches!(bk, mir::BorrowKind::Mut { .. }))),
                ("place", self.place(p, body)),
            ]),
            Rvalue::ThreadLocalRef(did) => {
                J::O(vec![("k", s("tls_ref")), ("def", J::S(self.path(*did)))])
            }
            Rvalue::RawPtr(k, p) => J::O(vec![
                ("k", s("rawptr")),
                ("mut", J::B(matches!(k, mir::RawPtrKind::Mut))),
                ("place", self.place(p, body)),
            ]),
            Rvalue::Cast(kind, op, t) => J::O(vec![
                ("k", s("cast")),
                ("kind", s(format!("{:?}", kind))),
                ("op", self.operand(op, body, env)),
                ("ty", self.ty(*t)),
            ]),
            Rvalue::BinaryOp(op, b) => J::O(vec![
                ("k", s("binop")),
                ("op", s(format!("{:?}", op))),
                ("l", self.operand(&b.0, body, env)),
                ("r", self.operand(&b.1, body, env)),
            ]),
            Rvalue::UnaryOp(op, x) => J::O(vec![
                ("k", s("unop")),
                ("op", s(format!("{:?}", op))),
                ("x", self.operand(x, body, env)),
            ]),
            Rvalue::Discriminant(p) => {
                J::O(vec![("k", s("discriminant")), ("place", self.place(p, body))])
            }
            Rvalue::Aggregate(kind, fields) => {
                let mut o = vec![("k", s("aggregate"))];
                match &**kind {
                    AggregateKind::Array(t) => {
                        o.push(("agg", s("array")));
                        o.push(("elem_ty", self.ty(*t)));
                    }
                    AggregateKind::Tuple => o.push(("agg", s("tuple"))),
                    AggregateKind::Adt(did, vidx, args, _, _) => {
                        o.push(("agg", s("adt")));
                        o.push(("adt", J::S(self.path(*did))));
                        let adt = self.tcx.adt_def(*did);
                        let v = &adt.variants()[*vidx];
                        o.push(("variant", s(v.name)));
                        o.push(("variant_idx", J::I(vidx.as_u32() as i128)));
                        o.push((
                            "field_names",
                            J::A(v.fields.iter().map(|f| s(f.name)).collect()),
                        ));
                        o.push(("adt_args", self.generic_args(args, env)));
                    }
                    AggregateKind::Closure(did, args) => {
                        o.push(("agg", s("closure")));
                        o.push(("closure", J::S(self.path(*did))));
                        let _ = args;
                    }
                    AggregateKind::RawPtr(t, m) => {
                        o.push(("agg", s("rawptr")));
                        o.push(("pointee", self.ty(*t)));
                        o.push(("mut", J::B(m.is_mut())));
                    }
                    other => {
                        o.push(("agg", s("other")));
                        o.push(("debug", s(format!("{:?}", other))));
                    }
                }
                o.push((
                    "fields",
                    J::A(fields.iter().map(|f| self.operand(f, body, env)).collect()),
                ));
                J::O(o)
            }
            Rvalue::CopyForDeref(p) => {
                J::O(vec![("k", s("copy_for_deref")), ("place", self.place(p, body))])
            }
            other => J::O(vec![("k", s("other")), ("debug", s(format!("{:?}", other)))]),
        }
    }

    fn unwind(&self, u: &UnwindAction) -> J {
        match u {
            UnwindAction::Cleanup(bb) => J::I(bb.as_u32() as i128),
            _ => J::Null,
        }
    }

    fn bb(&self, b: BasicBlock) -> J {
        J::I(b.as_u32() as i128)
    }

    fn body(&self, ldid: LocalDefId) -> Option<J> {
        let tcx = self.tcx;
        let did = ldid.to_def_id();
        let kind = tcx.def_kind(did);
        let kind_s = match kind {
            DefKind::Fn => "fn",
            DefKind::AssocFn => "assoc_fn",
            DefKind::Closure => "closure",
            DefKind::AssocConst { .. } | DefKind::Const { .. } => "const",
            _ => return None,
        };
        let is_const = kind_s == "const";
        if is_const && tcx.generics_of(did).count() == 0 {
            return None; // evaluated in `items`
        }
        if !is_const && !tcx.is_mir_available(did) {
            return None;
        }
        let body: &Body<'tcx> = if is_const { tcx.mir_for_ctfe(did) } else { tcx.optimized_mir(did) };
        let env = TypingEnv::post_analysis(tcx, did);

        let mut o: Vec<(&'static str, J)> = vec![];
        o.push(("def", J::S(self.path(did))));
        o.push(("kind", s(kind_s)));
        o.push(("span", self.span(tcx.def_span(did))));
        if kind == DefKind::Closure {
            let parent = tcx.typeck_root_def_id(did);
            o.push(("root", J::S(self.path(parent))));
            o.push(("parent", J::S(self.path(tcx.parent(did)))));
        }
        if matches!(kind, DefKind::Fn | DefKind::AssocFn) {
            o.push(("vis", s(format!("{:?}", tcx.visibility(did)))));
            let sig = tcx.fn_sig(did).instantiate_identity().skip_binder();
            o.push(("sig", s(format!("{:?}", sig))));
            o.push(("unsafe", J::B(sig.safety().is_unsafe())));
            if let Some(imp) = tcx.impl_of_assoc(did) {
                let self_ty = tcx.type_of(imp).instantiate_identity().skip_norm_wip();
                o.push(("impl_self", s(format!("{:?}", self_ty))));
                if let Some(tr) = tcx.impl_opt_trait_ref(imp) {
                    let tr = tr.instantiate_identity();
                    o.push(("impl_trait", J::S(self.path(tr.skip_norm_wip().def_id))));
                }
            }
            o.push(("name", s(tcx.item_name(did))));
        }
        // generics
        let generics = tcx.generics_of(did);
        let mut gs = vec![];
        let mut g = Some(generics);
        while let Some(gg) = g {
            for p in &gg.own_params {
                gs.push(J::O(vec![
                    ("name", s(p.name)),
                    ("index", J::I(p.index as i128)),
                    ("kind", s(match p.kind {
                        ty::GenericParamDefKind::Lifetime => "lifetime",
                        ty::GenericParamDefKind::Type { .. } => "type",
                        ty::GenericParamDefKind::Const { .. } => "const",
                    })),
                ]));
            }
            g = gg.parent.map(|p| tcx.generics_of(p));
        }
        o.push(("generics", J::A(gs)));
        o.push(("arg_count", J::I(body.arg_count as i128)));

        // locals
        let mut names: Vec<Option<String>> = vec![None; body.local_decls.len()];
        let mut upvar_names: Vec<J> = vec![];
        for vdi in &body.var_debug_info {
            if let mir::VarDebugInfoContents::Place(p) = &vdi.value {
                if p.projection.is_empty() {
                    names[p.local.as_usize()] = Some(vdi.name.to_string());
                } else {
                    upvar_names.push(J::O(vec![
                        ("name", s(vdi.name)),
                        ("place", self.place(p, body)),
                    ]));
                }
            }
        }
        let mut locals = vec![];
        for (l, decl) in body.local_decls.iter_enumerated() {
            let mut lo = vec![
                ("ty", self.ty(decl.ty)),
                ("mut", J::B(decl.mutability.is_mut())),
            ];
            if let Some(n) = &names[l.as_usize()] {
                lo.push(("name", J::S(n.clone())));
            }
            // does the size of this local depend on a type parameter (a `T`, `ManuallyDrop<T>`, `Option<T>` held by
            // value)?  The frame of a recursive function must not.
            match self.tcx.layout_of(env.as_query_input(decl.ty)) {
                Ok(l) => lo.push(("size", J::I(l.size.bytes() as i128))),
                Err(_) => lo.push(("size_generic", J::B(true))),
            }
            match decl.ty.kind() {
                ty::Adt(adt, _) => lo.push(("adt", J::S(self.path(adt.did())))),
                ty::Closure(d, _) => lo.push(("closure", J::S(self.path(*d)))),
                ty::Ref(_, inner, m) => {
                    lo.push(("ref_mut", J::B(m.is_mut())));
                    match inner.kind() {
                        ty::Adt(adt, _) => lo.push(("adt", J::S(self.path(adt.did())))),
                        ty::Closure(d, _) => lo.push(("closure", J::S(self.path(*d)))),
                        _ => {}
                    }
                }
                ty::RawPtr(inner, _) => {
                    lo.push(("rawptr", J::B(true)));
                    if let ty::Adt(adt, _) = inner.kind() {
                        lo.push(("adt", J::S(self.path(adt.did()))));
                    }
                }
                _ => {}
            }
            locals.push(J::O(lo));
        }
        o.push(("locals", J::A(locals)));
        o.push(("upvars", J::A(upvar_names)));

        // blocks
        let mut blocks = vec![];
        for (_bb, data) in body.basic_blocks.iter_enumerated() {
            let mut stmts = vec![];
            for st in &data.statements {
                let sp = st.source_info.span;
                match &st.kind {
                    StatementKind::Assign(b) => {
                        let (p, rv) = &**b;
                        stmts.push(J::O(vec![
                            ("k", s("assign")),
                            ("place", self.place(p, body)),
                            ("rv", self.rvalue(rv, body, env)),
                            ("span", self.span(sp)),
                        ]));
                    }
                    StatementKind::SetDiscriminant { place, variant_index } => {
                        stmts.push(J::O(vec![
                            ("k", s("set_discriminant")),
                            ("place", self.place(place, body)),
                            ("variant", J::I(variant_index.as_u32() as i128)),
                            ("span", self.span(sp)),
                        ]));
                    }
                    StatementKind::Intrinsic(i) => {
                        stmts.push(J::O(vec![
                            ("k", s("intrinsic")),
                            ("debug", s(format!("{:?}", i))),
                            ("span", self.span(sp)),
                        ]));
                    }
                    StatementKind::StorageDead(l) => {
                        stmts.push(J::O(vec![
                            ("k", s("storage_dead")),
                            ("local", J::I(l.as_u32() as i128)),
                        ]));
                    }
                    _ => {}
                }
            }
            let term = data.terminator();
            let tsp = term.source_info.span;
            let t = match &term.kind {
                TerminatorKind::Goto { target } => {
                    J::O(vec![("k", s("goto")), ("target", self.bb(*target))])
                }
                TerminatorKind::SwitchInt { discr, targets } => {
                    let mut ts = vec![];
                    for (v, bb) in targets.iter() {
                        ts.push(J::A(vec![J::S(v.to_string()), self.bb(bb)]));
                    }
                    J::O(vec![
                        ("k", s("switch")),
                        ("discr", self.operand(discr, body, env)),
                        ("targets", J::A(ts)),
                        ("otherwise", self.bb(targets.otherwise())),
                        ("span", self.span(tsp)),
                    ])
                }
                TerminatorKind::Return => J::O(vec![("k", s("return")), ("span", self.span(tsp))]),
                TerminatorKind::Unreachable => J::O(vec![("k", s("unreachable"))]),
                TerminatorKind::UnwindResume => J::O(vec![("k", s("resume"))]),
                TerminatorKind::UnwindTerminate(_) => J::O(vec![("k", s("terminate"))]),
                TerminatorKind::Drop { place, target, unwind, .. } => {
                    let pty = place.ty(body, tcx).ty;
                    let mut o = vec![
                        ("k", s("drop")),
                        ("place", self.place(place, body)),
                        ("ty", self.ty(pty)),
                        ("target", self.bb(*target)),
                        ("unwind", self.unwind(unwind)),
                        ("span", self.span(tsp)),
                    ];
                    if let ty::Adt(adt, _) = pty.kind() {
                        o.push(("adt", J::S(self.path(adt.did()))));
                    }
                    if let ty::Closure(d, _) = pty.kind() {
                        o.push(("closure", J::S(self.path(*d))));
                    }
                    J::O(o)
                }
                TerminatorKind::Call { func, args, destination, target, unwind, fn_span, .. } => {
                    let mut o = vec![("k", s("call")), ("func", self.operand(func, body, env))];
                    o.push((
                        "args",
                        J::A(args.iter().map(|a| self.operand(&a.node, body, env)).collect()),
                    ));
                    o.push(("dest", self.place(destination, body)));
                    o.push(("target", match target {
                        Some(t) => self.bb(*t),
                        None => J::Null,
                    }));
                    o.push(("unwind", self.unwind(unwind)));
                    o.push(("span", self.span(*fn_span)));
                    J::O(o)
                }
                TerminatorKind::TailCall { func, args, fn_span } => J::O(vec![
                    ("k", s("tailcall")),
                    ("func", self.operand(func, body, env)),
                    (
                        "args",
                        J::A(args.iter().map(|a| self.operand(&a.node, body, env)).collect()),
                    ),
                    ("span", self.span(*fn_span)),
                ]),
                TerminatorKind::Assert { cond, expected, msg, target, unwind } => J::O(vec![
                    ("k", s("assert")),
                    ("cond", self.operand(cond, body, env)),
                    ("expected", J::B(*expected)),
                    ("msg", s(format!("{:?}", msg).split('(').next().unwrap_or(""))),
                    ("target", self.bb(*target)),
                    ("unwind", self.unwind(unwind)),
                    ("span", self.span(tsp)),
                ]),
                TerminatorKind::FalseEdge { real_target, .. } => {
                    J::O(vec![("k", s("goto")), ("target", self.bb(*real_target))])
                }
                TerminatorKind::FalseUnwind { real_target, .. } => {
                    J::O(vec![("k", s("goto")), ("target", self.bb(*real_target))])
                }
                other => J::O(vec![("k", s("other")), ("debug", s(format!("{:?}", other)))]),
            };
            blocks.push(J::O(vec![
                ("stmts", J::A(stmts)),
                ("term", t),
                ("cleanup", J::B(data.is_cleanup)),
            ]));
        }
        o.push(("blocks", J::A(blocks)));
        Some(J::O(o))
    }

    fn items(&self) -> J {
        let tcx = self.tcx;
        let mut adts = vec![];
        let mut consts = vec![];
        let mut statics = vec![];
        let mut impls = vec![];
        let mut fns = vec![];
        let mut reexports = vec![];
        for ldid in tcx.hir_crate_items(()).definitions() {
            let did = ldid.to_def_id();
            match tcx.def_kind(did) {
                DefKind::Struct | DefKind::Enum | DefKind::Union => {
                    let adt = tcx.adt_def(did);
                    let mut vs = vec![];
                    for v in adt.variants() {
                        let mut fs = vec![];
                        for f in &v.fields {
                            let fty = tcx.type_of(f.did).instantiate_identity().skip_norm_wip();
                            fs.push(J::O(vec![
                                ("name", s(f.name)),
                                ("ty", s(format!("{:?}", fty))),
                                ("vis", s(format!("{:?}", f.vis))),
                            ]));
                        }
                        vs.push(J::O(vec![("name", s(v.name)), ("fields", J::A(fs))]));
                    }
                    adts.push(J::O(vec![
                        ("path", J::S(self.path(did))),
                        ("vis", s(format!("{:?}", tcx.visibility(did)))),
                        ("variants", J::A(vs)),
                        ("span", self.span(tcx.def_span(did))),
                    ]));
                }
                DefKind::Const { .. } | DefKind::AssocConst { .. } => {
                    let generics = tcx.generics_of(did);
                    let mut o = vec![
                        ("path", J::S(self.path(did))),
                        ("ty", s(format!("{:?}", tcx.type_of(did).instantiate_identity().skip_norm_wip()))),
                        ("span", self.span(tcx.def_span(did))),
                    ];
                    {
                        let t = tcx.type_of(did).instantiate_identity().skip_norm_wip();
                        if let ty::Adt(adt, args) = t.kind() {
                            if self.path(adt.did()).ends_with("LocalKey") && generics.count() == 0 {
                                let inner = args.type_at(0);
                                o.push(("tls_inner", s(format!("{:?}", inner))));
                                o.push((
                                    "tls_inner_needs_drop",
                                    J::B(inner.needs_drop(tcx, TypingEnv::fully_monomorphized())),
                                ));
                            }
                        }
                    }
                    if generics.count() == 0 {
                        if let Ok(v) = tcx.const_eval_poly(did) {
                            if let Some(si) = v.try_to_scalar_int() {
                                o.push(("int", J::S(si.to_bits_unchecked().to_string())));
                                o.push(("size", J::I(si.size().bytes() as i128)));
                            } else if let mir::ConstValue::Indirect { alloc_id, offset } = v {
                                // a small array of integers / bools (a lookup table): its elements
                                let t = tcx.type_of(did).instantiate_identity().skip_norm_wip();
                                if let ty::Array(elem, len) = t.kind() {
                                    let esz: Option<usize> = match elem.kind() {
                                        ty::Bool => Some(1),
                                        ty::Int(it) => it.bit_width().map(|w| (w / 8) as usize).or(Some(8)),
                                        ty::Uint(ut) => ut.bit_width().map(|w| (w / 8) as usize).or(Some(8)),
                                        _ => None,
                                    };
                                    if let (Some(esz), Some(n)) = (esz, len.try_to_target_usize(tcx)) {
                                        let n = n as usize;
                                        if n <= 64 {
                                            if let Some(ga) = tcx.try_get_global_alloc(alloc_id) {
                                                if let mir::interpret::GlobalAlloc::Memory(m) = ga {
                                                    let a = m.inner();
                                                    let start = offset.bytes() as usize;
                                                    if a.provenance().ptrs().is_empty() && start + n * esz <= a.len() {
                                                        let bytes = a.inspect_with_uninit_and_ptr_outside_interpreter(start..start + n * esz);
                                                        let mut elems = vec![];
                                                        for i in 0..n {
                                                            let mut v: u128 = 0;
                                                            for k in 0..esz {
                                                                v |= (bytes[i * esz + k] as u128) << (8 * k);
                                                            }
                                                            elems.push(J::S(v.to_string()));
                                                        }
                                                        o.push(("ints", J::A(elems)));
                                                        o.push(("elem_ty", s(format!("{}", elem))));
                                                    }
                                                }
                                            }
                                        }
                                    }
                                }
                            }
                        }
                    }
                    consts.push(J::O(o));
                }
                DefKind::Static { .. } => {
                    let t = tcx.type_of(did).instantiate_identity().skip_norm_wip();
                    let env = TypingEnv::fully_monomorphized();
                    let mut o = vec![
                        ("path", J::S(self.path(did))),
                        ("ty", s(format!("{:?}", t))),
                        ("thread_local", J::B(tcx.is_thread_local_static(did))),
                        ("mutable", J::B(tcx.is_mutable_static(did))),
                        ("needs_drop", J::B(t.needs_drop(tcx, env))),
                        ("span", self.span(tcx.def_span(did))),
                    ];
                    if let Ok(alloc) = tcx.eval_static_initializer(did) {
                        let a = alloc.inner();
                        if a.len() <= 16 && a.provenance().ptrs().is_empty() {
                            let bytes = a.inspect_with_uninit_and_ptr_outside_interpreter(0..a.len());
                            let mut v: u128 = 0;
                            for (i, b) in bytes.iter().enumerate() {
                                v |= (*b as u128) << (8 * i);
                            }
                            o.push(("int", J::S(v.to_string())));
                        }
                    }
                    statics.push(J::O(o));
                }
                DefKind::Impl { .. } => {
                    let self_ty = tcx.type_of(did).instantiate_identity().skip_norm_wip();
                    let mut o = vec![
                        ("self", s(format!("{:?}", self_ty))),
                        ("span", self.span(tcx.def_span(did))),
                    ];
                    if let ty::Adt(adt, _) = self_ty.kind() {
                        o.push(("self_adt", J::S(self.path(adt.did()))));
                    }
                    if let Some(tr) = tcx.impl_opt_trait_ref(did) {
                        let tr = tr.instantiate_identity().skip_norm_wip();
                        o.push(("trait", J::S(self.path(tr.def_id))));
                        o.push(("trait_full", s(format!("{:?}", tr))));
                        o.push((
                            "negative",
                            J::B(matches!(tcx.impl_polarity(did), ty::ImplPolarity::Negative)),
                        ));
                    }
                    let preds = tcx.predicates_of(did);
                    o.push((
                        "where",
                        J::A(preds.predicates.iter().map(|(p, _)| s(format!("{:?}", p))).collect()),
                    ));
                    let mut its = vec![];
                    for it in tcx.associated_items(did).in_definition_order() {
                        its.push(s(it.name()));
                    }
                    o.push(("items", J::A(its)));
                    impls.push(J::O(o));
                }
                DefKind::Fn | DefKind::AssocFn => {
                    let sig = tcx.fn_sig(did).instantiate_identity().skip_binder();
                    let mut o = vec![
                        ("path", J::S(self.path(did))),
                        ("vis", s(format!("{:?}", tcx.visibility(did)))),
                        ("sig", s(format!("{:?}", sig))),
                        ("unsafe", J::B(sig.safety().is_unsafe())),
                        ("span", self.span(tcx.def_span(did))),
                        (
                            "inputs",
                            J::A(sig.inputs().iter().map(|t| s(format!("{:?}", t))).collect()),
                        ),
                        ("output", s(format!("{:?}", sig.output()))),
                    ];
                    if let Some(imp) = tcx.impl_of_assoc(did) {
                        let self_ty = tcx.type_of(imp).instantiate_identity().skip_norm_wip();
                        o.push(("impl_self", s(format!("{:?}", self_ty))));
                        if let Some(tr) = tcx.impl_opt_trait_ref(imp) {
                            let tr = tr.instantiate_identity().skip_norm_wip();
                            o.push(("impl_trait", J::S(self.path(tr.def_id))));
                        }
                    }
                    fns.push(J::O(o));
                }
                _ => {}
            }
        }
        // public re-exports reachable from the crate root (names only)
        for child in tcx.module_children_local(rustc_hir::def_id::CRATE_DEF_ID) {
            if child.vis.is_public() {
                if let Some(d) = child.res.opt_def_id() {
                    reexports.push(J::O(vec![
                        ("name", s(child.ident.name)),
                        ("def", J::S(self.path(d))),
                    ]));
                }
            }
        }
        J::O(vec![
            ("adts", J::A(adts)),
            ("consts", J::A(consts)),
            ("statics", J::A(statics)),
            ("impls", J::A(impls)),
            ("fns", J::A(fns)),
            ("root_public", J::A(reexports)),
        ])
    }
}

struct Cb;

impl rustc_driver::Callbacks for Cb {
    fn after_analysis<'tcx>(
        &mut self,
        _compiler: &rustc_interface::interface::Compiler,
        tcx: TyCtxt<'tcx>,
    ) -> rustc_driver::Compilation {
        let want = std::env::var("MIRFACTS_CRATE").unwrap_or_else(|_| "circ".to_string());
        let name = tcx.crate_name(rustc_hir::def_id::LOCAL_CRATE).to_string();
        if name != want {
            return rustc_driver::Compilation::Continue;
        }
        let out = match std::env::var("MIRFACTS_OUT") {
            Ok(o) => o,
            Err(_) => return rustc_driver::Compilation::Continue,
        };
        let d = D { tcx };
        let mut bodies = vec![];
        for ldid in tcx.hir_body_owners() {
            if let Some(b) = d.body(ldid) {
                bodies.push(b);
            }
        }
        let nb = bodies.len();
        let sess = tcx.sess;
        let mut cfgs: Vec<String> = sess
            .config
            .iter()
            .map(|(k, v)| match v {
                Some(v) => format!("{}={}", k, v),
                None => k.to_string(),
            })
            .collect();
        cfgs.sort();
        let meta = J::O(vec![
            ("crate", J::S(name)),
            ("rustc", s(option_env!("CFG_VERSION").unwrap_or("nightly"))),
            ("debug_assertions", J::B(sess.opts.debug_assertions)),
            ("mir_opt_level", J::I(sess.mir_opt_level() as i128)),
            ("cfg", J::A(cfgs.into_iter().map(J::S).collect())),
            ("bodies", J::I(nb as i128)),
            ("pid", J::I(std::process::id() as i128)),
            ("is_test", J::B(sess.is_test_crate())),
        ]);
        let root = J::O(vec![("meta", meta), ("items", d.items()), ("bodies", J::A(bodies))]);
        let mut text = String::with_capacity(1 << 22);
        root.write(&mut text);
        // One write per process.
        std::fs::write(&out, text).expect("mirfacts: cannot write fact file");
        rustc_driver::Compilation::Continue
    }
}

fn main() {
    let mut args: Vec<String> = std::env::args().collect();
    // RUSTC_WORKSPACE_WRAPPER passes the real rustc path as argv[1].
    if args.len() > 1 && (args[1].ends_with("rustc") || args[1].contains("/rustc")) {
        args.remove(1);
    }
    rustc_driver::run_compiler(&args, &mut Cb);
}
