//! Type-level witnesses (Engine D). Every `compile_fail,E0xxx` block is a program that must
//! NOT type-check against circ's public API; its `no_run` twin (item `t_*`) differs only in the
//! offending line and MUST compile, so a witness cannot pass merely because its paths are wrong.
//! Nothing here is executed: twins are `no_run`.
//!
//! Common prelude used by all blocks (hidden lines start with `# `).

// ------------------------------------------------------------------ TY-SNAPSHOT-GUARD (C02)

/// A Snapshot loaded from an AtomicRc cannot be used after its guard is gone.
/// ```compile_fail,E0505
/// # use circ::{AtomicRc, RcObject, Rc, cs}; use std::sync::atomic::Ordering::SeqCst;
/// # struct N(u32); unsafe impl RcObject for N { fn pop_edges(&mut self, _: &mut Vec<Rc<Self>>) {} }
/// let a = AtomicRc::new(N(1));
/// let g = cs();
/// let s = a.load(SeqCst, &g);
/// drop(g);
/// let _ = s.as_ref().map(|n| n.0);
/// ```
pub struct WSnapshotGuardLoad;

/// ```no_run
/// # use circ::{AtomicRc, RcObject, Rc, cs}; use std::sync::atomic::Ordering::SeqCst;
/// # struct N(u32); unsafe impl RcObject for N { fn pop_edges(&mut self, _: &mut Vec<Rc<Self>>) {} }
/// let a = AtomicRc::new(N(1));
/// let g = cs();
/// let s = a.load(SeqCst, &g);
/// let _ = s.as_ref().map(|n| n.0);
/// drop(g);
/// ```
pub struct TSnapshotGuardLoad;

/// The `current` Snapshot of a failed compare_exchange is tied to the guard too.
/// ```compile_fail,E0505
/// # use circ::{AtomicRc, RcObject, Rc, Snapshot, cs}; use std::sync::atomic::Ordering::SeqCst;
/// # struct N(u32); unsafe impl RcObject for N { fn pop_edges(&mut self, _: &mut Vec<Rc<Self>>) {} }
/// let a = AtomicRc::new(N(1));
/// let g = cs();
/// let e = a.compare_exchange(Snapshot::null(), Rc::new(N(2)), SeqCst, SeqCst, &g).err().unwrap();
/// drop(g);
/// let _ = e.current.as_ref().map(|n| n.0);
/// ```
pub struct WSnapshotGuardCas;

/// ```no_run
/// # use circ::{AtomicRc, RcObject, Rc, Snapshot, cs}; use std::sync::atomic::Ordering::SeqCst;
/// # struct N(u32); unsafe impl RcObject for N { fn pop_edges(&mut self, _: &mut Vec<Rc<Self>>) {} }
/// let a = AtomicRc::new(N(1));
/// let g = cs();
/// let e = a.compare_exchange(Snapshot::null(), Rc::new(N(2)), SeqCst, SeqCst, &g).err().unwrap();
/// let _ = e.current.as_ref().map(|n| n.0);
/// drop(g);
/// ```
pub struct TSnapshotGuardCas;

/// Rc::snapshot
/// ```compile_fail,E0505
/// # use circ::{RcObject, Rc, cs};
/// # struct N(u32); unsafe impl RcObject for N { fn pop_edges(&mut self, _: &mut Vec<Rc<Self>>) {} }
/// let rc = Rc::new(N(1));
/// let g = cs();
/// let s = rc.snapshot(&g);
/// drop(g);
/// let _ = s.as_ref().map(|n| n.0);
/// ```
pub struct WSnapshotGuardRc;

/// ```no_run
/// # use circ::{RcObject, Rc, cs};
/// # struct N(u32); unsafe impl RcObject for N { fn pop_edges(&mut self, _: &mut Vec<Rc<Self>>) {} }
/// let rc = Rc::new(N(1));
/// let g = cs();
/// let s = rc.snapshot(&g);
/// let _ = s.as_ref().map(|n| n.0);
/// drop(g);
/// ```
pub struct TSnapshotGuardRc;

/// WeakSnapshot::upgrade yields a Snapshot bound to the same guard.
/// ```compile_fail,E0505
/// # use circ::{RcObject, Rc, cs};
/// # struct N(u32); unsafe impl RcObject for N { fn pop_edges(&mut self, _: &mut Vec<Rc<Self>>) {} }
/// let rc = Rc::new(N(1));
/// let w = rc.downgrade();
/// let g = cs();
/// let s = w.snapshot(&g).upgrade().unwrap();
/// drop(g);
/// let _ = s.as_ref().map(|n| n.0);
/// ```
pub struct WSnapshotGuardUpgrade;

/// ```no_run
/// # use circ::{RcObject, Rc, cs};
/// # struct N(u32); unsafe impl RcObject for N { fn pop_edges(&mut self, _: &mut Vec<Rc<Self>>) {} }
/// let rc = Rc::new(N(1));
/// let w = rc.downgrade();
/// let g = cs();
/// let s = w.snapshot(&g).upgrade().unwrap();
/// let _ = s.as_ref().map(|n| n.0);
/// drop(g);
/// ```
pub struct TSnapshotGuardUpgrade;

/// AtomicWeak::load yields a WeakSnapshot bound to the guard.
/// ```compile_fail,E0505
/// # use circ::{AtomicWeak, RcObject, Rc, cs}; use std::sync::atomic::Ordering::SeqCst;
/// # struct N(u32); unsafe impl RcObject for N { fn pop_edges(&mut self, _: &mut Vec<Rc<Self>>) {} }
/// let rc = Rc::new(N(1));
/// let a = AtomicWeak::from(&rc);
/// let g = cs();
/// let ws = a.load(SeqCst, &g);
/// drop(g);
/// let _ = ws.upgrade();
/// ```
pub struct WSnapshotGuardWeakLoad;

/// ```no_run
/// # use circ::{AtomicWeak, RcObject, Rc, cs}; use std::sync::atomic::Ordering::SeqCst;
/// # struct N(u32); unsafe impl RcObject for N { fn pop_edges(&mut self, _: &mut Vec<Rc<Self>>) {} }
/// let rc = Rc::new(N(1));
/// let a = AtomicWeak::from(&rc);
/// let g = cs();
/// let ws = a.load(SeqCst, &g);
/// let _ = ws.upgrade();
/// drop(g);
/// ```
pub struct TSnapshotGuardWeakLoad;

/// A reference obtained through a Snapshot cannot outlive the guard either.
/// ```compile_fail,E0597
/// # use circ::{AtomicRc, RcObject, Rc, cs}; use std::sync::atomic::Ordering::SeqCst;
/// # struct N(u32); unsafe impl RcObject for N { fn pop_edges(&mut self, _: &mut Vec<Rc<Self>>) {} }
/// let a = AtomicRc::new(N(1));
/// let r: Option<&N>;
/// {
///     let g = cs();
///     r = a.load(SeqCst, &g).as_ref();
/// }
/// let _ = r.map(|n| n.0);
/// ```
pub struct WSnapshotGuardRef;

/// ```no_run
/// # use circ::{AtomicRc, RcObject, Rc, cs}; use std::sync::atomic::Ordering::SeqCst;
/// # struct N(u32); unsafe impl RcObject for N { fn pop_edges(&mut self, _: &mut Vec<Rc<Self>>) {} }
/// let a = AtomicRc::new(N(1));
/// let r: Option<&N>;
/// {
///     let g = cs();
///     r = a.load(SeqCst, &g).as_ref();
///     let _ = r.map(|n| n.0);
/// }
/// ```
pub struct TSnapshotGuardRef;

// ------------------------------------------------------------------ TY-REACTIVATE-MUT (C02, C16)

/// No Snapshot survives Guard::reactivate.
/// ```compile_fail,E0502
/// # use circ::{AtomicRc, RcObject, Rc, cs}; use std::sync::atomic::Ordering::SeqCst;
/// # struct N(u32); unsafe impl RcObject for N { fn pop_edges(&mut self, _: &mut Vec<Rc<Self>>) {} }
/// let a = AtomicRc::new(N(1));
/// let mut g = cs();
/// let s = a.load(SeqCst, &g);
/// g.reactivate();
/// let _ = s.as_ref().map(|n| n.0);
/// ```
pub struct WReactivateMut;

/// ```no_run
/// # use circ::{AtomicRc, RcObject, Rc, cs}; use std::sync::atomic::Ordering::SeqCst;
/// # struct N(u32); unsafe impl RcObject for N { fn pop_edges(&mut self, _: &mut Vec<Rc<Self>>) {} }
/// let a = AtomicRc::new(N(1));
/// let mut g = cs();
/// let s = a.load(SeqCst, &g);
/// let _ = s.as_ref().map(|n| n.0);
/// g.reactivate();
/// ```
pub struct TReactivateMut;

/// No Snapshot survives Guard::reactivate_after.
/// ```compile_fail,E0502
/// # use circ::{AtomicRc, RcObject, Rc, cs}; use std::sync::atomic::Ordering::SeqCst;
/// # struct N(u32); unsafe impl RcObject for N { fn pop_edges(&mut self, _: &mut Vec<Rc<Self>>) {} }
/// let a = AtomicRc::new(N(1));
/// let mut g = cs();
/// let s = a.load(SeqCst, &g);
/// g.reactivate_after(|| ());
/// let _ = s.as_ref().map(|n| n.0);
/// ```
pub struct WReactivateAfterMut;

/// ```no_run
/// # use circ::{AtomicRc, RcObject, Rc, cs}; use std::sync::atomic::Ordering::SeqCst;
/// # struct N(u32); unsafe impl RcObject for N { fn pop_edges(&mut self, _: &mut Vec<Rc<Self>>) {} }
/// let a = AtomicRc::new(N(1));
/// let mut g = cs();
/// let s = a.load(SeqCst, &g);
/// let _ = s.as_ref().map(|n| n.0);
/// g.reactivate_after(|| ());
/// ```
pub struct TReactivateAfterMut;

// ------------------------------------------------------------------ TY-GUARD-NOT-SEND (C16)

/// A Guard cannot be sent to another thread (it would unpin a foreign participant).
/// ```compile_fail,E0277
/// fn is_send<T: Send>() {}
/// is_send::<circ::Guard>();
/// ```
pub struct WGuardNotSend;

/// ```no_run
/// fn is_send<T: Send>() {}
/// is_send::<u32>();
/// let _ = std::mem::size_of::<circ::Guard>();
/// ```
pub struct TGuardNotSend;

/// A Guard cannot be shared with another thread.
/// ```compile_fail,E0277
/// fn is_sync<T: Sync>() {}
/// is_sync::<circ::Guard>();
/// ```
pub struct WGuardNotSync;

/// ```no_run
/// fn is_sync<T: Sync>() {}
/// is_sync::<u32>();
/// let _ = std::mem::size_of::<circ::Guard>();
/// ```
pub struct TGuardNotSync;

/// A Snapshot borrowed from a guard cannot be moved into a spawned thread.
/// ```compile_fail,E0277
/// # use circ::{AtomicRc, RcObject, Rc, cs}; use std::sync::atomic::Ordering::SeqCst;
/// # struct N(u32); unsafe impl RcObject for N { fn pop_edges(&mut self, _: &mut Vec<Rc<Self>>) {} }
/// let a = AtomicRc::new(N(1));
/// let g = cs();
/// std::thread::scope(|sc| {
///     sc.spawn(|| { let _ = a.load(SeqCst, &g); });
/// });
/// ```
pub struct WGuardRefNotSend;

/// ```no_run
/// # use circ::{AtomicRc, RcObject, Rc, cs}; use std::sync::atomic::Ordering::SeqCst;
/// # struct N(u32); unsafe impl RcObject for N { fn pop_edges(&mut self, _: &mut Vec<Rc<Self>>) {} }
/// let a = AtomicRc::new(N(1));
/// std::thread::scope(|sc| {
///     sc.spawn(|| { let g = cs(); let _ = a.load(SeqCst, &g); });
/// });
/// ```
pub struct TGuardRefNotSend;

// ------------------------------------------------------------------ TY-WEAK-NO-DEREF (C05)

/// A Weak offers no dereference.
/// ```compile_fail,E0599
/// # use circ::{RcObject, Rc};
/// # struct N(u32); unsafe impl RcObject for N { fn pop_edges(&mut self, _: &mut Vec<Rc<Self>>) {} }
/// let rc = Rc::new(N(1));
/// let w = rc.downgrade();
/// let _ = w.as_ref();
/// ```
pub struct WWeakNoDeref;

/// ```no_run
/// # use circ::{RcObject, Rc};
/// # struct N(u32); unsafe impl RcObject for N { fn pop_edges(&mut self, _: &mut Vec<Rc<Self>>) {} }
/// let rc = Rc::new(N(1));
/// let w = rc.downgrade();
/// let _ = rc.as_ref();
/// let _ = w.is_null();
/// ```
pub struct TWeakNoDeref;

/// A WeakSnapshot offers no dereference.
/// ```compile_fail,E0599
/// # use circ::{RcObject, Rc, cs};
/// # struct N(u32); unsafe impl RcObject for N { fn pop_edges(&mut self, _: &mut Vec<Rc<Self>>) {} }
/// let rc = Rc::new(N(1));
/// let w = rc.downgrade();
/// let g = cs();
/// let _ = w.snapshot(&g).as_ref();
/// ```
pub struct WWeakSnapshotNoDeref;

/// ```no_run
/// # use circ::{RcObject, Rc, cs};
/// # struct N(u32); unsafe impl RcObject for N { fn pop_edges(&mut self, _: &mut Vec<Rc<Self>>) {} }
/// let rc = Rc::new(N(1));
/// let w = rc.downgrade();
/// let g = cs();
/// let _ = w.snapshot(&g).upgrade().unwrap().as_ref();
/// ```
pub struct TWeakSnapshotNoDeref;

/// unsafe deref is not offered on Weak either.
/// ```compile_fail,E0599
/// # use circ::{RcObject, Rc};
/// # struct N(u32); unsafe impl RcObject for N { fn pop_edges(&mut self, _: &mut Vec<Rc<Self>>) {} }
/// let rc = Rc::new(N(1));
/// let w = rc.downgrade();
/// let _ = unsafe { w.deref() };
/// ```
pub struct WWeakNoUnsafeDeref;

/// ```no_run
/// # use circ::{RcObject, Rc};
/// # struct N(u32); unsafe impl RcObject for N { fn pop_edges(&mut self, _: &mut Vec<Rc<Self>>) {} }
/// let rc = Rc::new(N(1));
/// let w = rc.downgrade();
/// let _ = unsafe { rc.deref() };
/// let _ = w.tag();
/// ```
pub struct TWeakNoUnsafeDeref;

// ------------------------------------------------------------------ TY-TAKE-MUT (C08)

/// AtomicRc::take needs exclusive access.
/// ```compile_fail,E0596
/// # use circ::{AtomicRc, RcObject, Rc};
/// # struct N(u32); unsafe impl RcObject for N { fn pop_edges(&mut self, _: &mut Vec<Rc<Self>>) {} }
/// let a = AtomicRc::new(N(1));
/// let _ = a.take();
/// ```
pub struct WTakeMut;

/// ```no_run
/// # use circ::{AtomicRc, RcObject, Rc};
/// # struct N(u32); unsafe impl RcObject for N { fn pop_edges(&mut self, _: &mut Vec<Rc<Self>>) {} }
/// let mut a = AtomicRc::new(N(1));
/// let _ = a.take();
/// ```
pub struct TTakeMut;

/// The link of an AtomicRc is not reachable from outside the crate.
/// ```compile_fail,E0616
/// # use circ::{AtomicRc, RcObject, Rc};
/// # struct N(u32); unsafe impl RcObject for N { fn pop_edges(&mut self, _: &mut Vec<Rc<Self>>) {} }
/// let a = AtomicRc::new(N(1));
/// let _ = &a.link;
/// ```
pub struct WLinkPrivate;

/// ```no_run
/// # use circ::{AtomicRc, RcObject, Rc};
/// # struct N(u32); unsafe impl RcObject for N { fn pop_edges(&mut self, _: &mut Vec<Rc<Self>>) {} }
/// let a = AtomicRc::new(N(1));
/// let _ = &a;
/// ```
pub struct TLinkPrivate;

/// The link of an AtomicWeak is not reachable from outside the crate.
/// ```compile_fail,E0616
/// # use circ::{AtomicWeak, RcObject, Rc};
/// # struct N(u32); unsafe impl RcObject for N { fn pop_edges(&mut self, _: &mut Vec<Rc<Self>>) {} }
/// let a = AtomicWeak::<N>::null();
/// let _ = &a.link;
/// ```
pub struct WWeakLinkPrivate;

/// ```no_run
/// # use circ::{AtomicWeak, RcObject, Rc};
/// # struct N(u32); unsafe impl RcObject for N { fn pop_edges(&mut self, _: &mut Vec<Rc<Self>>) {} }
/// let a = AtomicWeak::<N>::null();
/// let _ = &a;
/// ```
pub struct TWeakLinkPrivate;

/// Rc::from_raw / into_raw (count-free ownership moves) are not public.
/// ```compile_fail,E0624
/// # use circ::{RcObject, Rc};
/// # struct N(u32); unsafe impl RcObject for N { fn pop_edges(&mut self, _: &mut Vec<Rc<Self>>) {} }
/// let rc = Rc::new(N(1));
/// let _ = rc.into_raw();
/// ```
pub struct WIntoRawPrivate;

/// ```no_run
/// # use circ::{RcObject, Rc};
/// # struct N(u32); unsafe impl RcObject for N { fn pop_edges(&mut self, _: &mut Vec<Rc<Self>>) {} }
/// let rc = Rc::new(N(1));
/// let _ = rc.clone();
/// ```
pub struct TIntoRawPrivate;

/// The unprotected guard is not part of the public API.
/// ```compile_fail,E0425
/// let _ = unsafe { circ::unprotected() };
/// ```
pub struct WUnprotectedPrivate;

/// ```no_run
/// let _ = circ::cs();
/// ```
pub struct TUnprotectedPrivate;

/// A reference obtained through an Rc is a borrow of that Rc: it cannot be used after the Rc is dropped.
/// ```compile_fail,E0505
/// # use circ::{RcObject, Rc};
/// # struct N(u32); unsafe impl RcObject for N { fn pop_edges(&mut self, _: &mut Vec<Rc<Self>>) {} }
/// let rc = Rc::new(N(1));
/// let r = rc.as_ref().unwrap();
/// drop(rc);
/// let _ = r.0;
/// ```
pub struct WRcRefBorrow;

/// ```no_run
/// # use circ::{RcObject, Rc};
/// # struct N(u32); unsafe impl RcObject for N { fn pop_edges(&mut self, _: &mut Vec<Rc<Self>>) {} }
/// let rc = Rc::new(N(1));
/// let r = rc.as_ref().unwrap();
/// let _ = r.0;
/// drop(rc);
/// ```
pub struct TRcRefBorrow;

/// ... also through the unsafe `deref`: its lifetime is the borrow of the Rc.
/// ```compile_fail,E0505
/// # use circ::{RcObject, Rc};
/// # struct N(u32); unsafe impl RcObject for N { fn pop_edges(&mut self, _: &mut Vec<Rc<Self>>) {} }
/// let rc = Rc::new(N(1));
/// let r = unsafe { rc.deref() };
/// drop(rc);
/// let _ = r.0;
/// ```
pub struct WRcDerefBorrow;

/// ```no_run
/// # use circ::{RcObject, Rc};
/// # struct N(u32); unsafe impl RcObject for N { fn pop_edges(&mut self, _: &mut Vec<Rc<Self>>) {} }
/// let rc = Rc::new(N(1));
/// let r = unsafe { rc.deref() };
/// let _ = r.0;
/// drop(rc);
/// ```
pub struct TRcDerefBorrow;

/// A mutable reference through an Rc needs the Rc exclusively.
/// ```compile_fail,E0596
/// # use circ::{RcObject, Rc};
/// # struct N(u32); unsafe impl RcObject for N { fn pop_edges(&mut self, _: &mut Vec<Rc<Self>>) {} }
/// let rc = Rc::new(N(1));
/// let _ = unsafe { rc.as_mut() };
/// ```
pub struct WRcAsMutExclusive;

/// ```no_run
/// # use circ::{RcObject, Rc};
/// # struct N(u32); unsafe impl RcObject for N { fn pop_edges(&mut self, _: &mut Vec<Rc<Self>>) {} }
/// let mut rc = Rc::new(N(1));
/// let _ = unsafe { rc.as_mut() };
/// ```
pub struct TRcAsMutExclusive;
