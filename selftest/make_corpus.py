#!/usr/bin/env python3
"""Generates corpus.json: small patches (exact string replacement) against /repo.
kind=break : still compiles, breaks one rule instance; `expect` = rules of which at least one must report.
kind=benign: behaviour-preserving; every rule must stay silent."""
import json
import os

M = []


def mut(id, kind, props, desc, edits, expect=None, allow_error=False):
    M.append({"id": id, "kind": kind, "properties": props, "desc": desc, "edits": edits, "expect": expect or [],
              "allow_error": allow_error})


def ed(file, old, new, count=1):
    return {"file": file, "old": old, "new": new, "count": count}


U = "src/utils.rs"
S = "src/strong.rs"
W = "src/weak.rs"
I = "src/ebr_impl/internal.rs"

# ---------------------------------------------------------------- reverse patches of the five fixes
mut("rev-F1-weak_many-null", "break", ["C10", "C03"], "weak_many returns null Weaks again",
    [ed(S, "array::from_fn(|_| Weak::from_raw(self.ptr))", "array::from_fn(|_| Weak::null())")], ["OWN-BALANCE"])
mut("rev-F2-atomicweak-cas", "break", ["C09"], "AtomicWeak::compare_exchange fails on epoch-bit difference again",
    [ed(W, """                Err(current_raw) => {
                    // The stored pointer may carry epoch bits inherited from an `AtomicRc`.
                    // They are invisible to users, so retry if only they differ.
                    if current_raw.ptr_eq(expected_raw) {
                        expected_raw = current_raw;
                    } else {
                        let current = WeakSnapshot::from_raw(current_raw, guard);
                        return Err(CompareExchangeError { desired, current });
                    }
                }""", """                Err(current_raw) => {
                    let current = WeakSnapshot::from_raw(current_raw, guard);
                    return Err(CompareExchangeError { desired, current });
                }""")], ["CAS-EPOCH-BLIND"])
mut("rev-F3-cascade-destructed", "break", ["C05", "C04"], "cascade child no longer marked DESTRUCTED",
    [ed(U, "        if depth > 0 {\n            // Unlike a root", "        if depth > 0 && false {\n            // Unlike a root")],
    ["CW-DESTRUCT-ONCE"])
mut("rev-F5-upgrade-split-inc", "break", ["C01", "C05"], "Weak::upgrade uses the two-RMW increment again",
    [ed(W, "if obj.try_increment_strong() {", "if obj.increment_strong() {")], ["CW-SPLIT-INC-PROTECTED"])
mut("rev-F6-epoch-before-pin", "break", ["C02"], "decrement_strong reads the epoch before pinning",
    [ed(U, """        let local_guard;
        let guard = match guard {
            Some(guard) => guard,
            None => {
                local_guard = cs();
                &local_guard
            }
        };
        let epoch = global_epoch();""", """        let epoch = global_epoch();
        let local_guard;
        let guard = match guard {
            Some(guard) => guard,
            None => {
                local_guard = cs();
                &local_guard
            }
        };""")], ["CW-STAMP-PINNED"])

# ---------------------------------------------------------------- count-word protocol
mut("cw-drop-second-fetch-add", "break", ["C01", "C05"], "increment_strong: token not added when incrementing from zero",
    [ed(U, """            // Now create an actual reference.
            self.state.fetch_add(COUNT, Ordering::SeqCst);""", """            // Now create an actual reference.""")],
    ["CW-TOKEN"])
mut("cw-try-inc-no-token", "break", ["C01", "C05"], "try_increment_strong adds 1 from zero",
    [ed(U, "old.add_strong(2)", "old.add_strong(1)")], ["CW-TOKEN"])
mut("cw-is-not-destructed-no-token", "break", ["C02", "C05"], "is_not_destructed does not add the token at zero",
    [ed(U, """                old.add_strong(1).as_raw(),
                Ordering::SeqCst,
                Ordering::SeqCst,
            ) {
                Ok(_) => return true,""", """                old.as_raw(),
                Ordering::SeqCst,
                Ordering::SeqCst,
            ) {
                Ok(_) => return true,""")], ["CW-TOKEN"])
mut("cw-upgrade-ignores-destructed", "break", ["C05"], "try_increment_strong does not fail on DESTRUCTED",
    [ed(U, """            if old.destructed() {
                return false;
            }
            let new = if""", """            let new = if""")], ["CW-INC-FAIL-ON-DESTRUCTED", "CW-TOKEN"])
mut("cw-upgrade-returns-some-on-fail", "break", ["C05"], "Weak::upgrade returns Some when the increment failed",
    [ed(W, """        if obj.try_increment_strong() {
            return Some(Rc::from_raw(self.ptr));
        }
        None""", """        if obj.try_increment_strong() {
            return Some(Rc::from_raw(self.ptr));
        }
        Some(Rc::null())""")], ["CW-INC-FAIL-ON-DESTRUCTED"])
mut("cw-direct-try-destruct", "break", ["C01", "C02", "C13"], "decrement_strong calls try_destruct directly on hit-zero",
    [ed(U, """        if hit_zero {
            guard.defer_with_inner(ptr, |inner| Self::try_destruct(inner));
        }""", """        if hit_zero {
            Self::try_destruct(ptr);
        }""")], ["CW-DEFERRED-ONLY", "CW-ZERO-DEFERS"])
mut("cw-no-defer-on-zero", "break", ["C04"], "decrement_strong forgets to hand off on hit-zero",
    [ed(U, """        if hit_zero {
            guard.defer_with_inner(ptr, |inner| Self::try_destruct(inner));
        }""", """        let _ = hit_zero;""")], ["CW-ZERO-DEFERS"])
mut("cw-always-defer", "break", ["C01"], "decrement_strong hands off an attempt on every decrement",
    [ed(U, """        if hit_zero {
            guard.defer_with_inner(ptr, |inner| Self::try_destruct(inner));
        }""", """        let _ = hit_zero;
        guard.defer_with_inner(ptr, |inner| Self::try_destruct(inner));""")], ["CW-ZERO-DEFERS"])
mut("cw-attempt-no-recheck", "break", ["C01"], "try_destruct does not re-check the strong count",
    [ed(U, """            if old.strong() > 0 {
                Self::decrement_strong(ptr, 1, None);
                return;
            }
            match (*ptr).state.compare_exchange(""", """            match (*ptr).state.compare_exchange(""")],
    ["CW-ATTEMPT-RECHECK", "CW-DESTRUCT-ONCE"])
mut("cw-attempt-no-destructed-flag", "break", ["C05", "C04"], "try_destruct does not set DESTRUCTED",
    [ed(U, """                old.with_destructed(true).as_raw(),
                Ordering::SeqCst,
                Ordering::SeqCst,
            ) {
                // Note that""", """                old.as_raw(),
                Ordering::SeqCst,
                Ordering::SeqCst,
            ) {
                // Note that""")], ["CW-DESTRUCT-ONCE", "CW-ATTEMPT-RECHECK"])
mut("cw-destruct-order", "break", ["C04"], "payload dropped before pop_edges",
    [ed(U, """        rc.data_mut().pop_edges(&mut outgoings);
        unsafe {
            ManuallyDrop::drop(&mut rc.storage);""", """        unsafe {
            ManuallyDrop::drop(&mut rc.storage);
        }
        rc.data_mut().pop_edges(&mut outgoings);
        unsafe {""")], ["CW-DESTRUCT-ORDER"])
mut("cw-dealloc-ignores-weaked", "break", ["C03", "C04"], "dispose always deallocates",
    [ed(U, """            if State::from_raw(rc.state.load(Ordering::SeqCst)).weaked() {
                RcInner::decrement_weak(rc, Some(guard));
            } else {
                RcInner::dealloc(rc);
            }""", """            RcInner::dealloc(rc);""")], ["CW-DESTRUCT-ORDER"])
mut("cw-decrement-weak-direct-dealloc", "break", ["C03"], "decrement_weak frees directly instead of deferring try_dealloc",
    [ed(U, "guard.defer_with_inner(ptr, |inner| Self::try_dealloc(inner));", "let _ = guard; Self::dealloc(ptr);")],
    ["CW-WEAK-PROTOCOL"])
mut("cw-try-dealloc-no-recheck", "break", ["C03"], "try_dealloc frees without re-checking",
    [ed(U, """        if State::from_raw((*ptr).state.load(Ordering::SeqCst)).weak() > 0 {
            Self::decrement_weak(ptr, None);
        } else {
            Self::dealloc(ptr);
        }""", """        Self::dealloc(ptr);""")], ["CW-WEAK-PROTOCOL"])
mut("cw-inc-weak-no-token", "break", ["C03"], "increment_weak from zero does not add the token",
    [ed(U, """        {
            self.state.fetch_add(WEAK_COUNT, Ordering::SeqCst);
        }""", """        {
        }""")], ["CW-WEAK-PROTOCOL"])
mut("cw-no-stamp-on-dec", "break", ["C02"], "decrement_strong does not stamp the epoch",
    [ed(U, "curr.with_epoch(epoch).sub_strong(count).as_raw(),", "{ let _ = epoch; curr.sub_strong(count).as_raw() },")],
    ["CW-STAMP-ON-DEC"])
mut("cw-merge-drops-link-epoch", "break", ["C02"], "cascade merge ignores the link stamp",
    [ed(U, "modu.max(&[node_epoch as _, link_epoch as _, cnt_curr.epoch() as _]);",
        "{ let _ = link_epoch; modu.max(&[node_epoch as _, cnt_curr.epoch() as _]) };")], ["CW-CASCADE-MERGE"])
mut("cw-merge-drops-parent-epoch", "break", ["C02"], "cascade merge ignores the parent stamp",
    [ed(U, "modu.max(&[node_epoch as _, link_epoch as _, cnt_curr.epoch() as _]);",
        "modu.max(&[link_epoch as _, cnt_curr.epoch() as _]);")], ["CW-CASCADE-MERGE"])
mut("cw-threshold-1", "break", ["C02", "C12"], "cascade age threshold lowered to 1",
    [ed(U, "modu.le(node_epoch as _, curr_epoch as isize - 3)", "modu.le(node_epoch as _, curr_epoch as isize - 1)")],
    ["CW-CASCADE-DECISION"])
mut("cw-no-age-test", "break", ["C02"], "cascade reclaims children unconditionally",
    [ed(U, "if depth == 0 || modu.le(node_epoch as _, curr_epoch as isize - 3) {", "if depth == 0 || depth > 0 || modu.le(node_epoch as _, curr_epoch as isize - 3) {")],
    ["CW-CASCADE-DECISION"])
mut("cw-too-recent-dropped", "break", ["C04"], "too-recent child is neither reclaimed nor deferred",
    [ed(U, """        // It is likely to be unsafe to reclaim right now.
        guard.defer_with_inner(rc, |rc| RcInner::try_destruct(rc));""", """        // It is likely to be unsafe to reclaim right now.""")],
    ["CW-CASCADE-DECISION"])
mut("cw-clear-destructed", "break", ["C05"], "a path clears the DESTRUCTED flag",
    [ed(U, "old.with_weaked(true).add_weak(count).as_raw(),", "old.with_weaked(true).with_destructed(false).add_weak(count).as_raw(),")],
    ["CW-SITES"])
mut("cw-state-outside-utils", "break", ["C01"], "count word written from strong.rs", [
    ed(U, "    state: AtomicU64,\n}", "    pub(crate) state: AtomicU64,\n}"),
    ed(S, """        let rc = Self {
            ptr: self.ptr,
            _marker: PhantomData,
        };
        unsafe {
            if let Some(cnt) = rc.ptr.as_raw().as_ref() {
                cnt.increment_strong();""", """        let rc = Self {
            ptr: self.ptr,
            _marker: PhantomData,
        };
        unsafe {
            if let Some(cnt) = rc.ptr.as_raw().as_ref() {
                cnt.state.fetch_add(1, Ordering::SeqCst);""")], ["CW-SITES", "OWN-BALANCE"])

# ---------------------------------------------------------------- ownership ledger
mut("own-store-no-forget", "break", ["C08", "C01"], "AtomicRc::store forgets to forget(ptr): the stored share is released",
    [ed(S, """        // Skip decrementing a strong count of the inserted pointer.
        forget(ptr);
        unsafe {
            // Did not use""", """        unsafe {
            // Did not use""")], ["OWN-BALANCE"])
mut("own-cas-no-forget", "break", ["C08", "C01"], "AtomicRc::compare_exchange success path drops desired",
    [ed(S, """                Ok(_) => {
                    // Skip decrementing a strong count of the inserted pointer.
                    forget(desired);
                    let rc = Rc::from_raw(expected_raw);
                    return Ok(rc);
                }
                Err(current_raw) => {
                    if current_raw.ptr_eq(expected_raw) {
                        expected_raw = current_raw;
                    } else {
                        let current = Snapshot::from_raw(current_raw, guard);
                        return Err(CompareExchangeError { desired, current });
                    }
                }
            }
        }
    }

    /// Stores the [`Rc`] pointer `desired` into the atomic pointer if the current value is the
    /// same as `expected` [`Snapshot`] pointer. The tag is also taken into account,
    /// so two pointers to the same object, but with different tags, will not be considered equal.
    ///
    /// Unlike""", """                Ok(_) => {
                    let rc = Rc::from_raw(expected_raw);
                    return Ok(rc);
                }
                Err(current_raw) => {
                    if current_raw.ptr_eq(expected_raw) {
                        expected_raw = current_raw;
                    } else {
                        let current = Snapshot::from_raw(current_raw, guard);
                        return Err(CompareExchangeError { desired, current });
                    }
                }
            }
        }
    }

    /// Stores the [`Rc`] pointer `desired` into the atomic pointer if the current value is the
    /// same as `expected` [`Snapshot`] pointer. The tag is also taken into account,
    /// so two pointers to the same object, but with different tags, will not be considered equal.
    ///
    /// Unlike""")], ["OWN-BALANCE"])
mut("own-cas-returns-desired-ptr", "break", ["C08"], "success returns an Rc of the wrong pointer",
    [ed(S, """                    forget(desired);
                    let rc = Rc::from_raw(expected_raw);
                    return Ok(rc);
                }
                Err(current_raw) => {
                    if current_raw.ptr_eq(expected_raw) {
                        expected_raw = current_raw;
                    } else {
                        let current = Snapshot::from_raw(current_raw, guard);
                        return Err(CompareExchangeError { desired, current });
                    }
                }
            }
        }
    }

    /// Overwrites""", """                    forget(desired);
                    let rc = Rc::from_raw(desired_raw);
                    return Ok(rc);
                }
                Err(current_raw) => {
                    if current_raw.ptr_eq(expected_raw) {
                        expected_raw = current_raw;
                    } else {
                        let current = Snapshot::from_raw(current_raw, guard);
                        return Err(CompareExchangeError { desired, current });
                    }
                }
            }
        }
    }

    /// Overwrites""")], ["OWN-BALANCE", "OWN-PROVENANCE"])
mut("own-clone-no-inc", "break", ["C01"], "Rc::clone does not increment",
    [ed(S, """            if let Some(cnt) = rc.ptr.as_raw().as_ref() {
                cnt.increment_strong();
            }
        }
        rc
    }
}

impl<T: RcObject> Rc<T> {""", """            if let Some(cnt) = rc.ptr.as_raw().as_ref() {
                let _ = cnt;
            }
        }
        rc
    }
}

impl<T: RcObject> Rc<T> {""")], ["OWN-BALANCE"])
mut("own-finalize-double-dec", "break", ["C01", "C04"], "Rc::finalize does not forget(self): share released twice",
    [ed(S, """                RcInner::decrement_strong(cnt, 1, Some(guard));
            }
        }
        forget(self);
    }""", """                RcInner::decrement_strong(cnt, 1, Some(guard));
            }
        }
    }""")], ["OWN-BALANCE"])
mut("own-iter-drop-off-by-one", "break", ["C10", "C04"], "NewRcIter::drop releases remain-1 shares",
    [ed(S, "RcInner::decrement_strong(self.ptr.as_raw(), self.remain as _, None);",
        "RcInner::decrement_strong(self.ptr.as_raw(), (self.remain - 1) as _, None);")], ["OWN-BALANCE"])
mut("own-iter-next-no-dec", "break", ["C10"], "NewRcIter::next does not count down",
    [ed(S, "            self.remain -= 1;\n", "")], ["OWN-BALANCE"])
mut("own-new-many-count", "break", ["C10"], "new_many allocates N+1 shares",
    [ed(S, "let ptr = RcInner::alloc(obj, N as _);", "let ptr = RcInner::alloc(obj, (N + 1) as _);")], ["OWN-BALANCE"])
mut("own-abort-leak", "break", ["C10", "C04"], "NewRcIter::abort leaks the remainder",
    [ed(S, """        if self.remain > 0 {
            unsafe {
                RcInner::decrement_strong(self.ptr.as_raw(), self.remain as _, Some(guard));
            };
        }
        forget(self);""", """        let _ = guard;
        forget(self);""")], ["OWN-BALANCE"])
mut("own-weak-store-leak", "break", ["C09", "C03"], "AtomicWeak::store does not release the previous content",
    [ed(W, """            if let Some(cnt) = old_ptr.as_raw().as_mut() {
                RcInner::decrement_weak(cnt, Some(guard));
            }
        }
    }""", """            let _ = (old_ptr, guard);
        }
    }""")], ["OWN-BALANCE"])
mut("own-downgrade-no-inc", "break", ["C03"], "Rc::downgrade creates a Weak without a weak share",
    [ed(S, """                cnt.increment_weak(1);
                return Weak::from_raw(self.ptr);""", """                let _ = cnt;
                return Weak::from_raw(self.ptr);""")], ["OWN-BALANCE"])
mut("own-into-raw-drops", "break", ["C08"], "Rc::into_raw forgets to forget(self)",
    [ed(S, """        // Skip decrementing the ref count.
        forget(self);
        new_ptr
    }

    /// Consumes""", """        new_ptr
    }

    /// Consumes""")], ["OWN-PRIMITIVES"])
mut("own-take-clones", "break", ["C08"], "AtomicRc::take leaves the pointer in place",
    [ed(S, "Rc::from_raw(core::mem::take(self.link.get_mut()))", "Rc::from_raw(*self.link.get_mut())")],
    ["OWN-BALANCE", "OWN-PROVENANCE"])
mut("own-cascade-no-into-raw", "break", ["C04", "C01"], "cascade decrements the child and then drops the Rc too",
    [ed(U, "let next_ptr = next.into_raw();", "let next_ptr = Rc::from_raw(next.snapshot(guard).ptr).into_raw();")],
    ["OWN-BALANCE"], allow_error=True)

# ---------------------------------------------------------------- links
mut("link-swap-no-timestamp", "break", ["C02", "C08"], "AtomicRc::swap does not stamp the link",
    [ed(S, """        let new_ptr = new.into_raw();
        let old_ptr = self.link.swap(new_ptr.with_timestamp(), order);""", """        let new_ptr = new.into_raw();
        let old_ptr = self.link.swap(new_ptr, order);""")], ["LINK-STAMP"])
mut("link-cas-no-timestamp", "break", ["C02", "C08"], "AtomicRc::compare_exchange does not stamp",
    [ed(S, """        let mut expected_raw = expected.ptr;
        let desired_raw = desired.ptr.with_timestamp();
        loop {
            match self
                .link
                .compare_exchange(expected_raw""", """        let mut expected_raw = expected.ptr;
        let desired_raw = desired.ptr;
        loop {
            match self
                .link
                .compare_exchange(expected_raw""")], ["LINK-STAMP"])
mut("link-timestamp-stale", "break", ["C02"], "with_timestamp stamps a constant",
    [ed(S, "self.with_high_tag(global_epoch())", "self.with_high_tag(0)")], ["LINK-STAMP"])
mut("link-cas-retry-forever-wrong-expected", "break", ["C08"], "retry does not update expected",
    [ed(S, """                    if current_raw.ptr_eq(expected_raw) {
                        expected_raw = current_raw;
                    } else {
                        let current = Snapshot::from_raw(current_raw, guard);
                        return Err(CompareExchangeError { desired, current });
                    }
                }
            }
        }
    }

    /// Overwrites""", """                    if current_raw.ptr_eq(expected_raw) {
                        expected_raw = expected.ptr;
                    } else {
                        let current = Snapshot::from_raw(current_raw, guard);
                        return Err(CompareExchangeError { desired, current });
                    }
                }
            }
        }
    }

    /// Overwrites""")], ["CAS-EPOCH-BLIND"])
mut("link-atomicrc-no-ptr-eq", "break", ["C08"], "AtomicRc::compare_exchange_tag fails on epoch bits",
    [ed(S, """                Err(current_raw) => {
                    if current_raw.ptr_eq(expected_raw) {
                        expected_raw = current_raw;
                    } else {
                        return Err(CompareExchangeError {
                            desired: Snapshot::from_raw(desired_raw, guard),
                            current: Snapshot::from_raw(current_raw, guard),
                        });
                    }
                }""", """                Err(current_raw) => {
                    return Err(CompareExchangeError {
                        desired: Snapshot::from_raw(desired_raw, guard),
                        current: Snapshot::from_raw(current_raw, guard),
                    });
                }""")], ["CAS-EPOCH-BLIND"])
mut("link-weak-writer-outside", "break", ["C09"], "Weak method writes an AtomicWeak's link",
    [ed(W, """    #[inline]
    pub(crate) fn increment_weak(&self) {""", """    #[allow(dead_code)]
    pub(crate) fn poke(&self, cell: &AtomicWeak<T>) {
        cell.link.store(self.ptr, Ordering::SeqCst);
    }

    #[inline]
    pub(crate) fn increment_weak(&self) {""")], ["LINK-WRITERS"])

# ---------------------------------------------------------------- behaviour-preserving edits
mut("ok-rename-local", "benign", ["C01", "C04"], "rename a local in decrement_strong",
    [ed(U, "let hit_zero = loop {", "let reached_zero = loop {"), ed(U, "if hit_zero {", "if reached_zero {")])
mut("ok-iflet-to-match", "benign", ["C01", "C08"], "Rc::drop: if let -> match",
    [ed(S, """            if let Some(cnt) = self.ptr.as_raw().as_mut() {
                RcInner::decrement_strong(cnt, 1, None);
            }
        }
    }
}

impl<T: RcObject + PartialEq> PartialEq for Rc<T> {""", """            match self.ptr.as_raw().as_mut() {
                Some(cnt) => RcInner::decrement_strong(cnt, 1, None),
                None => {}
            }
        }
    }
}

impl<T: RcObject + PartialEq> PartialEq for Rc<T> {""")])
mut("ok-threshold-spelling", "benign", ["C02", "C13"], "is_expired: >= 3 spelled > 2",
    [ed(I, "global_epoch.wrapping_sub(self.epoch) >= 3", "global_epoch.wrapping_sub(self.epoch) > 2")])
mut("ok-increment-strong-cas-loop", "benign", ["C01", "C05"], "increment_strong rewritten as one CAS loop",
    [ed(U, """        let val = State::from_raw(self.state.fetch_add(COUNT, Ordering::SeqCst));
        if val.destructed() {
            return false;
        }
        if val.strong() == 0 {
            // The previous fetch_add created a permission to run decrement again.
            // Now create an actual reference.
            self.state.fetch_add(COUNT, Ordering::SeqCst);
        }
        true""", """        self.try_increment_strong()""")])
mut("ok-closure-hoisted", "benign", ["C01", "C03"], "deferred closure replaced by a named fn item path",
    [ed(U, "guard.defer_with_inner(ptr, |inner| Self::try_dealloc(inner));",
        "guard.defer_with_inner(ptr, |p: *mut Self| { Self::try_dealloc(p) });")])
mut("ok-try-destruct-while", "benign", ["C01", "C05"], "try_destruct's loop spelled differently",
    [ed(U, """            if old.strong() > 0 {
                Self::decrement_strong(ptr, 1, None);
                return;
            }
            match (*ptr).state.compare_exchange(""", """            if old.strong() != 0 {
                Self::decrement_strong(ptr, 1, None);
                return;
            }
            match (*ptr).state.compare_exchange(""")])
mut("ok-store-forget-order", "benign", ["C08"], "AtomicRc::store: forget before swap (as AtomicWeak does)",
    [ed(S, """        let new_ptr = ptr.ptr;
        let old_ptr = self.link.swap(new_ptr.with_timestamp(), order);
        // Skip decrementing a strong count of the inserted pointer.
        forget(ptr);""", """        let new_ptr = ptr.ptr;
        // Skip decrementing a strong count of the inserted pointer.
        forget(ptr);
        let old_ptr = self.link.swap(new_ptr.with_timestamp(), order);""")])
mut("ok-cascade-threshold-4", "benign", ["C02", "C06"], "cascade threshold raised to 4 (more conservative)",
    [ed(U, "curr_epoch as isize - 3)", "curr_epoch as isize - 4)")])

os.makedirs(os.path.dirname(os.path.abspath(__file__)), exist_ok=True)
with open(os.path.join(os.path.dirname(os.path.abspath(__file__)), "corpus.json"), "w") as f:
    json.dump({"mutants": M}, f, indent=1)
print(len(M), "mutants")
