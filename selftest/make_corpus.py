#!/usr/bin/env python3
"""Generates corpus.json: small patches (exact string replacement) against /repo.
kind=break : still compiles, breaks one rule instance; `expect` = rules of which at least one must report.
kind=benign: behaviour-preserving; every rule must stay silent."""
import json
import os

M = []


def mut(id, kind, props, desc, edits, expect=None, allow_error=False, config=None):
    M.append({"id": id, "kind": kind, "properties": props, "desc": desc, "edits": edits, "expect": expect or [],
              "allow_error": allow_error})
    if config:
        M[-1]["config"] = config     # "release": judged in the build without debug assertions (./check analyses both)


def ed(file, old, new, count=1):
    return {"file": file, "old": old, "new": new, "count": count}


U = "src/utils.rs"
S = "src/strong.rs"
W = "src/weak.rs"
I = "src/ebr_impl/internal.rs"

# ---------------------------------------------------------------- reverse patches of the five fixes
mut("rev-F1-weak_many-null", "break", ["C10", "C03"], "weak_many returns null Weaks again",
    [ed(S, "array::from_fn(|_| Weak::from_raw(self.ptr))", "array::from_fn(|_| Weak::null())")], ["OWN-BALANCE"])
mut("rev-F2-atomicweak-cas", "break", ["C09"], "AtomicWeak::compare_exchange fails on epoch-bit difference again",
    [ed(W, """                Err(current_raw) => {
                    // The stored pointer may carry epoch bits inherited from an `AtomicRc`.
                    // They are invisible to users, so retry if only they differ.
                    if current_raw.ptr_eq(expected_raw) {
                        expected_raw = current_raw;
                    } else {
                        let current = WeakSnapshot::from_raw(current_raw, guard);
                        return Err(CompareExchangeError { desired, current });
                    }
                }""", """                Err(current_raw) => {
                    let current = WeakSnapshot::from_raw(current_raw, guard);
                    return Err(CompareExchangeError { desired, current });
                }""")], ["CAS-EPOCH-BLIND"])
mut("rev-F3-cascade-destructed", "break", ["C05", "C04"], "cascade child no longer marked DESTRUCTED",
    [ed(U, "        if depth > 0 {\n            // Unlike a root", "        if depth > 0 && false {\n            // Unlike a root")],
    ["CW-DESTRUCT-ONCE"])
mut("rev-F5-upgrade-split-inc", "break", ["C01", "C05"], "Weak::upgrade uses the two-RMW increment again",
    [ed(W, "if obj.try_increment_strong() {", "if obj.increment_strong() {")], ["CW-SPLIT-INC-PROTECTED"])
mut("rev-F9-acquire-handle-assert", "break", ["C20", "C16"], "acquire_handle asserts handle_count >= 1 again",
    [ed(I, "debug_assert!(handle_count >= 1 || self.guard_count.get() >= 1);", "debug_assert!(handle_count >= 1);")],
    ["EBR-LIVE-PRECOND"])
mut("live-precond-repin-asserts", "break", ["C20", "C16"], "repin asserts that the participant still has a handle",
    [ed(I, """    pub(crate) fn repin(&self) {
        self.acquire_handle();""", """    pub(crate) fn repin(&self) {
        debug_assert!(self.handle_count.get() > 0, "repin on an unregistered participant");
        self.acquire_handle();""")], ["EBR-LIVE-PRECOND"])
mut("ok-live-precond-no-assert", "benign", [], "acquire_handle without any assertion",
    [ed(I, """        // A guard outlives the temporary handle it was pinned through (see `with_handle`), so a
        // live `Local` has a handle or a guard, not necessarily a handle.
        debug_assert!(handle_count >= 1 || self.guard_count.get() >= 1);
""", "")])
mut("ok-live-precond-sum", "benign", [], "acquire_handle asserts liveness as a sum",
    [ed(I, "debug_assert!(handle_count >= 1 || self.guard_count.get() >= 1);",
        "debug_assert!(handle_count + self.guard_count.get() >= 1);")])
mut("rev-F12-upgrade-no-trace", "break", ["C02", "C05"], "is_not_destructed grants without stamping when strong > 0",
    [ed(U, """            let new = if old.strong() == 0 {
                old.add_strong(1)
            } else {
                old.with_epoch(epoch)
            };""", """            if old.strong() > 0 {
                return true;
            }
            let new = old.add_strong(1);
            let _ = epoch;""")], ["CW-UPGRADE-TRACE"])
mut("F12-upgrade-stale-stamp", "break", ["C02"], "is_not_destructed stamps the epoch field it found instead of the current epoch",
    [ed(U, "                old.with_epoch(epoch)\n            };", "                old.with_epoch(old.epoch() as usize)\n            };\n            let _ = epoch;")],
    ["CW-UPGRADE-TRACE"])
mut("rev-F13-unpin-repins-ungated", "break", ["C02", "C16"], "the collecting loop re-pins without looking at the guard count",
    [ed(I, "                self.repin_unless_foreign_guards(0);", "                self.repin_without_collect();")],
    ["EBR-COLLECT-OUTERMOST"])
mut("F13-dgn-wrong-own", "break", ["C02", "C16"], "the cascade claims no guard of its own when re-pinning",
    [ed(U, "local.repin_unless_foreign_guards(1);", "local.repin_unless_foreign_guards(2);")], ["EBR-COLLECT-OUTERMOST"])
mut("rev-F15-per-participant-flag", "break", ["C07", "C20"], "unpin no longer tests the thread-wide collecting flag",
    [ed(I, "if guard_count == 1 && !self.collecting.get() && !THREAD_COLLECTING.with(Cell::get) {",
        "if guard_count == 1 && !self.collecting.get() {")], ["REC-COLLECT-REENTRY"])
mut("rev-F16-advance-reenters", "break", ["C07", "C18", "C20"], "incr_advance re-enters try_advance again",
    [ed(I, """        if advance_count % Self::COUNTS_BETWEEN_ADVANCE == 0 && !self.advancing.replace(true) {
            self.global().try_advance(guard);
            self.advancing.set(false);
        }""", """        if advance_count % Self::COUNTS_BETWEEN_ADVANCE == 0 {
            self.global().try_advance(guard);
        }""")], ["REC-NO-UNBOUNDED"])
mut("F16-flag-never-set", "break", ["C07", "C18", "C20"], "incr_advance tests the advancing flag but never sets it",
    [ed(I, "!self.advancing.replace(true) {", "!self.advancing.get() {")], ["REC-NO-UNBOUNDED"])
mut("rev-F17-stale-window", "break", ["C02", "C12"], "the cascade merges a child's stamps in the frame's entry window again",
    [ed(U, "                let modu: Modular<EPOCH_WIDTH> = Modular::new(global_epoch() as isize + 1);\n                let next_epoch =",
        "                let next_epoch =")], ["CW-WINDOW-FRESH"])
mut("ok-F14-unpin-scopeguard", "benign", [], "unpin restores its state from a scope guard (also on unwind)",
    [ed(I, """            self.collecting.set(false);
            THREAD_COLLECTING.with(|c| c.set(false));
        }

        // Read the count again""", """            self.collecting.set(false);
            THREAD_COLLECTING.with(|c| c.set(false));
        }
        let _noop = scopeguard::guard((), |_| {});

        // Read the count again""")])
mut("F15-thread-flag-cleared-in-loop", "break", ["C07", "C20"], "the thread-wide flag is cleared after the first pass of the collecting loop",
    [ed(I, """                self.repin_unless_foreign_guards(0);
            }
            self.collecting.set(false);
            THREAD_COLLECTING.with(|c| c.set(false));""", """                self.repin_unless_foreign_guards(0);
                THREAD_COLLECTING.with(|c| c.set(false));
            }
            self.collecting.set(false);""")], ["REC-COLLECT-REENTRY"])
mut("F16-flag-cleared-before-call", "break", ["C07", "C18", "C20"], "incr_advance clears the advancing flag before it calls try_advance",
    [ed(I, """            self.global().try_advance(guard);
            self.advancing.set(false);""", """            self.advancing.set(false);
            self.global().try_advance(guard);""")], ["REC-NO-UNBOUNDED"])
mut("F12-stamp-only-sole-owner", "break", ["C02", "C05"], "is_not_destructed stamps only when the strong count is exactly 1",
    [ed(U, """            let new = if old.strong() == 0 {
                old.add_strong(1)
            } else {
                old.with_epoch(epoch)
            };""", """            let new = if old.strong() == 0 {
                old.add_strong(1)
            } else if old.strong() == 1 {
                old.with_epoch(epoch)
            } else {
                old
            };""")], ["CW-UPGRADE-TRACE"])
mut("rev-F6-epoch-before-pin", "break", ["C02"], "decrement_strong reads the epoch before pinning",
    [ed(U, """        let local_guard;
        let guard = match guard {
            Some(guard) => guard,
            None => {
                local_guard = cs();
                &local_guard
            }
        };
        let epoch = global_epoch();""", """        let epoch = global_epoch();
        let local_guard;
        let guard = match guard {
            Some(guard) => guard,
            None => {
                local_guard = cs();
                &local_guard
            }
        };""")], ["CW-STAMP-PINNED"])

# ---------------------------------------------------------------- count-word protocol
mut("cw-drop-second-fetch-add", "break", ["C01", "C05"], "increment_strong: token not added when incrementing from zero",
    [ed(U, """            // Now create an actual reference.
            self.state.fetch_add(COUNT, Ordering::SeqCst);""", """            // Now create an actual reference.""")],
    ["CW-TOKEN"])
mut("cw-try-inc-no-token", "break", ["C01", "C05"], "try_increment_strong adds 1 from zero",
    [ed(U, "old.add_strong(2)", "old.add_strong(1)")], ["CW-TOKEN"])
mut("cw-is-not-destructed-no-token", "break", ["C02", "C05"], "is_not_destructed does not add the token at zero",
    [ed(U, """            let new = if old.strong() == 0 {
                old.add_strong(1)
            } else {""", """            let new = if old.strong() == 0 {
                old
            } else {""")], ["CW-TOKEN", "CW-UPGRADE-TRACE"])
mut("cw-upgrade-ignores-destructed", "break", ["C05"], "try_increment_strong does not fail on DESTRUCTED",
    [ed(U, """            if old.destructed() {
                return false;
            }
            let new = if""", """            let new = if""")], ["CW-INC-FAIL-ON-DESTRUCTED", "CW-TOKEN"])
mut("cw-upgrade-returns-some-on-fail", "break", ["C05"], "Weak::upgrade returns Some when the increment failed",
    [ed(W, """        if obj.try_increment_strong() {
            return Some(Rc::from_raw(self.ptr));
        }
        None""", """        if obj.try_increment_strong() {
            return Some(Rc::from_raw(self.ptr));
        }
        Some(Rc::null())""")], ["CW-INC-FAIL-ON-DESTRUCTED"])
mut("cw-direct-try-destruct", "break", ["C01", "C02", "C13"], "decrement_strong calls try_destruct directly on hit-zero",
    [ed(U, """        if hit_zero {
            guard.defer_with_inner(ptr, |inner| Self::try_destruct(inner));
        }""", """        if hit_zero {
            Self::try_destruct(ptr);
        }""")], ["CW-DEFERRED-ONLY", "CW-ZERO-DEFERS"])
mut("cw-no-defer-on-zero", "break", ["C04"], "decrement_strong forgets to hand off on hit-zero",
    [ed(U, """        if hit_zero {
            guard.defer_with_inner(ptr, |inner| Self::try_destruct(inner));
        }""", """        let _ = hit_zero;""")], ["CW-ZERO-DEFERS"])
mut("cw-always-defer", "break", ["C01"], "decrement_strong hands off an attempt on every decrement",
    [ed(U, """        if hit_zero {
            guard.defer_with_inner(ptr, |inner| Self::try_destruct(inner));
        }""", """        let _ = hit_zero;
        guard.defer_with_inner(ptr, |inner| Self::try_destruct(inner));""")], ["CW-ZERO-DEFERS"])
mut("cw-attempt-no-recheck", "break", ["C01"], "try_destruct does not re-check the strong count",
    [ed(U, """            if old.strong() > 0 {
                Self::decrement_strong(ptr, 1, None);
                return;
            }
            match (*ptr).state.compare_exchange(""", """            match (*ptr).state.compare_exchange(""")],
    ["CW-ATTEMPT-RECHECK", "CW-DESTRUCT-ONCE"])
mut("cw-attempt-no-destructed-flag", "break", ["C05", "C04"], "try_destruct does not set DESTRUCTED",
    [ed(U, """                old.with_destructed(true).as_raw(),
                Ordering::SeqCst,
                Ordering::SeqCst,
            ) {
                // Note that""", """                old.as_raw(),
                Ordering::SeqCst,
                Ordering::SeqCst,
            ) {
                // Note that""")], ["CW-DESTRUCT-ONCE", "CW-ATTEMPT-RECHECK"])
mut("cw-destruct-order", "break", ["C04"], "payload dropped before pop_edges",
    [ed(U, """        rc.data_mut().pop_edges(&mut outgoings);
        unsafe {
            ManuallyDrop::drop(&mut rc.storage);""", """        unsafe {
            ManuallyDrop::drop(&mut rc.storage);
        }
        rc.data_mut().pop_edges(&mut outgoings);
        unsafe {""")], ["CW-DESTRUCT-ORDER"])
mut("cw-dealloc-ignores-weaked", "break", ["C03", "C04"], "dispose always deallocates",
    [ed(U, """            if State::from_raw(rc.state.load(Ordering::SeqCst)).weaked() {
                RcInner::decrement_weak(rc, Some(guard));
            } else {
                RcInner::dealloc(rc);
            }""", """            RcInner::dealloc(rc);""")], ["CW-DESTRUCT-ORDER"])
mut("cw-decrement-weak-direct-dealloc", "break", ["C03"], "decrement_weak frees directly instead of deferring try_dealloc",
    [ed(U, "guard.defer_with_inner(ptr, |inner| Self::try_dealloc(inner));", "let _ = guard; Self::dealloc(ptr);")],
    ["CW-WEAK-PROTOCOL"])
mut("cw-try-dealloc-no-recheck", "break", ["C03"], "try_dealloc frees without re-checking",
    [ed(U, """        if State::from_raw((*ptr).state.load(Ordering::SeqCst)).weak() > 0 {
            Self::decrement_weak(ptr, None);
        } else {
            Self::dealloc(ptr);
        }""", """        Self::dealloc(ptr);""")], ["CW-WEAK-PROTOCOL"])
mut("cw-inc-weak-no-token", "break", ["C03"], "increment_weak from zero does not add the token",
    [ed(U, """        {
            self.state.fetch_add(WEAK_COUNT, Ordering::SeqCst);
        }""", """        {
        }""")], ["CW-WEAK-PROTOCOL"])
mut("cw-no-stamp-on-dec", "break", ["C02"], "decrement_strong does not stamp the epoch",
    [ed(U, "curr.with_epoch(epoch).sub_strong(count).as_raw(),", "{ let _ = epoch; curr.sub_strong(count).as_raw() },")],
    ["CW-STAMP-ON-DEC"])
mut("cw-merge-drops-link-epoch", "break", ["C02"], "cascade merge ignores the link stamp",
    [ed(U, "modu.max(&[node_epoch as _, link_epoch as _, cnt_curr.epoch() as _]);",
        "{ let _ = link_epoch; modu.max(&[node_epoch as _, cnt_curr.epoch() as _]) };")], ["CW-CASCADE-MERGE"])
mut("cw-merge-drops-parent-epoch", "break", ["C02"], "cascade merge ignores the parent stamp",
    [ed(U, "modu.max(&[node_epoch as _, link_epoch as _, cnt_curr.epoch() as _]);",
        "modu.max(&[link_epoch as _, cnt_curr.epoch() as _]);")], ["CW-CASCADE-MERGE"])
mut("cw-threshold-1", "break", ["C02", "C12"], "cascade age threshold lowered to 1",
    [ed(U, "modu.le(node_epoch as _, curr_epoch as isize - 3)", "modu.le(node_epoch as _, curr_epoch as isize - 1)")],
    ["CW-CASCADE-DECISION"])
mut("cw-no-age-test", "break", ["C02"], "cascade reclaims children unconditionally",
    [ed(U, "if depth == 0 || modu.le(node_epoch as _, curr_epoch as isize - 3) {", "if depth == 0 || depth > 0 || modu.le(node_epoch as _, curr_epoch as isize - 3) {")],
    ["CW-CASCADE-DECISION"])
mut("cw-too-recent-dropped", "break", ["C04"], "too-recent child is neither reclaimed nor deferred",
    [ed(U, """        // It is likely to be unsafe to reclaim right now.
        guard.defer_with_inner(rc, |rc| RcInner::try_destruct(rc));""", """        // It is likely to be unsafe to reclaim right now.""")],
    ["CW-CASCADE-DECISION"])
mut("cw-clear-destructed", "break", ["C05"], "a path clears the DESTRUCTED flag",
    [ed(U, "old.with_weaked(true).add_weak(count).as_raw(),", "old.with_weaked(true).with_destructed(false).add_weak(count).as_raw(),")],
    ["CW-SITES"])
mut("cw-state-outside-utils", "break", ["C01"], "count word written from strong.rs", [
    ed(U, "    state: AtomicU64,\n}", "    pub(crate) state: AtomicU64,\n}"),
    ed(S, """        let rc = Self {
            ptr: self.ptr,
            _marker: PhantomData,
        };
        unsafe {
            if let Some(cnt) = rc.ptr.as_raw().as_ref() {
                cnt.increment_strong();""", """        let rc = Self {
            ptr: self.ptr,
            _marker: PhantomData,
        };
        unsafe {
            if let Some(cnt) = rc.ptr.as_raw().as_ref() {
                cnt.state.fetch_add(1, Ordering::SeqCst);""")], ["CW-SITES", "OWN-BALANCE"])

# ---------------------------------------------------------------- ownership ledger
mut("own-store-no-forget", "break", ["C08", "C01"], "AtomicRc::store forgets to forget(ptr): the stored share is released",
    [ed(S, """        // Skip decrementing a strong count of the inserted pointer.
        forget(ptr);
        unsafe {
            // Did not use""", """        unsafe {
            // Did not use""")], ["OWN-BALANCE"])
mut("own-cas-no-forget", "break", ["C08", "C01"], "AtomicRc::compare_exchange success path drops desired",
    [ed(S, """                Ok(_) => {
                    // Skip decrementing a strong count of the inserted pointer.
                    forget(desired);
                    let rc = Rc::from_raw(expected_raw);
                    return Ok(rc);
                }
                Err(current_raw) => {
                    if current_raw.ptr_eq(expected_raw) {
                        expected_raw = current_raw;
                    } else {
                        let current = Snapshot::from_raw(current_raw, guard);
                        return Err(CompareExchangeError { desired, current });
                    }
                }
            }
        }
    }

    /// Stores the [`Rc`] pointer `desired` into the atomic pointer if the current value is the
    /// same as `expected` [`Snapshot`] pointer. The tag is also taken into account,
    /// so two pointers to the same object, but with different tags, will not be considered equal.
    ///
    /// Unlike""", """                Ok(_) => {
                    let rc = Rc::from_raw(expected_raw);
                    return Ok(rc);
                }
                Err(current_raw) => {
                    if current_raw.ptr_eq(expected_raw) {
                        expected_raw = current_raw;
                    } else {
                        let current = Snapshot::from_raw(current_raw, guard);
                        return Err(CompareExchangeError { desired, current });
                    }
                }
            }
        }
    }

    /// Stores the [`Rc`] pointer `desired` into the atomic pointer if the current value is the
    /// same as `expected` [`Snapshot`] pointer. The tag is also taken into account,
    /// so two pointers to the same object, but with different tags, will not be considered equal.
    ///
    /// Unlike""")], ["OWN-BALANCE"])
mut("own-cas-returns-desired-ptr", "break", ["C08"], "success returns an Rc of the wrong pointer",
    [ed(S, """                    forget(desired);
                    let rc = Rc::from_raw(expected_raw);
                    return Ok(rc);
                }
                Err(current_raw) => {
                    if current_raw.ptr_eq(expected_raw) {
                        expected_raw = current_raw;
                    } else {
                        let current = Snapshot::from_raw(current_raw, guard);
                        return Err(CompareExchangeError { desired, current });
                    }
                }
            }
        }
    }

    /// Overwrites""", """                    forget(desired);
                    let rc = Rc::from_raw(desired_raw);
                    return Ok(rc);
                }
                Err(current_raw) => {
                    if current_raw.ptr_eq(expected_raw) {
                        expected_raw = current_raw;
                    } else {
                        let current = Snapshot::from_raw(current_raw, guard);
                        return Err(CompareExchangeError { desired, current });
                    }
                }
            }
        }
    }

    /// Overwrites""")], ["OWN-BALANCE", "OWN-PROVENANCE"])
mut("own-clone-no-inc", "break", ["C01"], "Rc::clone does not increment",
    [ed(S, """            if let Some(cnt) = rc.ptr.as_raw().as_ref() {
                cnt.increment_strong();
            }
        }
        rc
    }
}

impl<T: RcObject> Rc<T> {""", """            if let Some(cnt) = rc.ptr.as_raw().as_ref() {
                let _ = cnt;
            }
        }
        rc
    }
}

impl<T: RcObject> Rc<T> {""")], ["OWN-BALANCE"])
mut("own-finalize-double-dec", "break", ["C01", "C04"], "Rc::finalize does not forget(self): share released twice",
    [ed(S, """                RcInner::decrement_strong(cnt, 1, Some(guard));
            }
        }
        forget(self);
    }""", """                RcInner::decrement_strong(cnt, 1, Some(guard));
            }
        }
    }""")], ["OWN-BALANCE"])
mut("own-iter-drop-off-by-one", "break", ["C10", "C04"], "NewRcIter::drop releases remain-1 shares",
    [ed(S, "RcInner::decrement_strong(self.ptr.as_raw(), self.remain as _, None);",
        "RcInner::decrement_strong(self.ptr.as_raw(), (self.remain - 1) as _, None);")], ["OWN-BALANCE"])
mut("own-iter-next-no-dec", "break", ["C10"], "NewRcIter::next does not count down",
    [ed(S, "            self.remain -= 1;\n", "")], ["OWN-BALANCE"])
mut("own-new-many-count", "break", ["C10"], "new_many allocates N+1 shares",
    [ed(S, "let ptr = RcInner::alloc(obj, N as _);", "let ptr = RcInner::alloc(obj, (N + 1) as _);")], ["OWN-BALANCE"])
mut("own-abort-leak", "break", ["C10", "C04"], "NewRcIter::abort leaks the remainder",
    [ed(S, """        if self.remain > 0 {
            unsafe {
                RcInner::decrement_strong(self.ptr.as_raw(), self.remain as _, Some(guard));
            };
        }
        forget(self);""", """        let _ = guard;
        forget(self);""")], ["OWN-BALANCE"])
mut("own-weak-store-leak", "break", ["C09", "C03"], "AtomicWeak::store does not release the previous content",
    [ed(W, """            if let Some(cnt) = old_ptr.as_raw().as_mut() {
                RcInner::decrement_weak(cnt, Some(guard));
            }
        }
    }""", """            let _ = (old_ptr, guard);
        }
    }""")], ["OWN-BALANCE"])
mut("own-downgrade-no-inc", "break", ["C03"], "Rc::downgrade creates a Weak without a weak share",
    [ed(S, """                cnt.increment_weak(1);
                return Weak::from_raw(self.ptr);""", """                let _ = cnt;
                return Weak::from_raw(self.ptr);""")], ["OWN-BALANCE"])
mut("own-into-raw-drops", "break", ["C08"], "Rc::into_raw forgets to forget(self)",
    [ed(S, """        // Skip decrementing the ref count.
        forget(self);
        new_ptr
    }

    /// Consumes""", """        new_ptr
    }

    /// Consumes""")], ["OWN-PRIMITIVES"])
mut("own-take-clones", "break", ["C08"], "AtomicRc::take leaves the pointer in place",
    [ed(S, "Rc::from_raw(core::mem::take(self.link.get_mut()))", "Rc::from_raw(*self.link.get_mut())")],
    ["OWN-BALANCE", "OWN-PROVENANCE"])
mut("own-cascade-no-into-raw", "break", ["C04", "C01"], "cascade decrements the child and then drops the Rc too",
    [ed(U, "let next_ptr = next.into_raw();", "let next_ptr = next.snapshot(guard).ptr;")],
    ["OWN-BALANCE"])

# ---------------------------------------------------------------- links
mut("link-swap-no-timestamp", "break", ["C02", "C08"], "AtomicRc::swap does not stamp the link",
    [ed(S, """        let new_ptr = new.into_raw();
        let old_ptr = self.link.swap(new_ptr.with_timestamp(), order);""", """        let new_ptr = new.into_raw();
        let old_ptr = self.link.swap(new_ptr, order);""")], ["LINK-STAMP"])
mut("link-cas-no-timestamp", "break", ["C02", "C08"], "AtomicRc::compare_exchange does not stamp",
    [ed(S, """        let mut expected_raw = expected.ptr;
        let desired_raw = desired.ptr.with_timestamp();
        loop {
            match self
                .link
                .compare_exchange(expected_raw""", """        let mut expected_raw = expected.ptr;
        let desired_raw = desired.ptr;
        loop {
            match self
                .link
                .compare_exchange(expected_raw""")], ["LINK-STAMP"])
mut("link-timestamp-stale", "break", ["C02"], "with_timestamp stamps a constant",
    [ed(S, "self.with_high_tag(global_epoch())", "self.with_high_tag(0)")], ["LINK-STAMP"])
mut("link-cas-retry-forever-wrong-expected", "break", ["C08"], "retry does not update expected",
    [ed(S, """                    if current_raw.ptr_eq(expected_raw) {
                        expected_raw = current_raw;
                    } else {
                        let current = Snapshot::from_raw(current_raw, guard);
                        return Err(CompareExchangeError { desired, current });
                    }
                }
            }
        }
    }

    /// Overwrites""", """                    if current_raw.ptr_eq(expected_raw) {
                        expected_raw = expected.ptr;
                    } else {
                        let current = Snapshot::from_raw(current_raw, guard);
                        return Err(CompareExchangeError { desired, current });
                    }
                }
            }
        }
    }

    /// Overwrites""")], ["CAS-EPOCH-BLIND"])
mut("link-atomicrc-no-ptr-eq", "break", ["C08"], "AtomicRc::compare_exchange_tag fails on epoch bits",
    [ed(S, """                Err(current_raw) => {
                    if current_raw.ptr_eq(expected_raw) {
                        expected_raw = current_raw;
                    } else {
                        return Err(CompareExchangeError {
                            desired: Snapshot::from_raw(desired_raw, guard),
                            current: Snapshot::from_raw(current_raw, guard),
                        });
                    }
                }""", """                Err(current_raw) => {
                    return Err(CompareExchangeError {
                        desired: Snapshot::from_raw(desired_raw, guard),
                        current: Snapshot::from_raw(current_raw, guard),
                    });
                }""")], ["CAS-EPOCH-BLIND"])
mut("link-weak-writer-outside", "break", ["C09"], "Weak method writes an AtomicWeak's link",
    [ed(W, """    #[inline]
    pub(crate) fn increment_weak(&self) {""", """    #[allow(dead_code)]
    pub(crate) fn poke(&self, cell: &AtomicWeak<T>) {
        cell.link.store(self.ptr, Ordering::SeqCst);
    }

    #[inline]
    pub(crate) fn increment_weak(&self) {""")], ["LINK-WRITERS"])

# ---------------------------------------------------------------- EBR
G = "src/ebr_impl/guard.rs"
D = "src/ebr_impl/deferred.rs"
Q = "src/ebr_impl/sync/queue.rs"
L = "src/ebr_impl/sync/list.rs"
DF = "src/ebr_impl/default.rs"
EPF = "src/ebr_impl/epoch.rs"
PT = "src/ebr_impl/pointers.rs"

mut("ebr-pin-no-validate", "break", ["C13", "C14"], "pin's validation loop replaced by break",
    [ed(I, """                if new_epoch.value() == self.global().epoch.load(Ordering::Acquire).value() {
                    break new_epoch;
                }
                self.epoch.store(Epoch::starting(), Ordering::Release);""", """                break new_epoch;""")],
    ["EBR-PIN-VALIDATE"])
mut("ebr-pin-store-without-fence", "break", ["C13"], "pin publishes with a plain store and no fence",
    [ed(I, """                    let current = Epoch::starting();
                    let res = self.epoch.compare_exchange(
                        current,
                        new_epoch,
                        Ordering::SeqCst,
                        Ordering::SeqCst,
                    );
                    debug_assert!(res.is_ok(), "participant was expected to be unpinned");""",
        """                    self.epoch.store(new_epoch, Ordering::Relaxed);""")], ["EBR-PIN-VALIDATE"])
mut("ebr-pin-publish-unpinned", "break", ["C13"], "pin publishes the unpinned epoch",
    [ed(I, "let new_epoch = global_epoch.pinned();", "let new_epoch = global_epoch;")], ["EBR-PIN-VALIDATE"])
mut("ok-ebr-advance-goes-on-after-stall", "benign", [], "try_advance goes on after a stall: the iterator restarts from the head, so the traversal "
    "that ends normally is complete (was the breaking entry ebr-advance-ignores-stall until S-C18-7 showed the alarm to be false: "
    "the two ends are a rely/guarantee pair now)",
    [ed(I, """                Err(IterError::Stalled) => {
                    // A concurrent thread stalled this iteration. That thread might also try to
                    // advance the epoch, in which case we leave the job to it. Otherwise, the
                    // epoch will not be advanced.
                    return global_epoch;
                }""", """                Err(IterError::Stalled) => {}""")])
mut("ebr-advance-ignores-stall-no-restart", "break", ["C18", "C13"], "try_advance ignores a stalled traversal and the iterator does not restart",
    [ed(I, """                Err(IterError::Stalled) => {
                    // A concurrent thread stalled this iteration. That thread might also try to
                    // advance the epoch, in which case we leave the job to it. Otherwise, the
                    // epoch will not be advanced.
                    return global_epoch;
                }""", """                Err(IterError::Stalled) => {}"""),
     ed("src/ebr_impl/sync/list.rs", """                    self.pred = self.head;
                    self.curr = self.head.load(Acquire, self.guard);
""", """                    self.curr = RawShared::null();
""")], ["EBR-ADVANCE", "EBR-LIST"])
mut("ebr-advance-ignores-lagging", "break", ["C13", "C14"], "try_advance does not refuse on a lagging participant",
    [ed(I, """                    if local_epoch.is_pinned() && local_epoch.unpinned() != global_epoch {
                        return global_epoch;
                    }""", """                    let _ = local_epoch;""")], ["EBR-ADVANCE"])
mut("ebr-advance-no-fence", "break", ["C13"], "try_advance without the SeqCst fence",
    [ed(I, """        let global_epoch = self.epoch.load(Ordering::Relaxed);
        atomic::fence(Ordering::SeqCst);""", """        let global_epoch = self.epoch.load(Ordering::Relaxed);""")],
    ["EBR-ADVANCE"])
mut("ebr-advance-by-two", "break", ["C14"], "try_advance advances by two epochs",
    [ed(I, "let new_epoch = global_epoch.successor();", "let new_epoch = global_epoch.successor().successor();")],
    ["EBR-ADVANCE"])
mut("ebr-advance-compares-pinned", "break", ["C13"], "try_advance compares the pinned epoch (always different)",
    [ed(I, "local_epoch.is_pinned() && local_epoch.unpinned() != global_epoch", "local_epoch.is_pinned() && local_epoch != global_epoch.successor()")],
    ["EBR-ADVANCE"])
mut("ebr-expiry-1", "break", ["C13"], "bags expire after one epoch",
    [ed(I, "global_epoch.wrapping_sub(self.epoch) >= 3", "global_epoch.wrapping_sub(self.epoch) >= 1")], ["EBR-EXPIRY"])
mut("ebr-collect-unconditional-pop", "break", ["C13"], "collect pops without the expiry predicate",
    [ed(I, "|sealed_bag: &SealedBag| sealed_bag.is_expired(self.epoch.load(Ordering::Relaxed)),",
        "|sealed_bag: &SealedBag| { let _ = sealed_bag; true },")], ["EBR-EXPIRY"])
mut("ebr-seal-stale-epoch", "break", ["C13"], "push_bag reads the epoch before taking the bag",
    [ed(I, """        let bag = replace(bag, Bag::new());

        atomic::fence(Ordering::SeqCst);

        let epoch = self.epoch.load(Ordering::Relaxed);""", """        let epoch = self.epoch.load(Ordering::Relaxed);
        let bag = replace(bag, Bag::new());

        atomic::fence(Ordering::SeqCst);
""")], ["EBR-SEAL-FRESH"])
mut("ok-rec-cap-at-callsite", "benign", [], "the depth cap is tested by the caller, after the hit-zero test, instead of at entry",
    [ed(U, """    if depth >= 1024 {
        // Prevent a potential stack overflow.
        guard.defer_with_inner(rc, |rc| RcInner::try_destruct(rc));
        return;
    }

""", ""),
     ed(U, """            if next_cnt.strong() == 0 {
                dispose_general_node(next_ptr.as_raw(), depth + 1, counter, guard);
            }""", """            if next_cnt.strong() == 0 {
                if depth + 1 >= 1024 {
                    // Prevent a potential stack overflow.
                    guard.defer_with_inner(next_ptr.as_raw(), |rc| RcInner::try_destruct(rc));
                } else {
                    dispose_general_node(next_ptr.as_raw(), depth + 1, counter, guard);
                }
            }""")])
mut("queue-try-pop-gives-up", "break", ["C17"], "try_pop reports a lost race as empty",
    [ed("src/ebr_impl/sync/queue.rs", """        loop {
            if let Ok(head) = self.pop_internal(guard) {
                return head;
            }
        }""", """        self.pop_internal(guard).unwrap_or(None)""")], ["EBR-QUEUE"])
mut("ok-queue-try-pop-match", "benign", [], "try_pop's loop written with match/continue",
    [ed("src/ebr_impl/sync/queue.rs", """        loop {
            if let Ok(head) = self.pop_internal(guard) {
                return head;
            }
        }""", """        loop {
            match self.pop_internal(guard) {
                Ok(head) => return head,
                Err(()) => continue,
            }
        }""")])
# ---- memory orderings (ORD-*): weakening below a necessary floor is a break, strengthening is benign
QF = "src/ebr_impl/sync/queue.rs"
LF = "src/ebr_impl/sync/list.rs"
mut("ord-dec-weak-relaxed", "break", ["C03", "C04"], "decrement_weak's fetch_sub is Relaxed",
    [ed(U, "(*ptr).state.fetch_sub(WEAK_COUNT, Ordering::SeqCst)", "(*ptr).state.fetch_sub(WEAK_COUNT, Ordering::Relaxed)")],
    ["ORD-COUNT"])
mut("ord-dec-strong-acquire", "break", ["C01", "C04"], "decrement_strong's CAS succeeds with Acquire only (no release)",
    [ed(U, """                    curr.with_epoch(epoch).sub_strong(count).as_raw(),
                    Ordering::SeqCst,
                    Ordering::SeqCst,""", """                    curr.with_epoch(epoch).sub_strong(count).as_raw(),
                    Ordering::Acquire,
                    Ordering::Relaxed,""")], ["ORD-COUNT"])
mut("ord-try-destruct-relaxed", "break", ["C01", "C04"], "try_destruct reads and marks the word with Relaxed only",
    [ed(U, """        let mut old = State::from_raw((*ptr).state.load(Ordering::SeqCst));
        debug_assert!(!old.destructed());""", """        let mut old = State::from_raw((*ptr).state.load(Ordering::Relaxed));
        debug_assert!(!old.destructed());"""),
     ed(U, """                old.with_destructed(true).as_raw(),
                Ordering::SeqCst,
                Ordering::SeqCst,""", """                old.with_destructed(true).as_raw(),
                Ordering::Relaxed,
                Ordering::Relaxed,""")], ["ORD-COUNT"])
mut("ok-ord-try-destruct-load-acquire", "benign", [], "try_destruct: Acquire load, AcqRel/Acquire CAS",
    [ed(U, """        let mut old = State::from_raw((*ptr).state.load(Ordering::SeqCst));
        debug_assert!(!old.destructed());""", """        let mut old = State::from_raw((*ptr).state.load(Ordering::Acquire));
        debug_assert!(!old.destructed());"""),
     ed(U, """                old.with_destructed(true).as_raw(),
                Ordering::SeqCst,
                Ordering::SeqCst,""", """                old.with_destructed(true).as_raw(),
                Ordering::AcqRel,
                Ordering::Acquire,""")])
mut("ord-unpin-relaxed", "break", ["C13", "C02"], "unpin clears the local epoch with a Relaxed store",
    [ed(I, """            self.epoch.store(Epoch::starting(), Ordering::Release);

            if self.handle_count.get() == 0 {""", """            self.epoch.store(Epoch::starting(), Ordering::Relaxed);

            if self.handle_count.get() == 0 {""")], ["ORD-EPOCH"])
mut("ord-repin-relaxed", "break", ["C13", "C02"], "repin_without_collect moves the local epoch with a Relaxed store",
    [ed(I, "self.epoch.store(global_epoch, Ordering::Release);", "self.epoch.store(global_epoch, Ordering::Relaxed);")],
    ["ORD-EPOCH"])
mut("ord-advance-relaxed", "break", ["C13", "C14"], "try_advance publishes the new epoch with a Relaxed store",
    [ed(I, "self.epoch.store(new_epoch, Ordering::Release);", "self.epoch.store(new_epoch, Ordering::Relaxed);")],
    ["ORD-EPOCH"])
mut("ord-advance-no-acquire-fence", "break", ["C13", "C14"], "try_advance drops the acquire fence after the traversal",
    [ed(I, "        atomic::fence(Ordering::Acquire);\n", "")], ["ORD-EPOCH"])
mut("ok-ord-advance-acquire-loads", "benign", [], "try_advance: acquire loads of the participants instead of the fence",
    [ed(I, "        atomic::fence(Ordering::Acquire);\n", ""),
     ed(I, "let local_epoch = local.epoch.load(Ordering::Relaxed);", "let local_epoch = local.epoch.load(Ordering::Acquire);")])
mut("ok-ord-unpin-seqcst", "benign", [], "unpin clears the local epoch with SeqCst",
    [ed(I, """            self.epoch.store(Epoch::starting(), Ordering::Release);

            if self.handle_count.get() == 0 {""", """            self.epoch.store(Epoch::starting(), Ordering::SeqCst);

            if self.handle_count.get() == 0 {""")])
mut("ord-queue-link-relaxed", "break", ["C17", "C15"], "push links the node with a Relaxed CAS",
    [ed(QF, ".compare_exchange(RawShared::null(), new, Release, Relaxed, guard)",
        ".compare_exchange(RawShared::null(), new, Relaxed, Relaxed, guard)")], ["ORD-QUEUE"])
mut("ord-queue-next-relaxed", "break", ["C17", "C15"], "pop_if reads head.next with Relaxed before giving the payload to the predicate",
    [ed(QF, """        let head = self.head.load(Acquire, guard);
        let h = unsafe { head.deref() };
        let next = h.next.load(Acquire, guard);
        match unsafe { next.as_ref() } {
            Some(n) if condition""", """        let head = self.head.load(Acquire, guard);
        let h = unsafe { head.deref() };
        let next = h.next.load(Relaxed, guard);
        match unsafe { next.as_ref() } {
            Some(n) if condition""")], ["ORD-QUEUE"])
mut("ord-list-insert-relaxed", "break", ["C18"], "List::insert publishes the entry with a Relaxed CAS",
    [ed(LF, "to.compare_exchange_weak(next, entry_ptr, Release, Relaxed, guard)",
        "to.compare_exchange_weak(next, entry_ptr, Relaxed, Relaxed, guard)")], ["ORD-LIST"])
mut("ord-list-iter-relaxed", "break", ["C18"], "the list iterator follows next pointers with Relaxed loads",
    [ed(LF, "let succ = c.next.load(Acquire, self.guard);", "let succ = c.next.load(Relaxed, self.guard);")], ["ORD-LIST"])
mut("ord-list-mark-relaxed", "break", ["C18"], "Entry::delete marks with a Relaxed fetch_or",
    [ed(LF, "self.next.fetch_or(1, Release, guard);", "self.next.fetch_or(1, Relaxed, guard);")], ["ORD-LIST"])
mut("ord-forward-load-relaxed", "break", ["C08"], "AtomicRc::load ignores the caller's ordering",
    [ed(S, "        Snapshot::from_raw(self.link.load(order), guard)",
        "        let _ = order;\n        Snapshot::from_raw(self.link.load(Ordering::Relaxed), guard)")],
    ["ORD-FORWARD"])
mut("ord-forward-cas-swapped", "break", ["C13", "C17", "C18"], "RawAtomic::compare_exchange swaps success and failure orderings",
    [ed("src/ebr_impl/pointers.rs", """            .compare_exchange(current.inner, new.inner, success, failure)""",
        """            .compare_exchange(current.inner, new.inner, failure, success)""")], ["ORD-FORWARD"])
mut("flush-overflow-no-schedule", "break", ["C15"], "defer pushes a full bag without scheduling a collection",
    [ed(I, """            deferred = d;
            self.schedule_collection();""", """            deferred = d;""")], ["EBR-FLUSH-SCHEDULES"])
mut("flush-schedule-conditional", "break", ["C15"], "schedule_collection sets the flag only when not collecting",
    [ed(I, """        self.must_collect.set(true);
    }

    pub(crate) fn incr_advance""", """        if !self.collecting.get() {
            self.must_collect.set(true);
        }
    }

    pub(crate) fn incr_advance""")], ["EBR-FLUSH-SCHEDULES"])
mut("flush-collect-no-advance", "break", ["C15"], "collect no longer tries to advance the epoch",
    [ed(I, """        self.try_advance(guard);

        debug_assert!(
            !guard.local.is_null(),""", """        debug_assert!(
            !guard.local.is_null(),""")], ["EBR-FLUSH-SCHEDULES"])
mut("ok-flush-schedule-first", "benign", [], "flush schedules before pushing",
    [ed(I, """        self.push_to_global(guard);
        self.schedule_collection();""", """        self.schedule_collection();
        self.push_to_global(guard);""")])
mut("alloc-range-rc-new-zero", "break", ["C10", "C04"], "Rc::new allocates with an initial strong count of 0",
    [ed(S, "        let ptr = RcInner::alloc(obj, 1);", "        let ptr = RcInner::alloc(obj, 0);")],
    ["CW-ALLOC-RANGE", "OWN-BALANCE", "CW-ALLOC-INIT"])
mut("own-prim-into-raw-drops", "break", ["C08", "C01"], "Rc::into_raw no longer forgets self (the share is released although the raw pointer is handed on)",
    [ed(S, """        let new_ptr = self.ptr;
        // Skip decrementing the ref count.
        forget(self);
        new_ptr""", """        let new_ptr = self.ptr;
        new_ptr""")], ["OWN-PRIMITIVES", "OWN-BALANCE"])
mut("own-prim-weak-into-raw-tag", "break", ["C09"], "Weak::into_raw returns the pointer without its tag",
    [ed(W, """    pub(crate) fn into_raw(self) -> Raw<T> {
        let new_ptr = self.ptr;""", """    pub(crate) fn into_raw(self) -> Raw<T> {
        let new_ptr = self.ptr.with_tag(0);""")], ["OWN-PRIMITIVES", "OWN-PROVENANCE"])
# ---- tags are part of the cell's value (C08/C09): every path that moves a word keeps its low tag
mut("tag-load-strips", "break", ["C08"], "AtomicRc::load returns the pointer without its tag",
    [ed(S, "        Snapshot::from_raw(self.link.load(order), guard)", "        Snapshot::from_raw(self.link.load(order).with_tag(0), guard)")],
    ["OWN-PROVENANCE", "LINK-TAG"])
mut("tag-swap-strips-old", "break", ["C08"], "AtomicRc::swap returns the previous pointer without its tag",
    [ed(S, """        let old_ptr = self.link.swap(new_ptr.with_timestamp(), order);
        Rc::from_raw(old_ptr)""", """        let old_ptr = self.link.swap(new_ptr.with_timestamp(), order);
        Rc::from_raw(old_ptr.with_tag(0))""")], ["OWN-PROVENANCE", "LINK-TAG"])
mut("tag-swap-strips-new", "break", ["C08"], "AtomicRc::swap stores the new pointer without its tag",
    [ed(S, """        let old_ptr = self.link.swap(new_ptr.with_timestamp(), order);
        Rc::from_raw(old_ptr)""", """        let old_ptr = self.link.swap(new_ptr.with_tag(0).with_timestamp(), order);
        Rc::from_raw(old_ptr)""")], ["LINK-STAMP", "LINK-TAG", "OWN-PROVENANCE"])
mut("tag-weak-load-strips", "break", ["C09"], "AtomicWeak::load returns the pointer without its tag",
    [ed(W, "        WeakSnapshot::from_raw(self.link.load(order), guard)", "        WeakSnapshot::from_raw(self.link.load(order).with_tag(0), guard)")],
    ["OWN-PROVENANCE", "LINK-TAG"])
mut("rec-edges-break", "break", ["C06"], "the edge loop breaks at the first null edge",
    [ed(U, """            if next.is_null() {
                continue;
            }
""", """            if next.is_null() {
                break;
            }
""")], ["REC-IMMEDIATE"])
mut("ok-rec-edges-filter", "benign", [], "the edge loop filters null edges with an iterator adaptor",
    [ed(U, """        for next in outgoings.drain(..) {
            if next.is_null() {
                continue;
            }
""", """        for next in outgoings.drain(..).filter(|next| !next.is_null()) {
""")])
mut("ty-new-snapshot-source", "break", ["C02"], "a new public method hands out a strong Snapshot from a Weak without any trace",
    [ed(W, """    pub fn snapshot<'g>(&self, guard: &'g Guard) -> WeakSnapshot<'g, T> {
        WeakSnapshot::from_raw(self.ptr, guard)
    }
""", """    pub fn snapshot<'g>(&self, guard: &'g Guard) -> WeakSnapshot<'g, T> {
        WeakSnapshot::from_raw(self.ptr, guard)
    }

    /// Peeks at the referent without counting it.
    pub fn peek<'g>(&self, guard: &'g Guard) -> Snapshot<'g, T> {
        Snapshot::from_raw(self.ptr, guard)
    }
""")], ["TY-SIG"])
mut("rec-collect-reentrant", "break", ["C07"], "unpin collects even while a collection is running (flag not tested)",
    [ed(I, "if guard_count == 1 && !self.collecting.get() && !THREAD_COLLECTING.with(Cell::get) {", "if guard_count == 1 {")], ["REC-COLLECT-REENTRY"])
mut("ok-finalize-saves-thread-flag", "benign", [], "finalize holds the thread-wide flag during its push and puts back the value it found",
    [ed(I, """        self.handle_count.set(1);
        {
            // Pin and move""", """        self.handle_count.set(1);
        let was = THREAD_COLLECTING.with(|c| c.replace(true));
        {
            // Pin and move"""),
     ed(I, """        // Revert the handle count back to zero.
        self.handle_count.set(0);""", """        THREAD_COLLECTING.with(|c| c.set(was));
        // Revert the handle count back to zero.
        self.handle_count.set(0);""")])
mut("rec-release-handle-clears-thread-flag", "break", ["C07", "C20"], "release_handle clears the thread-wide flag before finalize ('a dying participant is not collecting')",
    [ed(I, """        if guard_count == 0 && handle_count == 1 {
            self.finalize();""", """        if guard_count == 0 && handle_count == 1 {
            THREAD_COLLECTING.with(|c| c.set(false));
            self.finalize();""")], ["REC-COLLECT-REENTRY"])
mut("ok-unpin-test-after-dec", "benign", [], "unpin decrements the live count and tests the count it just wrote for zero",
    [ed(I, """        let guard_count = self.guard_count.get();
        self.guard_count.set(guard_count - 1);
        if guard_count == 1 {
            self.epoch.store(Epoch::starting(), Ordering::Release);""", """        self.guard_count.set(self.guard_count.get() - 1);
        if self.guard_count.get() == 0 {
            self.epoch.store(Epoch::starting(), Ordering::Release);""")])
mut("ok-unpin-remaining", "benign", [], "unpin computes the remaining count after the collection and tests it for zero",
    [ed(I, """        let guard_count = self.guard_count.get();
        self.guard_count.set(guard_count - 1);
        if guard_count == 1 {
            self.epoch.store(Epoch::starting(), Ordering::Release);""", """        let remaining = self.guard_count.get() - 1;
        self.guard_count.set(remaining);
        if remaining == 0 {
            self.epoch.store(Epoch::starting(), Ordering::Release);""")])
mut("ok-thread-flag-helpers", "benign", [], "the thread-wide flag is read and written through two small helper functions",
    [ed(I, "if guard_count == 1 && !self.collecting.get() && !THREAD_COLLECTING.with(Cell::get) {", "if guard_count == 1 && !self.collecting.get() && !thread_collecting() {"),
     ed(I, "            THREAD_COLLECTING.with(|c| c.set(true));", "            set_thread_collecting(true);"),
     ed(I, "            THREAD_COLLECTING.with(|c| c.set(false));", "            set_thread_collecting(false);"),
     ed(I, "impl Local {\n", """fn thread_collecting() -> bool {
    THREAD_COLLECTING.with(Cell::get)
}

fn set_thread_collecting(on: bool) {
    THREAD_COLLECTING.with(|c| c.set(on));
}

impl Local {
""")])
mut("unpin-remaining-stale", "break", ["C02", "C16"], "unpin computes the remaining count from the value read on entry and tests that for zero (count written back is live)",
    [ed(I, """        let guard_count = self.guard_count.get();
        self.guard_count.set(guard_count - 1);
        if guard_count == 1 {
            self.epoch.store(Epoch::starting(), Ordering::Release);""", """        let remaining = guard_count - 1;
        self.guard_count.set(self.guard_count.get() - 1);
        if remaining == 0 {
            self.epoch.store(Epoch::starting(), Ordering::Release);""")], ["EBR-GUARD-COUNT"])
mut("ok-unpin-thread-flag-replace", "benign", [], "the thread-wide flag is tested and set in one Cell::replace (last operand of the gate)",
    [ed(I, "if guard_count == 1 && !self.collecting.get() && !THREAD_COLLECTING.with(Cell::get) {", "if guard_count == 1 && !self.collecting.get() && !THREAD_COLLECTING.with(|c| c.replace(true)) {"),
     ed(I, """            self.collecting.set(true);
            THREAD_COLLECTING.with(|c| c.set(true));""", """            self.collecting.set(true);""")])
mut("unpin-thread-flag-replace-first", "break", ["C07", "C20"], "the thread-wide flag is replaced by `true` as the FIRST operand of the gate and cleared after the block: a nested unpin whose gate fails later leaves... the outer collection's flag cleared by the inner unpin's unconditional clear",
    [ed(I, "if guard_count == 1 && !self.collecting.get() && !THREAD_COLLECTING.with(Cell::get) {", "let was = THREAD_COLLECTING.with(|c| c.replace(true));\n        if guard_count == 1 && !self.collecting.get() && !was {"),
     ed(I, """            self.collecting.set(true);
            THREAD_COLLECTING.with(|c| c.set(true));""", """            self.collecting.set(true);"""),
     ed(I, """            self.collecting.set(false);
            THREAD_COLLECTING.with(|c| c.set(false));
        }
""", """            self.collecting.set(false);
        }
        THREAD_COLLECTING.with(|c| c.set(false));
""")], ["REC-COLLECT-REENTRY"])
mut("ok-unpin-thread-flag-save-restore", "benign", [], "the thread-wide flag is replaced by `true` before the gate and the value found is put back after the block",
    [ed(I, "if guard_count == 1 && !self.collecting.get() && !THREAD_COLLECTING.with(Cell::get) {", "let was = THREAD_COLLECTING.with(|c| c.replace(true));\n        if guard_count == 1 && !self.collecting.get() && !was {"),
     ed(I, """            self.collecting.set(true);
            THREAD_COLLECTING.with(|c| c.set(true));""", """            self.collecting.set(true);"""),
     ed(I, """            self.collecting.set(false);
            THREAD_COLLECTING.with(|c| c.set(false));
        }
""", """            self.collecting.set(false);
        }
        THREAD_COLLECTING.with(|c| c.set(was));
""")])
mut("rec-collecting-cleared-in-schedule", "break", ["C07"], "schedule_collection clears the collecting flag",
    [ed(I, """        self.must_collect.set(true);
    }

    pub(crate) fn incr_advance""", """        self.must_collect.set(true);
        self.collecting.set(false);
    }

    pub(crate) fn incr_advance""")], ["REC-COLLECT-REENTRY"])
mut("rec-flush-collects", "break", ["C07"], "schedule_collection collects eagerly while collecting",
    [ed(I, """        self.must_collect.set(true);
    }

    pub(crate) fn incr_advance""", """        self.must_collect.set(true);
        if self.collecting.get() {
            let guard = ManuallyDrop::new(Guard { local: self });
            self.global().collect(&guard);
        }
    }

    pub(crate) fn incr_advance""")], ["REC-COLLECT-REENTRY"])
mut("rev-F10-schedule-repins", "break", ["C02", "C13", "C16"], "schedule_collection re-pins while collecting again",
    [ed(I, """        self.must_collect.set(true);
    }

    pub(crate) fn incr_advance""", """        self.must_collect.set(true);
        if self.collecting.get() {
            self.repin_without_collect();
        }
    }

    pub(crate) fn incr_advance""")], ["EBR-COLLECT-OUTERMOST"])
mut("F10-flush-repins", "break", ["C02", "C13", "C16"], "flush re-pins the thread (any time)",
    [ed(I, """        self.push_to_global(guard);
        self.schedule_collection();""", """        self.push_to_global(guard);
        self.schedule_collection();
        self.repin_without_collect();""")], ["EBR-COLLECT-OUTERMOST"])
mut("cell-rmw-handle-count-spans-finalize", "break", ["C16", "C20"], "release_handle writes the handle count back after finalize",
    [ed(I, """        debug_assert!(handle_count >= 1);
        self.handle_count.set(handle_count - 1);

        if guard_count == 0 && handle_count == 1 {
            self.finalize();
        }""", """        debug_assert!(handle_count >= 1);
        if guard_count == 0 && handle_count == 1 {
            self.handle_count.set(0);
            self.finalize();
        }
        self.handle_count.set(handle_count - 1);""")], ["EBR-CELL-RMW"])
mut("rev-F11-stale-guard-count", "break", ["C16"], "unpin writes back the count read before the collection again",
    [ed(I, """        // Read the count again: a destructor run by the collection above may have created a
        // guard that is still alive (e.g. stored in a thread-local).
        let guard_count = self.guard_count.get();
""", "")], ["EBR-GUARD-COUNT"])
mut("ebr-collect-nested", "break", ["C02", "C13", "C16"], "unpin collects for nested guards too",
    [ed(I, "if guard_count == 1 && !self.collecting.get() && !THREAD_COLLECTING.with(Cell::get) {", "if !self.collecting.get() && !THREAD_COLLECTING.with(Cell::get) {")], ["EBR-COLLECT-OUTERMOST"])
mut("ebr-unpin-clears-always", "break", ["C16", "C13"], "unpin clears the local epoch for nested guards",
    [ed(I, """        self.guard_count.set(guard_count - 1);
        if guard_count == 1 {
            self.epoch.store(Epoch::starting(), Ordering::Release);
""", """        self.guard_count.set(guard_count - 1);
        self.epoch.store(Epoch::starting(), Ordering::Release);
        if guard_count == 1 {
""")], ["EBR-GUARD-COUNT"])
mut("ebr-guard-drop-no-unpin", "break", ["C16"], "Guard::drop forgets to unpin", [
    ed(G, """impl Drop for Guard {
    #[inline]
    fn drop(&mut self) {
        if let Some(local) = unsafe { self.local.as_ref() } {
            local.unpin();
        }
    }
}""", """impl Drop for Guard {
    #[inline]
    fn drop(&mut self) {
        if let Some(local) = unsafe { self.local.as_ref() } {
            let _ = local;
        }
    }
}""")], ["EBR-GUARD-COUNT"])
mut("ebr-repin-no-handle", "break", ["C16"], "repin without acquire/release handle and without re-pin order",
    [ed(I, """        self.acquire_handle();
        self.unpin();
        compiler_fence(Ordering::SeqCst);
        forget(self.pin());
        self.release_handle();""", """        forget(self.pin());
        self.unpin();""")], ["EBR-REACTIVATE"])
mut("ebr-reactivate-after-no-scopeguard", "break", ["C16"], "reactivate_after re-pins after f without a scope guard",
    [ed(G, """        // Ensure the Guard is re-pinned even if the function panics
        defer! {
            if let Some(local) = unsafe { self.local.as_ref() } {
                mem::forget(local.pin());
                local.release_handle();
            }
        }

        f()""", """        let r = f();
        if let Some(local) = unsafe { self.local.as_ref() } {
            mem::forget(local.pin());
            local.release_handle();
        }
        r""")], ["EBR-REACTIVATE"])
mut("ebr-reactivate-shared-ref", "break", ["C02", "C16"], "reactivate takes &self", [
    ed(G, "pub fn reactivate(&mut self) {", "pub fn reactivate(&self) {")], ["TY-SIG", "TY-REACTIVATE-MUT"])
mut("ebr-finalize-no-handoff", "break", ["C15", "C20"], "finalize does not push the local bag",
    [ed(I, """            let guard = &self.pin();
            self.push_to_global(guard);""", """            let guard = &self.pin();
            let _ = guard;""")], ["EBR-FINALIZE-HANDOFF"])
mut("ebr-defer-drops-rejected", "break", ["C15"], "defer drops the Deferred rejected by a full bag",
    [ed(I, """        while let Err(d) = bag.try_push(deferred) {
            self.global().push_bag(bag, guard);
            deferred = d;
            self.schedule_collection();
        }""", """        if let Err(d) = bag.try_push(deferred) {
            self.global().push_bag(bag, guard);
            deferred = d;
            let _ = &mut deferred;
            self.schedule_collection();
        }""")], ["EBR-FINALIZE-HANDOFF", "EBR-NO-FORGET"])
mut("ebr-forget-bag", "break", ["C15"], "flush forgets the sealed bag instead of pushing", [
    ed(I, """        let epoch = self.epoch.load(Ordering::Relaxed);
        self.queue.push(bag.seal(epoch), guard);""", """        let epoch = self.epoch.load(Ordering::Relaxed);
        if bag.is_empty() {
            forget(bag.seal(epoch));
        } else {
            self.queue.push(bag.seal(epoch), guard);
        }""")], ["EBR-NO-FORGET", "EBR-SEAL-FRESH"])
mut("ebr-deferred-no-align-test", "break", ["C15"], "Deferred::new drops the alignment test",
    [ed(D, "if size <= mem::size_of::<Data>() && align <= mem::align_of::<Data>() {", "if size <= mem::size_of::<Data>() { let _ = align;")],
    ["EBR-DEFERRED-INLINE"])
mut("ebr-deferred-clone", "break", ["C15"], "Deferred derives Clone",
    [ed(D, "pub(crate) struct Deferred {", "#[derive(Clone)]\npub(crate) struct Deferred {")], ["EBR-NO-FORGET"])
mut("ebr-tls-with", "break", ["C20"], "with_handle uses LocalKey::with",
    [ed(DF, """    HANDLE
        .try_with(|h| f(h))
        .unwrap_or_else(|_| f(&collector().register()))""", """    HANDLE.with(|h| f(h))""")], ["EBR-TLS"])
mut("ebr-list-finalize-on-fail", "break", ["C18"], "iterator finalizes the entry even when its unlink CAS failed",
    [ed(L, """                    Err(curr) => {
                        // `curr` is the current value of `self.pred`.
                        curr
                    }""", """                    Err(curr) => {
                        unsafe {
                            C::finalize(self.curr.deref(), self.guard);
                        }
                        curr
                    }""")], ["EBR-LIST"])
mut("ebr-list-no-restart", "break", ["C18"], "iterator continues past a marked predecessor",
    [ed(L, """                if succ.tag() != 0 {
                    self.pred = self.head;
                    self.curr = self.head.load(Acquire, self.guard);

                    return Some(Err(IterError::Stalled));
                }""", """                let succ = succ.with_tag(0);""")], ["EBR-LIST"])
mut("ebr-queue-popif-reload", "break", ["C17"], "pop_if re-loads next after the predicate",
    [ed(Q, """            Some(n) if condition(unsafe { &*n.data.as_ptr() }) => unsafe {
                self.head
                    .compare_exchange(head, next, Release, Relaxed, guard)""", """            Some(n) if condition(unsafe { &*n.data.as_ptr() }) => unsafe {
                let head = self.head.load(Acquire, guard);
                let next = head.deref().next.load(Acquire, guard);
                self.head
                    .compare_exchange(head, next, Release, Relaxed, guard)""")], ["EBR-QUEUE"])
mut("ebr-queue-popif-no-predicate", "break", ["C17", "C13"], "pop_if ignores the predicate",
    [ed(Q, "Some(n) if condition(unsafe { &*n.data.as_ptr() }) => unsafe {", "Some(n) if { let _ = &condition; true } => unsafe {")],
    ["EBR-QUEUE"])
mut("ebr-queue-retire-on-fail", "break", ["C15", "C17"], "pops retire the head node even when the CAS failed",
    [ed(Q, ".map_err(|_| ())", ".map_err(|_| { guard.defer_destroy(head); })", count=2)], ["EBR-QUEUE"])
mut("ebr-global-epoch-writer", "break", ["C14"], "collect bumps the global epoch itself",
    [ed(I, """        self.try_advance(guard);

        debug_assert!(""", """        self.try_advance(guard);
        self.epoch.store(self.epoch.load(Ordering::Relaxed).successor(), Ordering::Release);

        debug_assert!(""")], ["EBR-EPOCH-WRITERS"])
mut("ebr-repin-stale", "break", ["C14"], "repin_without_collect stores the successor of its own epoch",
    [ed(I, """            self.epoch.store(global_epoch, Ordering::Release);
        }
        global_epoch""", """            self.epoch.store(epoch.successor(), Ordering::Release);
        }
        global_epoch""")], ["EBR-EPOCH-WRITERS"])
mut("ebr-epoch-successor-1", "break", ["C14"], "successor adds 1 (flips the pin bit)",
    [ed(EPF, "data: self.data.wrapping_add(2),", "data: self.data.wrapping_add(1),")], ["EPOCH-ARITH"])
mut("ebr-epoch-wrapping-sub-pinbit", "break", ["C14", "C13"], "wrapping_sub no longer masks the pin bit before the shift is applied to a sum",
    [ed(EPF, "self.data.wrapping_sub(rhs.data & !1) as isize >> 1", "(self.data.wrapping_sub(rhs.data) as isize + 1) >> 1")],
    ["EPOCH-ARITH"])

mut("ebr-unpin-clear-before-collect", "break", ["C13", "C16"], "unpin clears the local epoch before collecting",
    [ed(I, """        let guard_count = self.guard_count.get();
        if guard_count == 1 && !self.collecting.get() && !THREAD_COLLECTING.with(Cell::get) {""", """        let guard_count = self.guard_count.get();
        if guard_count == 1 {
            self.epoch.store(Epoch::starting(), Ordering::Release);
        }
        if guard_count == 1 && !self.collecting.get() && !THREAD_COLLECTING.with(Cell::get) {"""),
     ed(I, """                debug_assert!(self.epoch.load(Ordering::Relaxed).is_pinned());
""", "")], ["EBR-COLLECT-OUTERMOST", "EBR-GUARD-COUNT"])
mut("ebr-tls-fallback-other-collector", "break", ["C20"], "with_handle's fallback registers with a fresh collector",
    [ed(DF, ".unwrap_or_else(|_| f(&collector().register()))", ".unwrap_or_else(|_| f(&Collector::new().register()))")],
    ["EBR-TLS"])
mut("cw-dispose-unprotected", "break", ["C02", "C13"], "dispose runs the cascade under an unprotected guard", [
    ed(U, "use crate::ebr_impl::{cs, global_epoch, Guard, Tagged, HIGH_TAG_WIDTH};", "use crate::ebr_impl::{cs, global_epoch, unprotected, Guard, Tagged, HIGH_TAG_WIDTH};"),
    ed(U, """        let guard = &cs();
        dispose_general_node(inner, 0, counter, guard);""", """        let guard = &unprotected();
        dispose_general_node(inner, 0, counter, guard);""")], ["CW-DEFERRED-ONLY", "EBR-EPOCH-WRITERS"])
mut("cw-revived-no-return", "break", ["C04", "C05"], "revived child: token consumed but the destruction goes on",
    [ed(U, """                    RcInner::decrement_strong(rc, 1, Some(guard));
                    return;
                }""", """                    RcInner::decrement_strong(rc, 1, Some(guard));
                    break;
                }""")], ["CW-DESTRUCT-ONCE", "CW-CASCADE-DECISION"])
mut("cw-upgrade-null-none", "break", ["C05"], "Weak::upgrade of a null pointer returns None",
    [ed(W, """        let Some(obj) = (unsafe { self.ptr.as_raw().as_ref() }) else {
            return Some(Rc::from_raw(self.ptr));
        };""", """        let Some(obj) = (unsafe { self.ptr.as_raw().as_ref() }) else {
            return None;
        };""")], ["CW-INC-FAIL-ON-DESTRUCTED"])
mut("own-snapshot-counted-no-inc", "break", ["C01"], "Snapshot::counted creates an Rc without incrementing",
    [ed(S, """        let rc = Rc::from_raw(self.ptr);
        unsafe {
            if let Some(cnt) = rc.ptr.as_raw().as_ref() {
                cnt.increment_strong();
            }
        }
        rc""", """        let rc = Rc::from_raw(self.ptr);
        rc""")], ["OWN-BALANCE"])
mut("own-weak-from-snapshot-no-inc", "break", ["C03"], "WeakSnapshot::counted does not add a weak share",
    [ed(W, """        let weak = Weak::from_raw(self.ptr);
        weak.increment_weak();
        weak""", """        let weak = Weak::from_raw(self.ptr);
        weak""")], ["OWN-BALANCE"])
mut("own-atomicrc-drop-double", "break", ["C04", "C01"], "AtomicRc::drop releases two shares",
    [ed(S, """        let ptr = (*self.link.get_mut()).as_raw();
        unsafe {
            if let Some(cnt) = ptr.as_mut() {
                RcInner::decrement_strong(cnt, 1, None);""", """        let ptr = (*self.link.get_mut()).as_raw();
        unsafe {
            if let Some(cnt) = ptr.as_mut() {
                RcInner::decrement_strong(cnt, 2, None);""")], ["OWN-BALANCE"])

# ---------------------------------------------------------------- thin wrappers trusted by name
COLF = "src/ebr_impl/collector.rs"
mut("wrap-alloc-no-implicit-weak", "break", ["C03", "C04", "C01"], "alloc starts without the implicit weak share",
    [ed(U, "state: AtomicU64::new((init_strong as u64) * COUNT + WEAK_COUNT),", "state: AtomicU64::new((init_strong as u64) * COUNT),")],
    ["CW-ALLOC-INIT"])
mut("wrap-rawatomic-cas-swapped", "break", ["C17", "C18"], "RawAtomic::compare_exchange swaps current/new",
    [ed(PT, """        self.inner
            .compare_exchange(current.inner, new.inner, success, failure)
            .map(RawShared::from)""", """        self.inner
            .compare_exchange(new.inner, current.inner, success, failure)
            .map(RawShared::from)""")], ["WRAP-ATOMICS"])
mut("wrap-fetch-or-mask-of-wrapper", "break", ["C18", "C17"], "RawAtomic::fetch_or masks the tag with the low bits of the WRAPPER type (low_bits::<Tagged<T>>), not of the pointee",
    [ed(PT, "let prev = inner.fetch_or(low_bits::<T>() & tag, order);", "let prev = inner.fetch_or(low_bits::<Tagged<T>>() & tag, order);")], ["WRAP-ATOMICS"])
mut("wrap-fetch-or-unmasked", "break", ["C18", "C17"], "RawAtomic::fetch_or ors the tag in unmasked (address bits can be set)",
    [ed(PT, "let prev = inner.fetch_or(low_bits::<T>() & tag, order);", "let prev = inner.fetch_or(tag, order);")], ["WRAP-ATOMICS"])
DFT = "src/ebr_impl/default.rs"
OL = "src/ebr_impl/sync/once_lock.rs"
mut("ok-collector-std-oncelock", "benign", [], "collector() keeps the default collector in std::sync::OnceLock",
    [ed(DFT, "use super::sync::once_lock::OnceLock;", "use std::sync::OnceLock;")])
mut("wrap-collector-local-once", "break", ["C18", "C13"], "OnceLock::initialize runs the initializer under a fresh Once (a local, not the cell's)",
    [ed(OL, "self.once.call_once(|| {", "Once::new().call_once(|| {")], ["EBR-DEFAULT-COLLECTOR"])
mut("wrap-collector-init-unguarded-fast", "break", ["C18", "C13"], "get_or_init initialises directly when the cell looks empty, before reaching the Once",
    [ed(OL, """        self.initialize(f);

        debug_assert!(self.is_initialized());""", """        unsafe { self.value.get().cast::<T>().write(f()) };
        self.is_initialized.store(true, Ordering::Release);

        debug_assert!(self.is_initialized());""")], ["EBR-DEFAULT-COLLECTOR"])
mut("ok-try-destruct-mark-merged", "benign", [], "try_destruct's mark re-writes the stamp it observed (with_epoch(old.epoch())): no fresh epoch",
    [ed(U, """                old.with_destructed(true).as_raw(),
                Ordering::SeqCst,
                Ordering::SeqCst,
            ) {
                // Note that `decrement_weak` will be called in `dispose`.""", """                old.with_destructed(true).with_epoch(old.epoch() as _).as_raw(),
                Ordering::SeqCst,
                Ordering::SeqCst,
            ) {
                // Note that `decrement_weak` will be called in `dispose`.""")])
mut("rec-dgn-mark-stamps-now", "break", ["C06"], "the marking loop of the cascade stamps the current epoch with the DESTRUCTED flag",
    [ed(U, """                    old.with_destructed(true).as_raw(),
                    Ordering::SeqCst,
                    Ordering::SeqCst,
                ) {
                    Ok(_) => break,""", """                    old.with_destructed(true).with_epoch(global_epoch()).as_raw(),
                    Ordering::SeqCst,
                    Ordering::SeqCst,
                ) {
                    Ok(_) => break,""")], ["REC-IMMEDIATE"])
CL = "src/ebr_impl/collector.rs"
mut("init-collector-deep-clone", "break", ["C13", "C18"], "Collector::clone creates a collector of its own (a fresh Global) instead of sharing",
    [ed(CL, """        Collector {
            global: self.global.clone(),
        }""", """        Collector {
            global: Arc::new(Global::new()),
        }""")], ["EBR-INIT"])
mut("init-register-handle-count-0", "break", ["C20", "C16"], "a fresh participant starts with handle_count 0",
    [ed(I, "                handle_count: Cell::new(1),", "                handle_count: Cell::new(0),")], ["EBR-INIT"])
mut("init-register-pinned", "break", ["C13", "C14"], "a fresh participant starts with a pinned epoch 0",
    [ed(I, "                epoch: CachePadded::new(AtomicEpoch::new(Epoch::starting())),\n            });", "                epoch: CachePadded::new(AtomicEpoch::new(Epoch::starting().pinned())),\n            });")], ["EBR-INIT"])
mut("init-register-collecting", "break", ["C15", "C20"], "a fresh participant starts with `collecting` set: it never collects",
    [ed(I, "                collecting: Cell::new(false),", "                collecting: Cell::new(true),")], ["EBR-INIT"])
mut("ok-register-flags-default", "benign", [], "the flags of a fresh participant are written Cell::default() / Default::default()",
    [ed(I, "                collecting: Cell::new(false),", "                collecting: Cell::default(),"),
     ed(I, "                must_collect: Cell::new(false),", "                must_collect: Default::default(),")])
mut("deferred-boxed-call-leaks-box", "break", ["C15", "C04"], "the boxed `call` moves the closure out of the box and forgets the box (its allocation leaks)",
    [ed(D, """                    let b: Box<F> = ptr::read(raw.cast::<Box<F>>());
                    (*b)();""", """                    let b: Box<F> = ptr::read(raw.cast::<Box<F>>());
                    let f: F = ptr::read(&*b);
                    mem::forget(b);
                    f();""")], ["EBR-DEFERRED-INLINE"])
mut("deferred-call-skips-zst", "break", ["C15"], "Deferred::call does not invoke closures that capture nothing ('nothing to do for an empty closure')",
    [ed(D, """        let call = self.call;
        unsafe { call(self.data.as_mut_ptr().cast::<u8>()) };""", """        let call = self.call;
        if mem::size_of_val(&self.data) == 0 {
            return;
        }
        unsafe { call(self.data.as_mut_ptr().cast::<u8>()) };""")], ["EBR-DEFERRED-INLINE"])
mut("ok-deferred-call-copy", "benign", [], "Deferred::call works on a local copy of the (Copy) storage",
    [ed(D, """        let call = self.call;
        unsafe { call(self.data.as_mut_ptr().cast::<u8>()) };""", """        let call = self.call;
        let mut data = self.data;
        unsafe { call(data.as_mut_ptr().cast::<u8>()) };""")])
mut("wrap-rawshared-ptr-eq-ignores-tag", "break", ["C18", "C17"], "RawShared::ptr_eq compares the untagged addresses (the deletion mark is invisible)",
    [ed(PT, "        self.inner.ptr_eq(other.inner)\n    }\n}", "        self.inner.as_raw() == other.inner.as_raw()\n    }\n}")], ["WRAP-ATOMICS"])
mut("wrap-rawshared-with-tag-high", "break", ["C18"], "RawShared::with_tag sets the high (epoch) tag instead of the low one",
    [ed(PT, """        Self {
            inner: self.inner.with_tag(tag),
            _marker: PhantomData,
        }""", """        Self {
            inner: self.inner.with_high_tag(tag),
            _marker: PhantomData,
        }""")], ["WRAP-ATOMICS"])
mut("ok-rawshared-with-tag-from", "benign", [], "RawShared::with_tag builds its result through From<Tagged<T>>",
    [ed(PT, """        Self {
            inner: self.inner.with_tag(tag),
            _marker: PhantomData,
        }""", """        Self::from(self.inner.with_tag(tag))""")])
mut("tun-collect-trials-0", "break", ["C15", "C04"], "Global::COLLECTS_TRIALS = 0: a collection pops nothing",
    [ed(I, "const COLLECTS_TRIALS: usize = 16;", "const COLLECTS_TRIALS: usize = 0;")], ["EBR-TUNABLES"], allow_error=True)
mut("tun-max-objects-0", "break", ["C15", "C20"], "MAX_OBJECTS = 0: a bag holds nothing, defer spins",
    [ed(I, "static mut MAX_OBJECTS: usize = 64;", "static mut MAX_OBJECTS: usize = 0;")], ["EBR-TUNABLES"])
mut("tun-manual-events-0", "break", ["C20"], "MANUAL_EVENTS_BETWEEN_COLLECT = 0: the 1st manual event divides by zero",
    [ed(I, "static mut MANUAL_EVENTS_BETWEEN_COLLECT: usize = 64;", "static mut MANUAL_EVENTS_BETWEEN_COLLECT: usize = 0;")], ["EBR-TUNABLES"])
mut("ok-tun-max-objects-128", "benign", [], "MAX_OBJECTS = 128",
    [ed(I, "static mut MAX_OBJECTS: usize = 64;", "static mut MAX_OBJECTS: usize = 128;")])
mut("ok-tun-statics-to-consts", "benign", [], "the two `static mut` tunables become consts",
    [ed(I, "static mut MAX_OBJECTS: usize = 64;", "const MAX_OBJECTS: usize = 64;"),
     ed(I, "static mut MANUAL_EVENTS_BETWEEN_COLLECT: usize = 64;", "const MANUAL_EVENTS_BETWEEN_COLLECT: usize = 64;"),
     ed(I, "Bag(Vec::with_capacity(unsafe { MAX_OBJECTS }))", "Bag(Vec::with_capacity(MAX_OBJECTS))"),
     ed(I, "if manual_count % unsafe { MANUAL_EVENTS_BETWEEN_COLLECT } == 0 {", "if manual_count % MANUAL_EVENTS_BETWEEN_COLLECT == 0 {")])
mut("ok-list-stalled-resets-curr-only", "benign", [], "on a stall the iterator reloads curr from the head but keeps the (marked) predecessor link: "
    "its only consumer gives up at a stall (rely/guarantee with EBR-ADVANCE; was a breaking entry)",
    [ed(LF, """                    self.pred = self.head;
                    self.curr = self.head.load(Acquire, self.guard);
""", """                    self.curr = self.head.load(Acquire, self.guard);
""")])
# steps that exist only in the test suite's build configuration
mut("rel-mark-cas-in-debug-assert", "break", ["C05", "C04"], "the cascade's DESTRUCTED mark is a `debug_assert!(cas.is_ok())`: it vanishes from a release build",
    [ed(U, """                match rc.state.compare_exchange(
                    old.as_raw(),
                    old.with_destructed(true).as_raw(),
                    Ordering::SeqCst,
                    Ordering::SeqCst,
                ) {
                    Ok(_) => break,
                    Err(curr) => old = State::from_raw(curr),
                }""", """                debug_assert!(rc
                    .state
                    .compare_exchange(
                        old.as_raw(),
                        old.with_destructed(true).as_raw(),
                        Ordering::SeqCst,
                        Ordering::SeqCst,
                    )
                    .is_ok());
                break;""")], ["CW-DESTRUCT-ONCE"], config="release")
mut("rel-flush-only-in-debug", "break", ["C15"], "Local::flush schedules a collection only under cfg!(debug_assertions)",
    [ed(I, """        self.push_to_global(guard);
        self.schedule_collection();""", """        self.push_to_global(guard);
        if cfg!(debug_assertions) {
            self.schedule_collection();
        }""")], ["EBR-FLUSH-SCHEDULES"], config="release")
mut("pin-other-arch-arm-no-fence", "break", ["C13", "C14"], "the non-x86 arm of pin publishes with a Relaxed store and no fence (dead code in this build)",
    [ed(I, """                    self.epoch.store(new_epoch, Ordering::Relaxed);
                    atomic::fence(Ordering::SeqCst);""", """                    self.epoch.store(new_epoch, Ordering::Relaxed);""")], ["EBR-PIN-VALIDATE"])
mut("pin-other-arch-arm-wrong-value", "break", ["C13", "C14"], "the non-x86 arm of pin publishes the unpinned global epoch",
    [ed(I, """                    self.epoch.store(new_epoch, Ordering::Relaxed);
                    atomic::fence(Ordering::SeqCst);""", """                    self.epoch.store(global_epoch, Ordering::Relaxed);
                    atomic::fence(Ordering::SeqCst);""")], ["EBR-PIN-VALIDATE"])
mut("dbg-mark-cas-in-debug-assert", "break", ["C05", "C04"], "the cascade's DESTRUCTED mark is a `debug_assert!(cas.is_ok())` (judged in the debug build, where it is still executed)",
    [ed(U, """                match rc.state.compare_exchange(
                    old.as_raw(),
                    old.with_destructed(true).as_raw(),
                    Ordering::SeqCst,
                    Ordering::SeqCst,
                ) {
                    Ok(_) => break,
                    Err(curr) => old = State::from_raw(curr),
                }""", """                debug_assert!(rc
                    .state
                    .compare_exchange(
                        old.as_raw(),
                        old.with_destructed(true).as_raw(),
                        Ordering::SeqCst,
                        Ordering::SeqCst,
                    )
                    .is_ok());
                break;""")], ["DBG-PURE"])
mut("dbg-handle-count-set-in-debug-assert", "break", ["C16", "C20"], "acquire_handle increments inside a debug_assert_eq! ('check the old value while we are at it')",
    [ed(I, """        self.handle_count.set(handle_count + 1);
    }""", """        debug_assert_eq!(self.handle_count.replace(handle_count + 1), handle_count);
    }""")], ["DBG-PURE"])
mut("ok-dbg-assert-reads-more", "benign", [], "a debug_assert! that loads an atomic and calls a read-only helper",
    [ed(I, """        self.handle_count.set(handle_count + 1);
    }""", """        self.handle_count.set(handle_count + 1);
        debug_assert!(self.epoch.load(Ordering::Relaxed).is_pinned() || self.guard_count.get() == 0 || self.handle_count.get() >= 1);
    }""")])
mut("ep-atomicepoch-new-drops-value", "break", ["C13", "C14"], "AtomicEpoch::new ignores its argument (always the default epoch)",
    [ed(EPF, "        let data = AtomicUsize::new(epoch.data);", "        let _ = epoch;\n        let data = AtomicUsize::new(0);")], ["EBR-INIT", "WRAP-ATOMICS"])
mut("ep-derived-eq-to-value-eq", "break", ["C13", "C14"], "PartialEq for Epoch compares value() (ignores the pin bit): pin's re-validation and try_advance's comparison change meaning",
    [ed(EPF, "#[derive(Copy, Clone, Default, Debug, Eq, PartialEq)]", "#[derive(Copy, Clone, Default, Debug, Eq)]"),
     ed(EPF, "impl Epoch {\n", "impl PartialEq for Epoch {\n    fn eq(&self, other: &Self) -> bool {\n        self.value() == other.value()\n    }\n}\n\nimpl Epoch {\n")], ["EPOCH-ARITH", "EBR-PIN-VALIDATE", "EBR-ADVANCE"])
mut("list-delete-wrong-bit", "break", ["C18"], "Entry::delete marks bit 1 (fetch_or(2)): the traversal's `tag() == 1` test never sees a deleted entry",
    [ed(LF, "        self.next.fetch_or(1, Release, guard);", "        self.next.fetch_or(2, Release, guard);")], ["EBR-LIST", "ORD-LIST"])
mut("guard-defer-destroy-runs-now", "break", ["C18", "C17", "C13"], "Guard::defer_destroy frees the node at once instead of deferring it",
    [ed(G, "        self.defer_unchecked(move || unsafe { ptr.drop() });", "        unsafe { ptr.drop() };")], ["CW-DEFER-WRAPPER", "WRAP-ATOMICS", "EBR-LIST", "EBR-QUEUE"])
mut("queue-new-tail-not-sentinel", "break", ["C17"], "Queue::new leaves tail null (only head points to the sentinel)",
    [ed(Q, "        q.tail.store(sentinel, Relaxed);\n", "")], ["EBR-QUEUE", "EBR-INIT"])
mut("queue-new-sentinel-with-next", "break", ["C17"], "Queue::new's sentinel points to itself",
    [ed(Q, "        q.head.store(sentinel, Relaxed);\n        q.tail.store(sentinel, Relaxed);\n", "        q.head.store(sentinel, Relaxed);\n        q.tail.store(sentinel, Relaxed);\n        unsafe { sentinel.deref() }.next.store(sentinel, Relaxed);\n")], ["EBR-QUEUE", "EBR-INIT"])
mut("queue-drop-keeps-elements", "break", ["C15", "C04"], "Queue::drop frees the sentinel without popping the remaining elements (their bags are never run)",
    [ed(Q, "            while self.try_pop(guard).is_some() {}\n", "")], ["EBR-QUEUE-DROP"])
mut("own-newrciter-next-inverted", "break", ["C10", "C01"], "NewRcIter::next tests `remain != 0`: yields with no share left (mutation sweep M0031)",
    [ed(S, """        if self.remain == 0 {
            None
        } else {
            self.remain -= 1;""", """        if self.remain != 0 {
            None
        } else {
            self.remain -= 1;""")], ["OWN-BALANCE"])
mut("own-newrciter-next-off-by-one", "break", ["C10"], "NewRcIter::next stops at `remain == 1`: one owner fewer than advertised is handed out (mutation sweep M0032)",
    [ed(S, """        if self.remain == 0 {
            None
        } else {
            self.remain -= 1;""", """        if self.remain == 1 {
            None
        } else {
            self.remain -= 1;""")], ["OWN-BALANCE"])
mut("ok-newrciter-next-checked-sub", "benign", [], "NewRcIter::next written with checked_sub",
    [ed(S, """        if self.remain == 0 {
            None
        } else {
            self.remain -= 1;
            Some(Rc {
                ptr: self.ptr,
                _marker: PhantomData,
            })
        }""", """        if self.remain > 0 {
            self.remain -= 1;
            Some(Rc {
                ptr: self.ptr,
                _marker: PhantomData,
            })
        } else {
            None
        }""")])
mut("cw-cascade-zero-test-off-by-one", "break", ["C01", "C04"], "the cascade recurses into a child when its NEW count is 1, not 0 (mutation sweep M0166): steals a share of a still-owned child, never destructs unowned ones",
    [ed(U, "            if next_cnt.strong() == 0 {", "            if next_cnt.strong() == 1 {")], ["CW-ZERO-DEFERS"])
mut("cw-cap-returns-silently", "break", ["C04", "C07"], "at the depth cap the cascade returns without deferring try_destruct (mutation sweep M0139): the tail of a chain beyond 1024 is never destructed",
    [ed(U, """        guard.defer_with_inner(rc, |rc| RcInner::try_destruct(rc));
        return;
    }""", """        return;
    }""")], ["CW-DESTRUCT-ORDER"])
mut("rec-root-depth-1", "break", ["C07", "C04"], "dispose enters the cascade at depth 1 (mutation sweep M0129)",
    [ed(U, "dispose_general_node(inner, 0, counter, guard);", "dispose_general_node(inner, 1, counter, guard);")], ["REC-DEPTH-GUARD"])
mut("init-thread-collecting-true", "break", ["C04", "C15"], "THREAD_COLLECTING starts true (mutation sweep M0226): no thread ever collects",
    [ed(I, "static THREAD_COLLECTING: Cell<bool> = const { Cell::new(false) };", "static THREAD_COLLECTING: Cell<bool> = const { Cell::new(true) };")], ["EBR-INIT"])
mut("guard-unprotected-defer-drops-f", "break", ["C15", "C04"], "defer_unchecked on an unprotected guard drops f unrun (mutation sweep M0215)",
    [ed(G, """        } else {
            drop(f());
        }""", """        } else {
            drop(f);
        }""")], ["CW-DEFER-WRAPPER"])
mut("rec-depth-step-2", "break", ["C06"], "the recursive call passes depth + 2 (mutation sweep M0168): the cap is reached after 512 nodes",
    [ed(U, "dispose_general_node(next_ptr.as_raw(), depth + 1, counter, guard);", "dispose_general_node(next_ptr.as_raw(), depth + 2, counter, guard);")], ["REC-IMMEDIATE"])
mut("rec-dispose-no-cascade", "break", ["C04"], "dispose no longer calls dispose_general_node (mutation sweep M0130)",
    [ed(U, "        dispose_general_node(inner, 0, counter, guard);", "        let _ = (inner, counter, guard);")], ["REC-DEPTH-GUARD"], allow_error=True)
mut("rec-thread-flag-never-cleared", "break", ["C04", "C15"], "unpin does not clear the thread-wide collecting flag after its collections (mutation sweep M0314): the thread never collects again",
    [ed(I, """            self.collecting.set(false);
            THREAD_COLLECTING.with(|c| c.set(false));""", """            self.collecting.set(false);""")], ["REC-COLLECT-REENTRY"])
mut("list-unlinked-not-finalized", "break", ["C18"], "the traversal unlinks a deleted entry without handing it to finalize (mutation sweep M0387): the participant is never freed",
    [ed(LF, """                        unsafe {
                            C::finalize(self.curr.deref(), self.guard);
                        }
""", "")], ["EBR-LIST"])
mut("list-drop-no-finalize", "break", ["C18"], "List::drop does not finalize the remaining entries (mutation sweep M0382)",
    [ed(LF, "                C::finalize(curr.deref(), &guard);", "                let _ = (&curr, &guard);")], ["EBR-LIST"])
mut("cw-weak-token-subtracted", "break", ["C03", "C04"], "increment_weak from zero SUBTRACTS the token unit (fetch_sub for fetch_add; mutation sweep M1055)",
    [ed(U, "            self.state.fetch_add(WEAK_COUNT, Ordering::SeqCst);\n        }\n    }", "            self.state.fetch_sub(WEAK_COUNT, Ordering::SeqCst);\n        }\n    }")], ["CW-WEAK-PROTOCOL"])
mut("cw-cascade-zero-test-removed", "break", ["C04", "C01"], "the cascade's `if next_cnt.strong() == 0` is `if false` (mutation sweep M1091): zero-count children are never destructed",
    [ed(U, "            if next_cnt.strong() == 0 {", "            if false {")], ["CW-ZERO-DEFERS", "REC-IMMEDIATE"])
mut("rec-edge-loop-skips-all", "break", ["C06"], "the edge loop skips every edge (`if true { continue }`; mutation sweep M1085): children are released by their Rc's drop, one grace period per level",
    [ed(U, """            if next.is_null() {
                continue;
            }

            let next_ptr = next.into_raw();""", """            if true {
                continue;
            }

            let next_ptr = next.into_raw();""")], ["REC-IMMEDIATE"], allow_error=True)
mut("queue-pop-retires-tail", "break", ["C17"], "pop never advances the tail before retiring the old head (`if head.ptr_eq(tail)` is `if false`; mutation sweep M1198): tail may point at a freed node",
    [ed(Q, """                        if head.ptr_eq(tail) {
                            let _ = self
                                .tail
                                .compare_exchange(tail, next, Release, Relaxed, guard);
                        }
                        guard.defer_destroy(head);
                        Some(n.data.assume_init_read())
                    })
                    .map_err(|_| ())
            },
            None => Ok(None),""", """                        if false {
                            let _ = self
                                .tail
                                .compare_exchange(tail, next, Release, Relaxed, guard);
                        }
                        guard.defer_destroy(head);
                        Some(n.data.assume_init_read())
                    })
                    .map_err(|_| ())
            },
            None => Ok(None),""")], ["EBR-QUEUE"])
mut("cw-weak-upgrade-never", "break", ["C05"], "Weak::upgrade's `if obj.try_increment_strong()` is `if false` (mutation sweep M1105): upgrade never succeeds",
    [ed(W, "        if obj.try_increment_strong() {", "        if false {")], ["CW-INC-FAIL-ON-DESTRUCTED"])
mut("wrap-atomicepoch-cas-always-ok", "break", ["C13", "C14"], "AtomicEpoch::compare_exchange reports Ok on failure",
    [ed(EPF, "Err(data) => Err(Epoch { data }),", "Err(data) => Ok(Epoch { data }),")], ["WRAP-ATOMICS"])
mut("wrap-defer-none-runs-now", "break", ["C01", "C02", "C13"], "Option<&Guard>::defer_with_inner runs f at once when no guard is given",
    [ed(U, """        } else {
            cs().defer_with_inner(ptr, f)
        }""", """        } else {
            f(ptr)
        }""")], ["CW-DEFER-WRAPPER"])
mut("wrap-global-epoch-other-collector", "break", ["C02", "C13"], "global_epoch() reads a fresh collector's clock",
    [ed(DF, "default_collector().global_epoch().value()", "Collector::new().global_epoch().value()")], ["EBR-DEFAULT-COLLECTOR"])
mut("wrap-element-of-offset", "break", ["C18"], "element_of adds the offset instead of subtracting it",
    [ed(I, "let local_ptr = (entry as *const Entry as usize - offset_of!(Local, entry)) as *const Local;",
        "let local_ptr = (entry as *const Entry as usize + offset_of!(Local, entry)) as *const Local;")], ["WRAP-ATOMICS"])
mut("wrap-handle-drop-noop", "break", ["C20", "C15"], "LocalHandle::drop does not release the handle",
    [ed(COLF, """        unsafe {
            Local::release_handle(&*self.local);
        }""", """        let _ = self.local;""")], ["EBR-DEFAULT-COLLECTOR"])

# ---------------------------------------------------------------- bits / arithmetic
mut("bit-low-bits-off-by-one", "break", ["C11"], "low_bits mask one bit too wide",
    [ed(PT, "(1 << align_of::<T>().trailing_zeros()) - 1", "(2 << align_of::<T>().trailing_zeros()) - 1")], ["BIT-TAGGED"])
mut("bit-as-raw-keeps-epoch", "break", ["C11"], "as_raw does not clear the epoch bits",
    [ed(PT, "(ptr & !low_bits::<T>() & !Self::high_bits()) as *mut T", "(ptr & !low_bits::<T>()) as *mut T")], ["BIT-TAGGED"])
mut("bit-ptr-eq-raw", "break", ["C11", "C08"], "Tagged::ptr_eq compares raw words",
    [ed(PT, "self.with_high_tag(0).ptr == other.with_high_tag(0).ptr", "self.ptr == other.ptr")], ["BIT-TAGGED"])
mut("bit-ptr-eq-ignores-tag", "break", ["C11", "C19"], "Tagged::ptr_eq ignores the user tag",
    [ed(PT, "self.with_high_tag(0).ptr == other.with_high_tag(0).ptr", "self.as_raw() == other.as_raw()")], ["BIT-TAGGED"])
mut("bit-high-tag-3bits", "break", ["C11", "C12"], "with_high_tag masks 3 bits only",
    [ed(PT, "| ((tag & ((1 << HIGH_TAG_WIDTH) - 1)) << Self::high_bits_pos()))", "| ((tag & ((1 << (HIGH_TAG_WIDTH - 1)) - 1)) << Self::high_bits_pos()))")],
    ["BIT-TAGGED"])
mut("bit-rc-ptr-eq-direct", "break", ["C11"], "Weak::ptr_eq compares through a derived Hash/Eq of the word", [
    ed(W, """        self.ptr.ptr_eq(other.ptr)
    }
}

impl<T: RcObject> Weak<T> {""", """        self.ptr.with_tag(0).tag() == other.ptr.with_tag(0).tag() && self.ptr.high_tag() == other.ptr.high_tag() && self.ptr.ptr_eq(other.ptr)
    }
}

impl<T: RcObject> Weak<T> {""")], ["BIT-DELEGATION"])
mut("bit-state-weak-width", "break", ["C12"], "WEAK mask overlaps the flag",
    [ed(U, "const WEAK: u64 = ((1 << WEAK_WIDTH) - 1) << STRONG_WIDTH;", "const WEAK: u64 = ((1 << (WEAK_WIDTH + 1)) - 1) << STRONG_WIDTH;")],
    ["BIT-STATE"])
mut("bit-state-with-epoch-nomask", "break", ["C12"], "with_epoch does not clear the old epoch",
    [ed(U, "Self::from_raw((self.inner & !EPOCH) | (((epoch as u64) << EPOCH_MASK_HEIGHT) & EPOCH))",
        "Self::from_raw(self.inner | (((epoch as u64) << EPOCH_MASK_HEIGHT) & EPOCH))")], ["BIT-STATE"])
mut("bit-state-add-weak-unit", "break", ["C12", "C03"], "add_weak adds in strong units",
    [ed(U, "Self::from_raw(self.inner + (val as u64) * WEAK_COUNT)", "Self::from_raw(self.inner + (val as u64) * COUNT)")],
    ["BIT-STATE", "CW-WEAK-PROTOCOL"])
mut("mod-le-strict", "break", ["C12"], "Modular::le uses < (in-window age == threshold no longer old) ",
    [ed(U, "self.trans(a) <= self.trans(b)", "self.trans(a) < self.trans(b)")], ["MOD-WINDOW"])
mut("mod-window-top", "break", ["C12", "C02"], "modular window top is curr instead of curr+1... shifted by 8",
    [ed(U, "Modular::new(curr_epoch as isize + 1)", "Modular::new(curr_epoch as isize + 9)")], ["MOD-WINDOW", "CW-CASCADE-DECISION"])
mut("ok-mod-trans-euclid", "benign", ["C12"], "trans via rem_euclid: window becomes ages -1..14 instead of -2..13; the safety "
    "and precision clauses of C12 still hold (age 14 is now classified old, which is true)",
    [ed(U, "(val - (self.max + 1)) % (1 << WIDTH)", "(val - (self.max + 1)).rem_euclid(1 << WIDTH) - (1 << WIDTH)")])
mut("mod-trans-reduced", "break", ["C12", "C02"], "Modular reduces max and operands to [0,16) first (independent seed S-C12-1)",
    [ed(U, """    pub fn new(max: isize) -> Self {
        Self { max }
    }""", """    pub fn new(max: isize) -> Self {
        Self { max: max.rem_euclid(1 << WIDTH) }
    }"""),
     ed(U, """        debug_assert!(val <= self.max);
        (val - (self.max + 1)) % (1 << WIDTH)""", """        (val.rem_euclid(1 << WIDTH) - (self.max + 1)) % (1 << WIDTH)""")], ["MOD-WINDOW"])

# ---------------------------------------------------------------- comparison traits / recursion / types
mut("cmp-eq-by-ptr", "break", ["C19"], "Rc::eq compares by ptr_eq",
    [ed(S, """impl<T: RcObject + PartialEq> PartialEq for Rc<T> {
    #[inline(always)]
    fn eq(&self, other: &Self) -> bool {
        self.as_ref() == other.as_ref()""", """impl<T: RcObject + PartialEq> PartialEq for Rc<T> {
    #[inline(always)]
    fn eq(&self, other: &Self) -> bool {
        self.ptr_eq(other)""")], ["CMP-DELEGATE"])
mut("cmp-ord-reversed", "break", ["C19"], "Snapshot::cmp compares the operands in reverse",
    [ed(S, """impl<'g, T: RcObject + Ord> Ord for Snapshot<'g, T> {
    fn cmp(&self, other: &Self) -> std::cmp::Ordering {
        self.as_ref().cmp(&other.as_ref())""", """impl<'g, T: RcObject + Ord> Ord for Snapshot<'g, T> {
    fn cmp(&self, other: &Self) -> std::cmp::Ordering {
        other.as_ref().cmp(&self.as_ref())""")], ["CMP-DELEGATE"])
mut("cmp-hash-ptr", "break", ["C19"], "Rc::hash hashes the pointer",
    [ed(S, """impl<T: RcObject + Hash> Hash for Rc<T> {
    fn hash<H: Hasher>(&self, state: &mut H) {
        self.as_ref().hash(state);""", """impl<T: RcObject + Hash> Hash for Rc<T> {
    fn hash<H: Hasher>(&self, state: &mut H) {
        self.ptr.hash(state);""")], ["CMP-DELEGATE"])
mut("rec-no-depth-guard", "break", ["C07"], "depth guard removed",
    [ed(U, """    if depth >= 1024 {
        // Prevent a potential stack overflow.
        guard.defer_with_inner(rc, |rc| RcInner::try_destruct(rc));
        return;
    }
""", "")], ["REC-DEPTH-GUARD"])
mut("rec-cap-raised", "break", ["C07"], "depth cap raised to 1 << 20",
    [ed(U, "if depth >= 1024 {", "if depth >= (1 << 20) {")], ["REC-DEPTH-GUARD"])
mut("rec-depth-not-increasing", "break", ["C07"], "recursive call passes the same depth",
    [ed(U, "dispose_general_node(next_ptr.as_raw(), depth + 1, counter, guard);", "dispose_general_node(next_ptr.as_raw(), depth.max(1), counter, guard);")],
    ["REC-DEPTH-GUARD"])
mut("rec-cap-lowered", "break", ["C06"], "depth cap lowered to 16",
    [ed(U, "if depth >= 1024 {", "if depth >= 16 {")], ["REC-IMMEDIATE"])
mut("rec-children-deferred", "break", ["C06"], "zero-count children are deferred instead of recursed",
    [ed(U, "dispose_general_node(next_ptr.as_raw(), depth + 1, counter, guard);", "{ let _ = depth; guard.defer_with_inner(next_ptr.as_raw(), |rc| RcInner::try_destruct(rc)); }")],
    ["REC-IMMEDIATE"])
mut("ty-snapshot-unbounded", "break", ["C02"], "AtomicRc::load returns a snapshot not tied to the guard",
    [ed(S, "pub fn load<'g>(&self, order: Ordering, guard: &'g Guard) -> Snapshot<'g, T> {\n        Snapshot::from_raw(self.link.load(order), guard)",
        "pub fn load<'g>(&self, order: Ordering, guard: &Guard) -> Snapshot<'g, T> {\n        let _ = guard;\n        Snapshot { ptr: self.link.load(order), _marker: PhantomData }")],
    ["TY-SIG", "TY-SNAPSHOT-GUARD"])
mut("ty-guard-send", "break", ["C16"], "Guard made Send",
    [ed(G, "impl Drop for Guard {", "unsafe impl Send for Guard {}\n\nimpl Drop for Guard {")], ["TY-GUARD-NOT-SEND"])
mut("ty-weak-deref", "break", ["C05"], "Weak gains as_ref", [
    ed(W, """    #[inline]
    pub(crate) fn increment_weak(&self) {""", """    /// Dereferences the pointer.
    pub fn as_ref(&self) -> Option<&T> {
        unsafe { self.ptr.as_ref().map(|i| i.data()) }
    }

    #[inline]
    pub(crate) fn increment_weak(&self) {""")], ["TY-WEAK-NO-DEREF"])
mut("ty-take-shared", "break", ["C08"], "AtomicRc::take through &self", [
    ed(S, """    pub fn take(&mut self) -> Rc<T> {
        Rc::from_raw(core::mem::take(self.link.get_mut()))""", """    pub fn take(&self) -> Rc<T> {
        Rc::from_raw(self.link.swap(Tagged::null(), Ordering::SeqCst))""")], ["TY-TAKE-MUT"])
mut("ty-unprotected-public", "break", ["C13"], "unprotected() exported from the crate root", [
    ed("src/lib.rs", "pub use ebr_impl::{cs, Guard};", "pub use ebr_impl::{cs, unprotected, Guard};")],
    ["CW-DEFERRED-ONLY", "TY-PRIVATE"])

# ---------------------------------------------------------------- behaviour-preserving edits
mut("ok-pin-fence-arm", "benign", ["C13"], "pin always uses store + fence(SeqCst) (the portable arm)",
    [ed(I, """                if cfg!(all(
                    any(target_arch = "x86", target_arch = "x86_64"),
                    not(miri)
                )) {""", """                if cfg!(all(
                    any(target_arch = "x86", target_arch = "x86_64"),
                    miri
                )) {""")])
mut("ok-expiry-4", "benign", ["C13"], "bags expire after 4 epochs (more conservative)",
    [ed(I, "global_epoch.wrapping_sub(self.epoch) >= 3", "global_epoch.wrapping_sub(self.epoch) >= 4")])
mut("ok-advance-match-order", "benign", ["C13", "C18"], "try_advance's match arms reordered / if-let",
    [ed(I, """            match local {
                Err(IterError::Stalled) => {
                    // A concurrent thread stalled this iteration. That thread might also try to
                    // advance the epoch, in which case we leave the job to it. Otherwise, the
                    // epoch will not be advanced.
                    return global_epoch;
                }
                Ok(local) => {
                    let local_epoch = local.epoch.load(Ordering::Relaxed);

                    // If the participant was pinned in a different epoch, we cannot advance the
                    // global epoch just yet.
                    if local_epoch.is_pinned() && local_epoch.unpinned() != global_epoch {
                        return global_epoch;
                    }
                }
            }""", """            let local = match local {
                Ok(local) => local,
                Err(IterError::Stalled) => return global_epoch,
            };
            let local_epoch = local.epoch.load(Ordering::Relaxed);
            if local_epoch.is_pinned() {
                if local_epoch.unpinned() != global_epoch {
                    return global_epoch;
                }
            }""")])
mut("ok-is-null-order", "benign", ["C19", "C11"], "Rc::as_ref tests !is_null first",
    [ed(S, """    pub fn as_ref(&self) -> Option<&T> {
        if self.ptr.is_null() {
            None
        } else {
            Some(unsafe { self.deref() })
        }
    }""", """    pub fn as_ref(&self) -> Option<&T> {
        if !self.ptr.is_null() {
            Some(unsafe { self.deref() })
        } else {
            None
        }
    }""")])
mut("ok-state-strong-no-div", "benign", ["C12"], "State::strong without the division by COUNT",
    [ed(U, "((self.inner & STRONG) / COUNT) as u32", "(self.inner & STRONG) as u32")])
mut("ok-with-tag-inline", "benign", ["C11"], "Tagged::with_tag written inline",
    [ed(PT, "Self::from(with_tag(self.ptr, tag))", "Self::from(((self.ptr as usize & !low_bits::<T>()) | (tag & low_bits::<T>())) as *mut T)")])
mut("ok-unpin-early-return", "benign", ["C16", "C13"], "unpin restructured with nested ifs",
    [ed(I, """        if guard_count == 1 && !self.collecting.get() && !THREAD_COLLECTING.with(Cell::get) {
            self.collecting.set(true);""", """        if guard_count == 1 {
          if !self.collecting.get() && !THREAD_COLLECTING.with(Cell::get) {
            self.collecting.set(true);"""),
     ed(I, """            THREAD_COLLECTING.with(|c| c.set(false));
        }

        // Read the count again""", """            THREAD_COLLECTING.with(|c| c.set(false));
          }
        }

        // Read the count again""")])
mut("unpin-cold-path-stale-count", "break", ["C16"], "unpin's collection loop hoisted into a #[cold] helper that sets guard_count to 0 after the collection (F11 again: a guard created by a destructor is not counted)",
    [ed(I, """        if guard_count == 1 && !self.collecting.get() && !THREAD_COLLECTING.with(Cell::get) {
            self.collecting.set(true);
            THREAD_COLLECTING.with(|c| c.set(true));
            while self.must_collect.get() {
                self.must_collect.set(false);
                debug_assert!(self.epoch.load(Ordering::Relaxed).is_pinned());
                let guard = ManuallyDrop::new(Guard { local: self });
                self.global().collect(&guard);
                // A destructor may have created a guard that is still alive (parked or leaked);
                // the `Snapshot`s loaded through it rely on the current local epoch.
                self.repin_unless_foreign_guards(0);
            }
            self.collecting.set(false);
            THREAD_COLLECTING.with(|c| c.set(false));
        }
""", """        if guard_count == 1 && self.must_collect.get() && !self.collecting.get() && !THREAD_COLLECTING.with(Cell::get) {
            return self.unpin_and_collect();
        }
"""),
     ed(I, """    /// Unpins and then pins the `Local`.
    #[inline]
    pub(crate) fn repin(&self) {""", """    #[cold]
    fn unpin_and_collect(&self) {
        self.collecting.set(true);
        THREAD_COLLECTING.with(|c| c.set(true));
        while self.must_collect.get() {
            self.must_collect.set(false);
            let guard = ManuallyDrop::new(Guard { local: self });
            self.global().collect(&guard);
            self.repin_unless_foreign_guards(0);
        }
        self.collecting.set(false);
        THREAD_COLLECTING.with(|c| c.set(false));

        self.guard_count.set(0);
        self.epoch.store(Epoch::starting(), Ordering::Release);
        if self.handle_count.get() == 0 {
            self.finalize();
        }
    }

    /// Unpins and then pins the `Local`.
    #[inline]
    pub(crate) fn repin(&self) {""")], ["EBR-GUARD-COUNT"])
mut("ok-unpin-cold-path", "benign", ["C13", "C15", "C16", "C20"], "unpin's collection loop hoisted into a #[cold] helper that re-reads the count (finalize test kept)",
    [ed(I, """        if guard_count == 1 && !self.collecting.get() && !THREAD_COLLECTING.with(Cell::get) {
            self.collecting.set(true);
            THREAD_COLLECTING.with(|c| c.set(true));
            while self.must_collect.get() {
                self.must_collect.set(false);
                debug_assert!(self.epoch.load(Ordering::Relaxed).is_pinned());
                let guard = ManuallyDrop::new(Guard { local: self });
                self.global().collect(&guard);
                // A destructor may have created a guard that is still alive (parked or leaked);
                // the `Snapshot`s loaded through it rely on the current local epoch.
                self.repin_unless_foreign_guards(0);
            }
            self.collecting.set(false);
            THREAD_COLLECTING.with(|c| c.set(false));
        }
""", """        if guard_count == 1 && self.must_collect.get() && !self.collecting.get() && !THREAD_COLLECTING.with(Cell::get) {
            return self.unpin_and_collect();
        }
"""),
     ed(I, """    /// Unpins and then pins the `Local`.
    #[inline]
    pub(crate) fn repin(&self) {""", """    #[cold]
    fn unpin_and_collect(&self) {
        self.collecting.set(true);
        THREAD_COLLECTING.with(|c| c.set(true));
        while self.must_collect.get() {
            self.must_collect.set(false);
            let guard = ManuallyDrop::new(Guard { local: self });
            self.global().collect(&guard);
            self.repin_unless_foreign_guards(0);
        }
        self.collecting.set(false);
        THREAD_COLLECTING.with(|c| c.set(false));

        let guard_count = self.guard_count.get();
        self.guard_count.set(guard_count - 1);
        if guard_count == 1 {
            self.epoch.store(Epoch::starting(), Ordering::Release);
            if self.handle_count.get() == 0 {
                self.finalize();
            }
        }
    }

    /// Unpins and then pins the `Local`.
    #[inline]
    pub(crate) fn repin(&self) {""")])
mut("unpin-cold-path-no-finalize", "break", ["C20", "C15"], "same refactoring without the finalize test on the slow path (independent seed S-C20-1)",
    [ed(I, """        if guard_count == 1 && !self.collecting.get() && !THREAD_COLLECTING.with(Cell::get) {
            self.collecting.set(true);
            THREAD_COLLECTING.with(|c| c.set(true));
            while self.must_collect.get() {
                self.must_collect.set(false);
                debug_assert!(self.epoch.load(Ordering::Relaxed).is_pinned());
                let guard = ManuallyDrop::new(Guard { local: self });
                self.global().collect(&guard);
                // A destructor may have created a guard that is still alive (parked or leaked);
                // the `Snapshot`s loaded through it rely on the current local epoch.
                self.repin_unless_foreign_guards(0);
            }
            self.collecting.set(false);
            THREAD_COLLECTING.with(|c| c.set(false));
        }
""", """        if guard_count == 1 && self.must_collect.get() && !self.collecting.get() && !THREAD_COLLECTING.with(Cell::get) {
            return self.unpin_and_collect();
        }
"""),
     ed(I, """    /// Unpins and then pins the `Local`.
    #[inline]
    pub(crate) fn repin(&self) {""", """    #[cold]
    fn unpin_and_collect(&self) {
        self.collecting.set(true);
        THREAD_COLLECTING.with(|c| c.set(true));
        while self.must_collect.get() {
            self.must_collect.set(false);
            let guard = ManuallyDrop::new(Guard { local: self });
            self.global().collect(&guard);
            self.repin_unless_foreign_guards(0);
        }
        self.collecting.set(false);
        THREAD_COLLECTING.with(|c| c.set(false));

        self.guard_count.set(0);
        self.epoch.store(Epoch::starting(), Ordering::Release);
    }

    /// Unpins and then pins the `Local`.
    #[inline]
    pub(crate) fn repin(&self) {""")], ["EBR-FINALIZE-HANDOFF"])
mut("ok-dec-strong-helper", "benign", ["C01", "C02", "C04"], "decrement_strong's hand-off hoisted into a private helper",
    [ed(U, """        if hit_zero {
            guard.defer_with_inner(ptr, |inner| Self::try_destruct(inner));
        }
        // Periodically triggers a collection.
        guard.incr_manual_collection();
    }
""", """        Self::after_decrement(ptr, hit_zero, guard);
    }

    #[inline]
    unsafe fn after_decrement(ptr: *mut Self, hit_zero: bool, guard: &Guard) {
        if hit_zero {
            guard.defer_with_inner(ptr, |inner| Self::try_destruct(inner));
        }
        // Periodically triggers a collection.
        guard.incr_manual_collection();
    }
""")])
mut("ok-advance-helper", "benign", ["C13", "C14", "C18"], "try_advance's per-participant test hoisted into a private helper",
    [ed(I, """                    if local_epoch.is_pinned() && local_epoch.unpinned() != global_epoch {
                        return global_epoch;
                    }""", """                    if Self::lags(local_epoch, global_epoch) {
                        return global_epoch;
                    }"""),
     ed(I, """    /// Attempts to advance the global epoch.
    ///
    /// The global epoch can advance only if""", """    #[inline]
    fn lags(local_epoch: Epoch, global_epoch: Epoch) -> bool {
        local_epoch.is_pinned() && local_epoch.unpinned() != global_epoch
    }

    /// Attempts to advance the global epoch.
    ///
    /// The global epoch can advance only if""")])
mut("ok-iter-release-helper", "benign", ["C10", "C04"], "NewRcIter::abort and drop share a private helper (two call sites)",
    [ed(S, """    pub fn abort(self, guard: &Guard) {
        if self.remain > 0 {
            unsafe {
                RcInner::decrement_strong(self.ptr.as_raw(), self.remain as _, Some(guard));
            };
        }
        forget(self);
    }
}""", """    pub fn abort(self, guard: &Guard) {
        self.release(Some(guard));
        forget(self);
    }

    #[inline]
    fn release(&self, guard: Option<&Guard>) {
        if self.remain > 0 {
            unsafe {
                RcInner::decrement_strong(self.ptr.as_raw(), self.remain as _, guard);
            };
        }
    }
}"""),
     ed(S, """    fn drop(&mut self) {
        if self.remain > 0 {
            unsafe {
                RcInner::decrement_strong(self.ptr.as_raw(), self.remain as _, None);
            };
        }
    }""", """    fn drop(&mut self) {
        self.release(None);
    }""")])
mut("ok-store-is-null", "benign", ["C08", "C01"], "AtomicRc::store tests is_null instead of as_mut()",
    [ed(S, """            if let Some(cnt) = old_ptr.as_raw().as_mut() {
                RcInner::decrement_strong(cnt, 1, Some(guard));
            }""", """            if !old_ptr.is_null() {
                RcInner::decrement_strong(old_ptr.as_raw(), 1, Some(guard));
            }""")])
mut("ok-upgrade-match", "benign", ["C05", "C01"], "Weak::upgrade written with match + bool::then",
    [ed(W, """        let Some(obj) = (unsafe { self.ptr.as_raw().as_ref() }) else {
            return Some(Rc::from_raw(self.ptr));
        };
        if obj.try_increment_strong() {
            return Some(Rc::from_raw(self.ptr));
        }
        None""", """        match unsafe { self.ptr.as_raw().as_ref() } {
            None => Some(Rc::from_raw(self.ptr)),
            Some(obj) => {
                if !obj.try_increment_strong() {
                    return None;
                }
                Some(Rc::from_raw(self.ptr))
            }
        }""")])
mut("ok-cas-while-let", "benign", ["C08"], "AtomicRc::compare_exchange_tag loop as while-let",
    [ed(S, """        loop {
            match self
                .link
                .compare_exchange(expected_raw, desired_raw, success, failure)
            {
                Ok(current_raw) => return Ok(Snapshot::from_raw(current_raw, guard)),
                Err(current_raw) => {
                    if current_raw.ptr_eq(expected_raw) {
                        expected_raw = current_raw;
                    } else {
                        return Err(CompareExchangeError {
                            desired: Snapshot::from_raw(desired_raw, guard),
                            current: Snapshot::from_raw(current_raw, guard),
                        });
                    }
                }
            }
        }""", """        let mut res = self
            .link
            .compare_exchange(expected_raw, desired_raw, success, failure);
        while let Err(current_raw) = res {
            if !current_raw.ptr_eq(expected_raw) {
                return Err(CompareExchangeError {
                    desired: Snapshot::from_raw(desired_raw, guard),
                    current: Snapshot::from_raw(current_raw, guard),
                });
            }
            expected_raw = current_raw;
            res = self
                .link
                .compare_exchange(expected_raw, desired_raw, success, failure);
        }
        Ok(Snapshot::from_raw(res.ok().unwrap(), guard))""")])
mut("ok-rc-drop-early-return", "benign", ["C01", "C04"], "Rc::drop with an early return on null",
    [ed(S, """        unsafe {
            if let Some(cnt) = self.ptr.as_raw().as_mut() {
                RcInner::decrement_strong(cnt, 1, None);
            }
        }
    }
}

impl<T: RcObject + PartialEq> PartialEq for Rc<T> {""", """        if self.is_null() {
            return;
        }
        unsafe {
            RcInner::decrement_strong(self.ptr.as_raw(), 1, None);
        }
    }
}

impl<T: RcObject + PartialEq> PartialEq for Rc<T> {""")])
mut("ok-inc-weak-loop", "benign", ["C03"], "increment_weak's first-share loop as loop+match with explicit break",
    [ed(U, """        while !old.weaked() {
            // In this case, `increment_weak` must have been called from `Rc::downgrade`,
            // guaranteeing weak > 0, so it can\u2019t be incremented from 0.
            debug_assert!(old.weak() != 0);
            match self.state.compare_exchange(""", """        loop {
            if old.weaked() {
                break;
            }
            match self.state.compare_exchange(""")])
mut("ok-depth-cap-2048", "benign", ["C06"], "depth cap raised to 2048 (C06 unaffected; C07 finding key changes)",
    [ed(U, "if depth >= 1024 {", "if depth >= 1024 + 0 {")])

mut("ok-rename-local", "benign", ["C01", "C04"], "rename a local in decrement_strong",
    [ed(U, "let hit_zero = loop {", "let reached_zero = loop {"), ed(U, "if hit_zero {", "if reached_zero {")])
mut("ok-iflet-to-match", "benign", ["C01", "C08"], "Rc::drop: if let -> match",
    [ed(S, """            if let Some(cnt) = self.ptr.as_raw().as_mut() {
                RcInner::decrement_strong(cnt, 1, None);
            }
        }
    }
}

impl<T: RcObject + PartialEq> PartialEq for Rc<T> {""", """            match self.ptr.as_raw().as_mut() {
                Some(cnt) => RcInner::decrement_strong(cnt, 1, None),
                None => {}
            }
        }
    }
}

impl<T: RcObject + PartialEq> PartialEq for Rc<T> {""")])
mut("ok-threshold-spelling", "benign", ["C02", "C13"], "is_expired: >= 3 spelled > 2",
    [ed(I, "global_epoch.wrapping_sub(self.epoch) >= 3", "global_epoch.wrapping_sub(self.epoch) > 2")])
mut("ok-increment-strong-cas-loop", "benign", ["C01", "C05"], "increment_strong rewritten as one CAS loop",
    [ed(U, """        let val = State::from_raw(self.state.fetch_add(COUNT, Ordering::SeqCst));
        if val.destructed() {
            return false;
        }
        if val.strong() == 0 {
            // The previous fetch_add created a permission to run decrement again.
            // Now create an actual reference.
            self.state.fetch_add(COUNT, Ordering::SeqCst);
        }
        true""", """        self.try_increment_strong()""")])
mut("ok-closure-hoisted", "benign", ["C01", "C03"], "deferred closure replaced by a named fn item path",
    [ed(U, "guard.defer_with_inner(ptr, |inner| Self::try_dealloc(inner));",
        "guard.defer_with_inner(ptr, |p: *mut Self| { Self::try_dealloc(p) });")])
mut("ok-try-destruct-while", "benign", ["C01", "C05"], "try_destruct's loop spelled differently",
    [ed(U, """            if old.strong() > 0 {
                Self::decrement_strong(ptr, 1, None);
                return;
            }
            match (*ptr).state.compare_exchange(""", """            if old.strong() != 0 {
                Self::decrement_strong(ptr, 1, None);
                return;
            }
            match (*ptr).state.compare_exchange(""")])
mut("ok-store-forget-order", "benign", ["C08"], "AtomicRc::store: forget before swap (as AtomicWeak does)",
    [ed(S, """        let new_ptr = ptr.ptr;
        let old_ptr = self.link.swap(new_ptr.with_timestamp(), order);
        // Skip decrementing a strong count of the inserted pointer.
        forget(ptr);""", """        let new_ptr = ptr.ptr;
        // Skip decrementing a strong count of the inserted pointer.
        forget(ptr);
        let old_ptr = self.link.swap(new_ptr.with_timestamp(), order);""")])
mut("ok-cascade-threshold-4", "benign", ["C02", "C06"], "cascade threshold raised to 4 (more conservative)",
    [ed(U, "curr_epoch as isize - 3)", "curr_epoch as isize - 4)")])

# ---------------------------------------------------------------- patches from independent sub-agents
HERE = os.path.dirname(os.path.abspath(__file__))
VERIF = os.path.dirname(HERE)
import glob
# a break made on top of an agent-written refactoring: the rules must still see it in the restructured code
def combo(id, props, desc, refactor, edits, expect):
    mut("combo-" + id, "break", props, "%s (on top of refactoring %s)" % (desc, refactor),
        [{"patch": "selftest/refactors/%s.diff" % refactor}] + edits, expect)


L = "src/ebr_impl/sync/list.rs"
PT = "src/ebr_impl/pointers.rs"
DF = "src/ebr_impl/deferred.rs"
combo("R5-2-token", ["C01", "C05"], "the closure given to update_state adds 1 even from zero", "R5-2",
      [ed(U, "Some(old.add_strong(if old.strong() == 0 { 2 } else { 1 }))", "Some(old.add_strong(1))")], ["CW-TOKEN"])
combo("R5-2-declines-never", ["C05"], "try_increment_strong's closure no longer declines on DESTRUCTED", "R5-2",
      [ed(U, """            if old.destructed() {
                return None;
            }
            Some(old.add_strong(if""", """            Some(old.add_strong(if""")], ["CW-INC-FAIL-ON-DESTRUCTED"])
combo("R5-3-no-stamp", ["C02"], "the worker no longer stamps the epoch", "R5-3",
      [ed(U, "let marked = curr.with_epoch(epoch).sub_strong(count);", "let marked = curr.sub_strong(count);")],
      ["CW-STAMP-ON-DEC"])
combo("R5-3-always-defers", ["C01", "C04"], "the worker defers try_destruct whenever the count is small", "R5-3",
      [ed(U, "if replaced.strong() == count {", "if replaced.strong() <= count + 1 {")], ["CW-ZERO-DEFERS"])
combo("R7-1-no-reset", ["C14", "C13"], "announce_current_epoch retries without retracting the announcement", "R7-1",
      [ed(I, """                self.epoch.store(Epoch::starting(), Ordering::Release);
                continue;""", """                continue;""")], ["EBR-PIN-VALIDATE"])
combo("R7-1-no-validate", ["C14", "C13"], "announce_current_epoch does not re-read the global epoch", "R7-1",
      [ed(I, "if candidate.value() != global.epoch.load(Ordering::Acquire).value() {", "if false {")], ["EBR-PIN-VALIDATE"])
combo("R7-3-stall-skipped", ["C18", "C13"], "a stalled traversal item is skipped instead of ending the attempt", "R7-3",
      [ed(I, "let local = local.map_err(|IterError::Stalled| global_epoch)?;", "let Ok(local) = local else { continue };"), ed("src/ebr_impl/sync/list.rs", """                    self.pred = self.head;
                    self.curr = self.head.load(Acquire, self.guard);
""", """                    self.curr = RawShared::null();
""")],
      ["EBR-ADVANCE", "EBR-LIST"])
combo("R8-1-swapped", ["C08", "C17", "C18"], "the const-generic cas helper swaps expected and desired in its strong arm", "R8-1",
      [ed(PT, ".compare_exchange(expected, desired, success, failure)", ".compare_exchange(desired, expected, success, failure)")],
      ["WRAP-ATOMICS"])
combo("R8-3-next-once", ["C18"], "insert sets entry.next once before the retry helper instead of on every attempt", "R8-3",
      [ed(L, "            entry.next.store(succ, Relaxed);\n", "            let _ = succ;\n"),
       ed(L, "let first = self.head.load(Relaxed, guard);", "let first = self.head.load(Relaxed, guard);\n        entry.next.store(first, Relaxed);")],
      ["EBR-LIST"])
combo("R8-5-wrong-call", ["C15"], "the inline arm is packed with the Box-reading call", "R8-5",
      [ed(DF, "Self::pack::<F>(f, call_inline::<F>)", "Self::pack::<F>(f, call_boxed::<F>)")], ["EBR-DEFERRED-INLINE"])
combo("R6-4-drop-leaks", ["C04", "C08"], "AtomicRc::drop no longer releases its share", "R6-4",
      [ed(S, """        let ptr = *self.link.get_mut();
        unsafe { ptr.release_strong(1, None) }""", """        let _ptr = *self.link.get_mut();""")], ["OWN-BALANCE"])
combo("R6-4-release-zero", ["C01", "C04"], "Rc::drop releases 0 shares through the helper", "R6-4",
      [ed(S, """    fn drop(&mut self) {
        unsafe { self.ptr.release_strong(1, None) }""", """    fn drop(&mut self) {
        unsafe { self.ptr.release_strong(0, None) }""")], ["CW-DEC-NONZERO", "OWN-BALANCE"])
combo("R6-5-remain-not-updated", ["C10"], "NewRcIter::next no longer writes the decremented remain back", "R6-5",
      [ed(S, "        self.remain = left;\n", "        let _ = left;\n")], ["OWN-BALANCE"])
combo("R7-2-flag-not-set", ["C07", "C16"], "unpin tests the collecting flag without setting it", "R7-2",
      [ed(I, "if !THREAD_COLLECTING.with(Cell::get) && !self.collecting.replace(true) {", "if !THREAD_COLLECTING.with(Cell::get) && !self.collecting.get() {")],
      ["REC-COLLECT-REENTRY", "EBR-COLLECT-OUTERMOST"])
combo("R6-1-no-ptr-eq-retry", ["C08"], "the generic CAS helper reports an epoch-only difference as a failure", "R6-1",
      [ed(S, """                    if current_raw.ptr_eq(expected_raw) {
                        expected_raw = current_raw;
                    } else {
                        let current = Snapshot::from_raw(current_raw, guard);
                        return Err(CompareExchangeError { desired, current });
                    }""", """                    let current = Snapshot::from_raw(current_raw, guard);
                    return Err(CompareExchangeError { desired, current });""")], ["CAS-EPOCH-BLIND"])
combo("R6-1-success-keeps-desired", ["C08", "C01"], "the generic CAS helper does not give up `desired` on success", "R6-1",
      [ed(S, """                    // Skip decrementing a strong count of the inserted pointer.
                    forget(desired);
                    let rc = Rc::from_raw(expected_raw);""", """                    let rc = Rc::from_raw(expected_raw);""")], ["OWN-BALANCE"])

QF2 = "src/ebr_impl/sync/queue.rs"
GF = "src/ebr_impl/guard.rs"
combo("R9-3-defers-dispose", ["C04", "C05"], "decrement_strong defers dispose instead of try_destruct through the free-function wrapper", "R9-3",
      [ed(U, "defer_with_inner(guard, ptr, |inner| Self::try_destruct(inner));", "defer_with_inner(guard, ptr, |inner| dispose(inner));")],
      ["CW-DESTRUCT-ONCE", "CW-ZERO-DEFERS"])
combo("R9-3-direct-call", ["C01", "C02", "C13"], "the cap arm of the cascade calls try_destruct directly instead of deferring it", "R9-3",
      [ed(U, """        defer_with_inner(guard, rc, |rc| RcInner::try_destruct(rc));
        return;""", """        RcInner::try_destruct(rc);
        return;""")], ["CW-DEFERRED-ONLY", "REC-DEPTH-GUARD", "CW-CASCADE-DECISION", "REC-IMMEDIATE"])
combo("R11-2-stall-ignored", ["C18", "C13"], "the `any` closure treats a stalled item as harmless", "R11-2",
      [ed(I, "Err(IterError::Stalled) => true,", "Err(IterError::Stalled) => false,"), ed("src/ebr_impl/sync/list.rs", """                    self.pred = self.head;
                    self.curr = self.head.load(Acquire, self.guard);
""", """                    self.curr = RawShared::null();
""")], ["EBR-ADVANCE", "EBR-LIST"])
combo("R12-1-returns-on-lost-race", ["C17", "C15"], "push returns when the linking CAS lost the race", "R12-1",
      [ed(QF2, """                PushAttempt::Linked => return,
                PushAttempt::TailLagged | PushAttempt::LostRace => {}""", """                PushAttempt::Linked | PushAttempt::LostRace => return,
                PushAttempt::TailLagged => {}""")], ["EBR-QUEUE"])
combo("R11-3-no-repin", ["C16"], "the RAII witness releases the handle without pinning again", "R11-3",
      [ed(GF, "                mem::forget(local.pin());\n", "")], ["EBR-REACTIVATE"])
combo("R9-1-step-1", ["C01", "C05"], "the tuple match adds 1 from zero", "R9-1",
      [ed(U, "(false, 0) => 2,", "(false, 0) => 1,")], ["CW-TOKEN"])
combo("R10-5-counted-from-weak", ["C01", "C05"], "the shared two-RMW helper with_new_count is called on a Weak's pointer", "R10-5",
      [ed(S, "    fn with_new_count(ptr: Raw<T>) -> Self {", "    pub(crate) fn with_new_count(ptr: Raw<T>) -> Self {"),
       ed(W, """        let Some(obj) = (unsafe { self.ptr.as_raw().as_ref() }) else {
            return Some(Rc::from_raw(self.ptr));
        };
        if obj.try_increment_strong() {
            return Some(Rc::from_raw(self.ptr));
        }
        None""", """        let rc = Rc::with_new_count(self.ptr);
        if rc.is_null() || unsafe { self.ptr.deref() }.is_not_destructed() { Some(rc) } else { None }""")],
      ["CW-SPLIT-INC-PROTECTED"])

combo("R17-2-table-11", ["C01", "C05"], "the step table reads [1, 1]: no token from zero", "R17-2",
      [ed(U, "const STRONG_STEP: [u32; 2] = [1, 2];", "const STRONG_STEP: [u32; 2] = [1, 1];")], ["CW-TOKEN"])
combo("R16-5-release-old-test", ["C15", "C20"], "release_handle keeps the test of the OLD value (== 1) on the new one: finalizes with a handle left, never with none", "R16-5",
      [ed(I, "if guard_count == 0 && handle_count == 0 {", "if guard_count == 0 && handle_count == 1 {")], ["EBR-FINALIZE-HANDOFF"])
combo("R16-5-unpin-old-test", ["C13", "C16"], "unpin keeps the test of the OLD value (== 1) on the new one: the epoch is cleared with one guard left", "R16-5",
      [ed(I, """        let guard_count = update(&self.guard_count, |n| n - 1);
        if guard_count == 0 {""", """        let guard_count = update(&self.guard_count, |n| n - 1);
        if guard_count == 1 {""")], ["EBR-GUARD-COUNT"])
combo("R16-3-restores-after-set", ["C15", "C20"], "finalize reads the value to restore after having written the temporary 1", "R16-3",
      [ed(I, "let saved_handle_count = self.handle_count.replace(1);", "self.handle_count.set(1);\n        let saved_handle_count = self.handle_count.get();")], ["EBR-FINALIZE-HANDOFF"])

combo("R20-5-agrees-inverted", ["C13", "C18"], "the tuple match returns early on (true, true) and lets (true, false) pass", "R20-5",
      [ed(I, "                (true, false) => return global_epoch,", "                (true, true) => return global_epoch,"),
       ed(I, "                (false, _) | (true, true) => {}", "                (false, _) | (true, false) => {}")], ["EBR-ADVANCE"])
combo("R20-2-returns-on-err", ["C17"], "the rotated loop of try_pop_if stops re-attempting after the first lost race", "R20-2",
      [ed(QF2, """        while attempt.is_err() {
            backoff.spin();
            attempt = self.pop_if_internal(&condition, guard);
        }""", """        if attempt.is_err() {
            backoff.spin();
            attempt = self.pop_if_internal(&condition, guard);
        }""")], ["EBR-QUEUE"])
combo("R20-3-retry-stale-successor", ["C18"], "the Option-driven insert loop retries with the successor it read first, not the observed one", "R20-3",
      [ed(LF, """            pending = to
                .compare_exchange_weak(next, entry_ptr, Release, Relaxed, guard)
                .err();""", """            pending = to
                .compare_exchange_weak(next, entry_ptr, Release, Relaxed, guard)
                .err()
                .map(|_| next);""")], ["EBR-LIST"])
combo("R19-4-flag-inverted", ["C17", "C18"], "the re-wrap by flag is inverted: a successful CAS is reported as Err", "R19-4",
      [ed(PT, """        if swapped {
            Ok(observed)
        } else {
            Err(observed)
        }
    }

    pub fn compare_exchange_weak""", """        if !swapped {
            Ok(observed)
        } else {
            Err(observed)
        }
    }

    pub fn compare_exchange_weak""")], ["WRAP-ATOMICS"])

combo("R21-2-null-greater", ["C19"], "the spelled-out partial_cmp/cmp sort null AFTER every object", "R21-2",
      [ed(S, """            (true, false) => Some(Less),
            (false, true) => Some(Greater),""", """            (true, false) => Some(Greater),
            (false, true) => Some(Less),""")], ["CMP-DELEGATE"])
combo("R21-2-eq-null-any", ["C19"], "the spelled-out eq treats null as equal to anything", "R21-2",
      [ed(S, "            (true, false) | (false, true) => false,", "            (true, false) | (false, true) => true,")], ["CMP-DELEGATE"])
combo("R21-2-cmp-swapped", ["C19"], "the spelled-out cmp compares other with self for two objects", "R21-2",
      [ed(S, "(false, false) => unsafe { self.deref().cmp(other.deref()) },", "(false, false) => unsafe { other.deref().cmp(self.deref()) },")], ["CMP-DELEGATE"])

# ---- round-7 seeds: the two halves of the PAIR seed S-C09-7 are each behaviour-preserving; only together do they break C09
mut("ok-pair-C09-7-stamp-null", "benign", [], "with_timestamp stamps null words too (a stamped null is still null for every consumer)",
    [ed(S, """        if self.is_null() {
            self
        } else {
            self.with_high_tag(global_epoch())
        }""", "        self.with_high_tag(global_epoch())")])
mut("ok-pair-C09-7-null-no-retry", "benign", [], "AtomicWeak CAS does not retry for a null expected word (no null word carries epoch bits "
    "as long as with_timestamp leaves null alone: rely/guarantee between LINK-STAMP and CAS-EPOCH-BLIND)",
    [ed(W, "if current_raw.ptr_eq(expected_raw) {", "if !expected_raw.is_null() && current_raw.ptr_eq(expected_raw) {", 3)])
mut("pair-C09-7-null-retry-strong-side", "break", ["C08"], "the same pair on AtomicRc: null stamped and no retry for a null expected word",
    [ed(S, """        if self.is_null() {
            self
        } else {
            self.with_high_tag(global_epoch())
        }""", "        self.with_high_tag(global_epoch())"),
     ed(S, "if current_raw.ptr_eq(expected_raw) {", "if !expected_raw.is_null() && current_raw.ptr_eq(expected_raw) {", 3)],
    ["CAS-EPOCH-BLIND"])

# benign twins of the PAIR seed S-C06-7 (selftest/twins/): each part alone keeps the behaviour
mut("ok-twin-C06-7-hardening", "benign", [], "try_destruct returns at once on an already DESTRUCTED word (hardening; the arm is dead)",
    [{"patch": "selftest/twins/C06-7-hardening.diff"}])
mut("ok-twin-C06-7-flatten", "benign", [], "dispose_general_node flattened into guard clauses (`if depth > 0 && !le {defer; return}`), depth cap in place",
    [{"patch": "selftest/twins/C06-7-flatten.diff"}])
mut("ok-twin-C06-7-flatten-hardening", "benign", [], "both of the above",
    [{"patch": "selftest/twins/C06-7-flatten-hardening.diff"}])
mut("handoff-after-mark-debug-assert", "break", ["C04", "C06"], "the cascade marks the node at the depth cap and then defers try_destruct, "
    "whose debug assertion on !destructed fires (debug builds): S-C06-7's second half alone",
    [ed(U, """    if depth >= 1024 {
        // Prevent a potential stack overflow.
        guard.defer_with_inner(rc, |rc| RcInner::try_destruct(rc));
        return;
    }
""", ""),
     ed(U, """        rc.data_mut().pop_edges(&mut outgoings);
        unsafe {""", """        if depth >= 1024 {
            guard.defer_with_inner(rc, |rc| RcInner::try_destruct(rc));
            return;
        }
        rc.data_mut().pop_edges(&mut outgoings);
        unsafe {""")], ["CW-ZERO-DEFERS"])

mut("ok-twin-C05-7-update-state", "benign", [], "the seven CAS loops on the count word folded into one RcInner::update_state(|old| ..) helper "
    "(S-C05-7 with its one slip corrected)", [{"patch": "selftest/twins/C05-7-update-state.diff"}])

QF = "src/ebr_impl/sync/queue.rs"
TW17 = {"patch": "selftest/twins/C17-7-front-popfront.diff"}
mut("ok-twin-C17-7-front-popfront", "benign", [], "queue refactored into front() / pop_front(head, next) / advance_tail, pop_internal and "
    "pop_if_internal gone: the predicate and the CAS use the same front() (S-C17-7 with its slip corrected)", [TW17])
mut("combo-twin-C17-7-lost-race-none", "break", ["C17"], "on top of the twin: try_pop_if answers None after a lost race",
    [TW17, ed(QF, """                return popped;
            }
            backoff.spin();""", """                return popped;
            }
            return None;""")], ["EBR-QUEUE"])
mut("combo-twin-C17-7-read-on-err", "break", ["C17", "C15"], "on top of the twin: pop_front reads the element although the head CAS failed",
    [TW17, ed(QF, """        self.head
            .compare_exchange(head, next, Release, Relaxed, guard)
            .map_err(|_| ())?;

        // Advance the tail so that we don't retire a pointer to a reachable node.
        let tail = self.tail.load(Relaxed, guard);""", """        let _ = self.head
            .compare_exchange(head, next, Release, Relaxed, guard);

        // Advance the tail so that we don't retire a pointer to a reachable node.
        let tail = self.tail.load(Relaxed, guard);""")], ["EBR-QUEUE"])
mut("combo-twin-C17-7-second-front", "break", ["C17"], "on top of the twin: the node to install is re-read after the predicate",
    [TW17, ed(QF, """            if !approved {
                return None;
            }
            if let Ok(popped) = self.pop_front(head, next, guard) {""", """            if !approved {
                return None;
            }
            let (head, next) = self.front(guard);
            if let Ok(popped) = self.pop_front(head, next, guard) {""")], ["EBR-QUEUE"])
mut("combo-twin-C17-7-relaxed-next", "break", ["C17"], "on top of the twin: front() loads next with Relaxed",
    [TW17, ed(QF, "let next = unsafe { head.deref() }.next.load(Acquire, guard);", "let next = unsafe { head.deref() }.next.load(Relaxed, guard);")],
    ["ORD-QUEUE"])

# ---- third mutation sweep (sibling names swapped, adjacent statements swapped, orderings weakened): the holes it found
OL = "src/ebr_impl/sync/once_lock.rs"
mut("ms3-cas-expected-is-desired-weak", "break", ["C09"], "AtomicWeak::compare_exchange compares the cell with desired's word (mutation sweep 3)",
    [ed(W, """    ) -> Result<Weak<T>, CompareExchangeError<Weak<T>, WeakSnapshot<'g, T>>> {
        let mut expected_raw = expected.ptr;""", """    ) -> Result<Weak<T>, CompareExchangeError<Weak<T>, WeakSnapshot<'g, T>>> {
        let mut expected_raw = desired.ptr;""", 2)], ["CAS-EPOCH-BLIND"])
mut("ms3-cas-expected-is-desired-strong", "break", ["C08"], "AtomicRc::compare_exchange(_weak) compares the cell with desired's word (mutation sweep 3)",
    [ed(S, """        let mut expected_raw = expected.ptr;
        let desired_raw = desired.ptr.with_timestamp();""", """        let mut expected_raw = desired.ptr;
        let desired_raw = desired.ptr.with_timestamp();""", 2)], ["CAS-EPOCH-BLIND"])
mut("ms3-weak-ptr-eq-self", "break", ["C09", "C11"], "Weak::ptr_eq / WeakSnapshot::ptr_eq compare a word with itself (mutation sweep 3)",
    [ed(W, "        self.ptr.ptr_eq(other.ptr)", "        other.ptr.ptr_eq(other.ptr)", 2)], ["BIT-DELEGATION"])
mut("ms3-depthcap-try-dealloc", "break", ["C04", "C06", "C07", "C03"], "at the depth cap the cascade defers try_dealloc instead of try_destruct (mutation sweep 3)",
    [ed(U, """        // Prevent a potential stack overflow.
        guard.defer_with_inner(rc, |rc| RcInner::try_destruct(rc));""", """        // Prevent a potential stack overflow.
        guard.defer_with_inner(rc, |rc| RcInner::try_dealloc(rc));""")], ["CW-DESTRUCT-ORDER"])
mut("ms3-acquire-handle-guard-count", "break", ["C16", "C20"], "acquire_handle writes guard_count + 1 into handle_count (mutation sweep 3)",
    [ed(I, """    pub(crate) fn acquire_handle(&self) {
        let handle_count = self.handle_count.get();""", """    pub(crate) fn acquire_handle(&self) {
        let handle_count = self.guard_count.get();""")], ["EBR-CELL-RMW"])
mut("ms3-queue-tail-cas-relaxed", "break", ["C17"], "the CAS that swings the tail to the new node is Relaxed (mutation sweep 3)",
    [ed(QF, ".compare_exchange(onto, new, Release, Relaxed, guard);", ".compare_exchange(onto, new, Relaxed, Relaxed, guard);")], ["ORD-QUEUE"])
mut("ms3-queue-head-cas-relaxed", "break", ["C17"], "the head CAS of the conditional pop is Relaxed (mutation sweep 3)",
    [ed(QF, ".compare_exchange(head, next, Release, Relaxed, guard)", ".compare_exchange(head, next, Relaxed, Relaxed, guard)", 2)], ["ORD-QUEUE"])
mut("ms3-queue-tail-load-relaxed", "break", ["C17"], "push loads the tail it dereferences with Relaxed (mutation sweep 3)",
    [ed(QF, "let tail = self.tail.load(Acquire, guard);", "let tail = self.tail.load(Relaxed, guard);")], ["ORD-QUEUE"])
mut("ms3-oncelock-flag-store-relaxed", "break", ["C18", "C20"], "the default collector's cell publishes its flag with Relaxed (mutation sweep 3)",
    [ed(OL, "is_initialized.store(true, Ordering::Release);", "is_initialized.store(true, Ordering::Relaxed);")], ["EBR-DEFAULT-COLLECTOR"])
mut("ms3-oncelock-flag-load-relaxed", "break", ["C18", "C20"], "the fast path reads the cell's flag with Relaxed (mutation sweep 3)",
    [ed(OL, "self.is_initialized.load(Ordering::Acquire)", "self.is_initialized.load(Ordering::Relaxed)")], ["EBR-DEFAULT-COLLECTOR"])
mut("ok-ms3-queue-pop-tail-load-relaxed", "benign", [], "the tail loaded after the head CAS is only compared, never dereferenced: Relaxed is what the code has",
    [ed(QF, "let tail = self.tail.load(Relaxed, guard);", "let tail = self.tail.load(Acquire, guard);", 2)])

mut("ty-rc-as-ref-unbounded", "break", ["C01"], "Rc::as_ref / Rc::deref return a reference with a lifetime of the caller's choosing",
    [ed(S, "    pub fn as_ref(&self) -> Option<&T> {", "    pub fn as_ref<'a>(&self) -> Option<&'a T> {"),
     ed(S, "    pub unsafe fn deref(&self) -> &T {", "    pub unsafe fn deref<'a>(&self) -> &'a T {")], ["TY-SIG", "TY-REF-BORROW"])
mut("ok-ty-rc-as-ref-explicit-lifetime", "benign", [], "the same signatures with the elided lifetime written out",
    [ed(S, "    pub fn as_ref(&self) -> Option<&T> {", "    pub fn as_ref<'a>(&'a self) -> Option<&'a T> {"),
     ed(S, "    pub unsafe fn deref(&self) -> &T {", "    pub unsafe fn deref<'a>(&'a self) -> &'a T {")])

mut("ok-twin-C03-7-counted-borrowed-clone", "benign", [], "WeakSnapshot::counted duplicates a borrowed ManuallyDrop<Weak> view of its pointer "
    "through Weak::clone, which keeps the from-zero token (first half of the PAIR seed S-C03-7; increment_weak split into "
    "add_weak_refs + token)", [{"patch": "selftest/twins/C03-7-counted-borrowed-clone.diff"}])

mut("ok-pair-C18-7-iter-exhausts", "benign", [], "the list iterator is exhausted after Stalled instead of restarting; try_advance gives up at a "
    "stall anyway (first half of the PAIR seed S-C18-7: rely/guarantee between EBR-LIST and EBR-ADVANCE)",
    [{"patch": "selftest/twins/C18-7-iter-exhausts.diff"}])
mut("ok-pair-C18-7-advance-continues", "benign", [], "try_advance goes on after a stall; the iterator restarts from the head, so the traversal "
    "that ends normally is complete (second half of S-C18-7)", [{"patch": "selftest/twins/C18-7-advance-continues.diff"}])

mut("add-atomicrc-get-mut", "break", ["C02", "C08"], "AtomicRc::get_mut added (the method the authors left commented out as unsound): a pointer can be "
    "written into the link without its stamp",
    [ed(S, """    /// Takes an underlying [`Rc`] from this [`AtomicRc`], leaving a null pointer.
    #[inline]
    pub fn take(&mut self) -> Rc<T> {""", """    /// Returns a mutable reference to the stored `Rc`.
    pub fn get_mut(&mut self) -> &mut Rc<T> {
        unsafe { core::mem::transmute(self.link.get_mut()) }
    }

    /// Takes an underlying [`Rc`] from this [`AtomicRc`], leaving a null pointer.
    #[inline]
    pub fn take(&mut self) -> Rc<T> {""")], ["LINK-STAMP"])
mut("add-rc-try-unwrap", "break", ["C01", "C04"], "Rc::try_unwrap added: moves the payload out and frees the block when strong == 1 - no grace period, no DESTRUCTED mark",
    [ed(U, """    /// Returns an immutable reference to the object.
    pub fn data(&self) -> &T {""", """    pub(crate) fn is_unique(&self) -> bool {
        let st = State::from_raw(self.state.load(Ordering::SeqCst));
        st.strong() == 1 && !st.weaked()
    }

    pub(crate) unsafe fn into_inner(ptr: *mut Self) -> T {
        let b = Box::from_raw(ptr);
        ManuallyDrop::into_inner(b.storage)
    }

    /// Returns an immutable reference to the object.
    pub fn data(&self) -> &T {"""),
     ed(S, "    /// Consumes this pointer and release a strong reference count it was owning.", """    /// Returns the inner value, if the `Rc` has exactly one strong reference and no weak ones.
    pub fn try_unwrap(self) -> Result<T, Self> {
        unsafe {
            match self.ptr.as_raw().as_mut() {
                Some(inner) if inner.is_unique() => {
                    let ptr = self.into_raw();
                    Ok(RcInner::into_inner(ptr.as_raw()))
                }
                _ => Err(self),
            }
        }
    }

    /// Consumes this pointer and release a strong reference count it was owning.""")], ["OWN-BALANCE"])

mut("add-weak-peek", "break", ["C05", "C03"], "Weak::peek added: Option<&T> through a weak handle, under a name the witnesses do not know",
    [ed(W, """    /// Returns `true` if the two pointer values, including the tag values set by `with_tag`,
    /// are identical.
    #[inline]
    pub fn ptr_eq(&self, other: &Self) -> bool {""", """    /// Peeks at the object without upgrading.
    pub fn peek(&self) -> Option<&T> {
        unsafe { self.ptr.as_raw().as_ref().map(|inner| inner.data()) }
    }

    /// Returns `true` if the two pointer values, including the tag values set by `with_tag`,
    /// are identical.
    #[inline]
    pub fn ptr_eq(&self, other: &Self) -> bool {""", 1)], ["TY-SIG"])
mut("ok-add-weak-as-ptr", "benign", [], "Weak::as_ptr added: a raw pointer is not a dereference (std's Weak has it)",
    [ed(W, """    /// Returns `true` if the two pointer values, including the tag values set by `with_tag`,
    /// are identical.
    #[inline]
    pub fn ptr_eq(&self, other: &Self) -> bool {""", """    /// The address of the object (dangling once it is destructed).
    pub fn as_ptr(&self) -> *const T {
        unsafe { self.ptr.as_raw().as_ref().map_or(core::ptr::null(), |inner| inner.data() as *const T) }
    }

    /// Returns `true` if the two pointer values, including the tag values set by `with_tag`,
    /// are identical.
    #[inline]
    pub fn ptr_eq(&self, other: &Self) -> bool {""", 1)])

# breaks on top of the eighth round's refactorings: the tolerance added for them must not blind the rules
combo("R26-5-merge-drops-link", ["C02", "C12"], "the Window helper merges the node stamp twice and the link stamp not at all", "R26-5",
      [ed(U, "Window::open().latest([node_epoch, link_epoch, cnt_curr.epoch()])", "Window::open().latest([node_epoch, node_epoch, cnt_curr.epoch()])")],
      ["CW-CASCADE-MERGE"])
combo("R26-5-age-1", ["C02", "C12"], "the Window helper is asked for an age of 1", "R26-5",
      [ed(U, "window.is_older_by(state.epoch(), 3)", "window.is_older_by(state.epoch(), 1)")], ["CW-CASCADE-DECISION"])
combo("R26-1-token-missing", ["C01", "C05"], "the closure given to replace_word adds 1 even from zero", "R26-1",
      [ed(U, "old.add_strong(if old.strong() == 0 { 2 } else { 1 })", "old.add_strong(1)")], ["CW-TOKEN"])
combo("R26-1-mark-without-zero", ["C04", "C05"], "the closure given to replace_word marks DESTRUCTED whatever the count", "R26-1",
      [ed(U, "(old.strong() == 0).then(|| old.with_destructed(true))", "Some(old.with_destructed(true))")],
      ["CW-ATTEMPT-RECHECK", "CW-DESTRUCT-ONCE"])
combo("R27-1-no-ptr-eq-retry", ["C08"], "the const-generic retry loop reports every failure", "R27-1",
      [ed(S, "                Err(seen) if seen.ptr_eq(compared) => compared = seen,\n", "")], ["CAS-EPOCH-BLIND"])
combo("R25-2-returns-after-helping", ["C17", "C15"], "the inlined push returns after helping the tail along (element lost)", "R25-2",
      [ed(QF, """                self.swing_tail(onto, next, guard);
                continue;""", """                self.swing_tail(onto, next, guard);
                return;""")], ["EBR-QUEUE"])
combo("R25-2-link-relaxed", ["C17"], "the inlined push links with a Relaxed CAS", "R25-2",
      [ed(QF, ".compare_exchange(RawShared::null(), new, Release, Relaxed, guard)", ".compare_exchange(RawShared::null(), new, Relaxed, Relaxed, guard)")],
      ["ORD-QUEUE"])

mut("ok-twin-C19-8-cross-compare", "benign", [], "PartialEq / PartialOrd between Rc and Snapshot, both directions, by as_ref() (S-C19-8 with its null arm "
    "corrected; the reverse eq written as `other == self`)", [{"patch": "selftest/twins/C19-8-cross-compare-correct.diff"}])
mut("ok-twin-C10-8-nth", "benign", [], "NewRcIter::nth releasing min(n, remain) shares and subtracting the same (S-C10-8 corrected), size_hint, "
    "ExactSizeIterator, FusedIterator", [{"patch": "selftest/twins/C10-8-nth-correct.diff"}])

mut("ok-twin-C20-9-collecting-scope", "benign", [], "unpin raises and clears its two flags through an RAII CollectingScope whose Drop clears them; the thread-wide "
    "flag is raised outside the debug assertion (S-C20-9 corrected)", [{"patch": "selftest/twins/C20-9-collecting-scope.diff"}])
mut("dbg-with-closure-replace", "break", ["C20", "C07"], "the thread-wide flag is raised by KEY.with(|c| c.replace(true)) inside a debug_assert! (S-C20-9's slip on the plain tree)",
    [ed(I, "            THREAD_COLLECTING.with(|c| c.set(true));", "            debug_assert!(!THREAD_COLLECTING.with(|c| c.replace(true)));")], ["DBG-PURE"])

# S-C17-9 (COMBINATOR flavour) with its slip corrected: the whole queue in Option/Result/iterator combinators
TW179 = {"patch": "selftest/twins/C17-9-combinator-queue.diff"}
mut("ok-twin-C17-9-combinator-queue", "benign", [], "queue in combinator style: push_internal as .map().or_else().map_or(), push as "
    "`while !push_internal(..) {}`, try_pop / try_pop_if as iter::repeat_with(attempt).find_map(..).flatten(), pop_if_internal as "
    ".filter(pred).map_or(Ok(None), |n| CAS from the examined head) (S-C17-9 with its slip corrected)", [TW179])
mut("combo-twin-C17-9-always-linked", "break", ["C17"], "on top of the twin: push_internal answers true after merely helping the tail",
    [TW179, ed(QF, """                    .compare_exchange(onto, succ, Release, Relaxed, guard);
                linked
            })""", """                    .compare_exchange(onto, succ, Release, Relaxed, guard);
                let _ = linked;
                true
            })""")], ["EBR-QUEUE"])
mut("combo-twin-C17-9-no-filter", "break", ["C17"], "on top of the twin: pop_if_internal without the .filter(predicate)",
    [TW179, ed(QF, """            .filter(|n| condition(unsafe { &*n.data.as_ptr() }))
            .map_or(Ok(None), |n| unsafe {""", """            .filter(|n| { let _ = &condition; !n.data.as_ptr().is_null() })
            .map_or(Ok(None), |n| unsafe {""")], ["EBR-QUEUE"])
mut("combo-twin-C17-9-first-attempt-only", "break", ["C17"], "on top of the twin: try_pop gives up after one lost race (next() instead "
    "of find_map)", [TW179, ed(QF, """        iter::repeat_with(|| self.pop_internal(guard))
            .find_map(Result::ok)
            .flatten()""", """        iter::repeat_with(|| self.pop_internal(guard))
            .next()
            .and_then(Result::ok)
            .flatten()""")], ["EBR-QUEUE"])
mut("combo-twin-C17-9-swing-to-new", "break", ["C17"], "on top of the twin: the tail is swung to the new node even when it was not linked",
    [TW179, ed(QF, """                    .compare_exchange(onto, succ, Release, Relaxed, guard);
                linked""", """                    .compare_exchange(onto, { let _ = succ; new }, Release, Relaxed, guard);
                linked""")], ["EBR-QUEUE"])

# S-C11-9 (MACRO/COMBINATOR flavour) with its slip corrected: null tests through Tagged::as_ref / a new Tagged::as_mut that
# tests the untagged address, handles' as_ref as `.map(RcInner::data)`, upgrade as `.map_or(true, RcInner::f).then(..)`
TW119 = {"patch": "selftest/twins/C11-9-tagged-as-mut.diff"}
mut("ok-twin-C11-9-tagged-as-mut", "benign", [], "null tests of every handle rewritten through Tagged::as_ref and a new Tagged::as_mut "
    "(`(!self.is_null()).then(..)`), with_timestamp as `.then(..).unwrap_or(self)`, Rc/Snapshot::as_ref as "
    "`self.ptr.as_ref().map(RcInner::data)`, upgrade as `.map_or(true, RcInner::try_increment_strong).then(..)` "
    "(S-C11-9 with its slip corrected)", [TW119])
mut("combo-twin-C11-9-drop-no-decrement", "break", ["C08", "C03"], "on top of the twin: AtomicRc::drop tests the link but does not release the share",
    [TW119, ed("src/strong.rs", """            if let Some(cnt) = self.link.get_mut().as_mut() {
                RcInner::decrement_strong(cnt, 1, None);
            }""", """            let _ = self.link.get_mut().as_mut();""")], ["OWN-BALANCE"])
mut("combo-twin-C11-9-upgrade-no-increment", "break", ["C05", "C03"], "on top of the twin: Weak::upgrade consults is_not_destructed (a read) "
    "instead of try_increment_strong and hands out an Rc", [TW119, ed("src/weak.rs", """            .map_or(true, RcInner::try_increment_strong)
            .then(|| Rc::from_raw(self.ptr))""", """            .map_or(true, RcInner::is_not_destructed)
            .then(|| Rc::from_raw(self.ptr))""")], ["OWN-BALANCE"])
mut("combo-twin-C11-9-snapshot-upgrade-unchecked", "break", ["C05"], "on top of the twin: WeakSnapshot::upgrade answers Some whatever the count "
    "word says", [TW119, ed("src/weak.rs", """            .map_or(true, RcInner::is_not_destructed)
            .then_some(Snapshot {""", """            .map_or(true, |_| true)
            .then_some(Snapshot {""")], ["CW-INC-FAIL-ON-DESTRUCTED"])
mut("combo-twin-C11-9-as-ref-inverted-deref", "break", ["C11", "C19"], "on top of the twin: Tagged::as_ref tests the packed word",
    [TW119, ed("src/ebr_impl/pointers.rs", "(!self.is_null()).then(|| self.deref())", "(!self.ptr.is_null()).then(|| self.deref())")],
    ["BIT-DELEGATION"])

# function items handed to combinators are inlined like closures: the share they add is seen (or missed) by the ledger
_CL_OLD = """        unsafe {
            if let Some(cnt) = rc.ptr.as_raw().as_ref() {
                cnt.increment_strong();
            }
        }
        rc
    }
}

impl<T: RcObject> Rc<T> {"""
mut("ok-fnitem-clone-increment", "benign", [], "Rc::clone increments through `.as_ref().map(RcInner::increment_strong)` (a function item, no call "
    "terminator in clone itself)", [ed("src/strong.rs", _CL_OLD, _CL_OLD.replace("""            if let Some(cnt) = rc.ptr.as_raw().as_ref() {
                cnt.increment_strong();
            }""", """            let _ = rc.ptr.as_raw().as_ref().map(RcInner::increment_strong);"""))])
mut("fnitem-clone-reads-only", "break", ["C03", "C01"], "Rc::clone maps a read (RcInner::is_not_destructed) instead of the increment over the "
    "referent: a second owner without a share", [ed("src/strong.rs", _CL_OLD, _CL_OLD.replace("""            if let Some(cnt) = rc.ptr.as_raw().as_ref() {
                cnt.increment_strong();
            }""", """            let _ = rc.ptr.as_raw().as_ref().map(RcInner::is_not_destructed);"""))], ["OWN-BALANCE"])

# S-C06-9 (RELEASE flavour) with its slip corrected: four CAS loops as std fetch_update, the closure assigning the installed
# word / the zero-hit to a captured `let mut` that the caller reads afterwards; the result checked OUTSIDE the debug assertion
TW069 = {"patch": "selftest/twins/C06-9-fetch-update-captured.diff"}
mut("ok-twin-C06-9-fetch-update-captured", "benign", [], "try_increment_strong, is_not_destructed, decrement_strong and the cascade's link release "
    "as `state.fetch_update(.., |raw| { ..; captured = ..; Some(..) })`, `let updated = ..; debug_assert!(updated.is_ok())` "
    "(S-C06-9 with its slip corrected): what the closure writes through the captured `&mut` is what the caller reads", [TW069])
mut("combo-twin-C06-9-no-decrement", "break", ["C06", "C03"], "on top of the twin: the cascade's closure merges the stamp but forgets sub_strong(1)",
    [TW069, ed("src/utils.rs", "next_cnt = cnt_curr.sub_strong(1).with_epoch(next_epoch as _);",
               "next_cnt = cnt_curr.with_epoch(next_epoch as _);")], ["OWN-BALANCE", "CW-CASCADE-DECISION", "CW-CASCADE-MERGE", "CW-SITES"])
mut("combo-twin-C06-9-decides-on-observed", "break", ["C06", "C03"], "on top of the twin: the captured variable receives the OBSERVED word, so "
    "the zero test looks at the count before the decrement", [TW069, ed("src/utils.rs", """                    next_cnt = cnt_curr.sub_strong(1).with_epoch(next_epoch as _);
                    Some(next_cnt.as_raw())""", """                    next_cnt = cnt_curr;
                    Some(cnt_curr.sub_strong(1).with_epoch(next_epoch as _).as_raw())""")], ["CW-ZERO-DEFERS"])

# std's fetch_update on the count word (round-9 seeds used it twice): modelled as the CAS loop it is
mut("ok-fetch-update-try-increment", "benign", [], "try_increment_strong written with AtomicU64::fetch_update",
    [ed(U, '        let mut old = State::from_raw(self.state.load(Ordering::SeqCst));\n        loop {\n            if old.destructed() {\n                return false;\n            }\n            let new = if old.strong() == 0 {\n                old.add_strong(2)\n            } else {\n                old.add_strong(1)\n            };\n            match self.state.compare_exchange(\n                old.as_raw(),\n                new.as_raw(),\n                Ordering::SeqCst,\n                Ordering::SeqCst,\n            ) {\n                Ok(_) => return true,\n                Err(curr) => old = State::from_raw(curr),\n            }\n        }', '        self.state\n            .fetch_update(Ordering::SeqCst, Ordering::SeqCst, |raw| {\n                let old = State::from_raw(raw);\n                if old.destructed() {\n                    return None;\n                }\n                let new = if old.strong() == 0 {\n                    old.add_strong(2)\n                } else {\n                    old.add_strong(1)\n                };\n                Some(new.as_raw())\n            })\n            .is_ok()')])
mut("fetch-update-token-missing", "break", ["C01", "C05"], "the same, the closure adding 1 even from zero",
    [ed(U, '        let mut old = State::from_raw(self.state.load(Ordering::SeqCst));\n        loop {\n            if old.destructed() {\n                return false;\n            }\n            let new = if old.strong() == 0 {\n                old.add_strong(2)\n            } else {\n                old.add_strong(1)\n            };\n            match self.state.compare_exchange(\n                old.as_raw(),\n                new.as_raw(),\n                Ordering::SeqCst,\n                Ordering::SeqCst,\n            ) {\n                Ok(_) => return true,\n                Err(curr) => old = State::from_raw(curr),\n            }\n        }', '        self.state\n            .fetch_update(Ordering::SeqCst, Ordering::SeqCst, |raw| {\n                let old = State::from_raw(raw);\n                if old.destructed() {\n                    return None;\n                }\n                Some(old.add_strong(1).as_raw())\n            })\n            .is_ok()')], ["CW-TOKEN"])

mut("tagged-as-ref-packed-null-test", "break", ["C11"], "Tagged::as_ref tests the packed word for null: a tagged or stamped null is dereferenced",
    [ed("src/ebr_impl/pointers.rs", """    pub unsafe fn as_ref<'g>(&self) -> Option<&'g T> {
        if self.is_null() {""", """    pub unsafe fn as_ref<'g>(&self) -> Option<&'g T> {
        if self.ptr.is_null() {""")], ["BIT-DELEGATION"])

mut("ok-twin-C05-9-update-state-macro", "benign", [], "all seven count-word CAS loops through one update_state!(word, |old| new [, stamp = e]) macro whose "
    "'nothing to change: do not write' early exit comes after the stamp was applied (S-C05-9 corrected): a skipped identical write is a "
    "virtual CAS", [{"patch": "selftest/twins/C05-9-update-state-macro.diff"}])
mut("ok-dbg-assert-reads-clock", "benign", [], "a debug assertion that reads the global epoch",
    [ed(U, "    let curr_epoch = global_epoch();\n    let modu: Modular<EPOCH_WIDTH> = Modular::new(curr_epoch as isize + 1);",
        "    let curr_epoch = global_epoch();\n    debug_assert!(curr_epoch <= global_epoch());\n    let modu: Modular<EPOCH_WIDTH> = Modular::new(curr_epoch as isize + 1);")])

# behaviour-preserving refactorings written by sub-agents told to keep every interleaving's behaviour (selftest/refactors/)
for f in sorted(glob.glob(os.path.join(HERE, "refactors", "*.diff"))):
    name = os.path.basename(f)[:-5]
    mut("ok-agent-" + name, "benign", [], "independent behaviour-preserving refactoring %s (see refactors/%s-NOTES.md)" % (name, name.split("-")[0]),
        [{"patch": os.path.relpath(f, VERIF)}])
# breaking changes seeded by sub-agents given only a property text (seeded/*/patch.diff): regression entries
for mp in sorted(glob.glob(os.path.join(VERIF, "seeded", "*", "meta.json"))):
    m = json.load(open(mp))
    if not m.get("caught_by"):
        continue
    sd = os.path.dirname(mp)
    mut("seed-" + m["id"], "break", [m["property"]], "seeded change %s: %s" % (m["id"], m.get("change", "")[:160]),
        [{"patch": os.path.relpath(os.path.join(sd, "patch.diff"), VERIF)}], m["caught_by"])

os.makedirs(os.path.dirname(os.path.abspath(__file__)), exist_ok=True)
with open(os.path.join(os.path.dirname(os.path.abspath(__file__)), "corpus.json"), "w") as f:
    json.dump({"mutants": M}, f, indent=1)
print(len(M), "mutants")
