//! A Snapshot taken by a destructor (under a guard of its own) is not protected: every flush / bag overflow that the
//! destructor causes while the thread is collecting re-pins the thread (Local::schedule_collection).
use circ::{cs, AtomicRc, Rc, RcObject};
use std::sync::atomic::{AtomicBool, AtomicUsize, Ordering::SeqCst};
use std::sync::mpsc::{channel, Receiver, Sender};
use std::sync::{Arc, Mutex};

static VICTIM_DROPPED: AtomicBool = AtomicBool::new(false);
static VIOLATION_ROUND: AtomicUsize = AtomicUsize::new(usize::MAX);
static TRIGGER_RAN: AtomicBool = AtomicBool::new(false);

struct Victim;
unsafe impl RcObject for Victim {
    fn pop_edges(&mut self, _: &mut Vec<Rc<Self>>) {}
}
impl Drop for Victim {
    fn drop(&mut self) {
        VICTIM_DROPPED.store(true, SeqCst);
    }
}

struct Filler;
unsafe impl RcObject for Filler {
    fn pop_edges(&mut self, _: &mut Vec<Rc<Self>>) {}
}

struct Chan {
    to_helper: Sender<u32>,
    from_helper: Receiver<u32>,
}

struct Trigger {
    slot: Arc<AtomicRc<Victim>>,
    chan: Arc<Mutex<Chan>>,
}
unsafe impl RcObject for Trigger {
    fn pop_edges(&mut self, _: &mut Vec<Rc<Self>>) {}
}
impl Drop for Trigger {
    fn drop(&mut self) {
        TRIGGER_RAN.store(true, SeqCst);
        let chan = self.chan.lock().unwrap();
        // an ordinary critical section inside a destructor
        let g = cs();
        let snap = self.slot.load(SeqCst, &g);
        assert!(!snap.is_null());
        // the helper unlinks the victim now (its last strong reference goes away)
        chan.to_helper.send(1).unwrap();
        chan.from_helper.recv().unwrap();
        for round in 0..40 {
            // release 64 counted references: the 64th decrement flushes
            for _ in 0..64 {
                drop(Rc::new(Filler));
            }
            // let the helper try to advance the epoch and collect
            chan.to_helper.send(2).unwrap();
            chan.from_helper.recv().unwrap();
            if VICTIM_DROPPED.load(SeqCst) {
                // `snap` is still alive and `g` was neither dropped nor reactivated
                VIOLATION_ROUND.store(round, SeqCst);
                break;
            }
        }
        let _ = snap;
        chan.to_helper.send(0).unwrap();
        drop(g);
    }
}

#[test]
fn snapshot_taken_in_destructor_stays_valid() {
    let slot = Arc::new(AtomicRc::new(Victim));
    let (to_helper, helper_rx) = channel::<u32>();
    let (helper_tx, from_helper) = channel::<u32>();
    let chan = Arc::new(Mutex::new(Chan { to_helper, from_helper }));

    let slot2 = slot.clone();
    let helper = std::thread::spawn(move || {
        while let Ok(cmd) = helper_rx.recv() {
            match cmd {
                0 => break,
                1 => {
                    let g = cs();
                    slot2.store(Rc::null(), SeqCst, &g);
                    drop(g);
                    helper_tx.send(1).unwrap();
                }
                _ => {
                    for _ in 0..4 {
                        let g = cs();
                        g.flush();
                        drop(g);
                    }
                    helper_tx.send(2).unwrap();
                }
            }
        }
    });

    // retire the trigger and collect until its destructor has run (inside this thread's collection)
    drop(Rc::new(Trigger { slot: slot.clone(), chan: chan.clone() }));
    for _ in 0..64 {
        if TRIGGER_RAN.load(SeqCst) {
            break;
        }
        let g = cs();
        g.flush();
        drop(g);
    }
    assert!(TRIGGER_RAN.load(SeqCst), "trigger destructor did not run");
    helper.join().unwrap();
    let r = VIOLATION_ROUND.load(SeqCst);
    assert!(
        r == usize::MAX,
        "the victim was destructed in round {r} while a Snapshot of it, taken under a live guard inside a destructor, was still in use"
    );
}
