//! A guard created by a destructor during a collection and kept alive (here: parked in a thread-local) must keep the
//! thread pinned; unpin used to write back the guard count it had read before the collection.
use circ::{cs, Guard, Rc, RcObject};
use std::cell::RefCell;
use std::sync::atomic::{AtomicBool, Ordering::SeqCst};

static RAN: AtomicBool = AtomicBool::new(false);
thread_local! { static PARKED: RefCell<Option<Guard>> = RefCell::new(None); }

struct Parker;
unsafe impl RcObject for Parker {
    fn pop_edges(&mut self, _: &mut Vec<Rc<Self>>) {}
}
impl Drop for Parker {
    fn drop(&mut self) {
        RAN.store(true, SeqCst);
        PARKED.with(|p| *p.borrow_mut() = Some(cs()));
    }
}

#[test]
fn guard_created_in_destructor_is_counted() {
    std::thread::spawn(|| {
        drop(Rc::new(Parker));
        for _ in 0..64 {
            if RAN.load(SeqCst) {
                break;
            }
            let g = cs();
            g.flush();
            drop(g);
        }
        assert!(RAN.load(SeqCst));
        // the parked guard is still alive: dropping it must be an ordinary unpin
        let g = PARKED.with(|p| p.borrow_mut().take()).unwrap();
        drop(g);
        // and the thread must be able to pin again
        drop(cs());
    })
    .join()
    .expect("dropping a guard that a destructor created panicked");
}
