//! A4 finding 2 (outside the assigned C08/C09/C11/C19, reported as an extra):
//!
//! `dispose_general_node` computes `curr_epoch` / `modu` (the window in which the 4-bit stamps
//! are interpreted) ONCE per frame, before the loop over the popped edges, but the loop recurses
//! into each child's whole subtree, and the cascade re-pins the thread every 128 nodes
//! (`repin_without_collect`), so the global epoch may advance arbitrarily far while the frame
//! is still iterating. For a *later* child the frame then interprets the child's count stamp in a
//! stale window: a stamp that is >= 3 epochs newer than the frame's `curr_epoch` wraps around and
//! is read as ~13 epochs OLD. `modu.max` therefore drops it, overwrites the child's recent stamp
//! by the parent's old one, and the child is "immediately reclaimable" although a reference to it
//! was removed from a shared cell only just now and a pinned thread still holds a `Snapshot`
//! loaded from that cell.
//!
//! Schedule (destructors of the leaves are used as synchronisation points; that is legal user
//! code):
//!
//!   R = { leaf_0 .. leaf_599, B }        B is also stored in the shared cell X  (B.strong == 2)
//!   main      : drop(R) @e, 3 collections -> R destructed at curr0 = e+3, cascade starts;
//!               frame of R: modu = window ending at curr0+1
//!   leaf_i    : destructor hands over to `helper`, which runs one collection (try_advance).
//!               Thanks to the re-pin every 128 nodes the global epoch climbs to >= curr0+3.
//!   leaf_599  : additionally hands over to T3:  T3 pins @now, sB = X.load(), X.store(null)
//!               (B.strong 2 -> 1, stamped `now`), T3 stays pinned and keeps sB.
//!   main      : next edge of R is B: stamp `now` is misread as ancient, B.strong 1 -> 0 with
//!               R's old stamp, B is destructed on the spot.
//!   T3        : still pinned, still holds sB -> B's destructor has already run.

use circ::{cs, AtomicRc, Rc, RcObject};
use std::sync::atomic::Ordering::SeqCst;
use std::sync::atomic::{AtomicBool, AtomicUsize};

/// 600 leaves = 4 re-pins inside the cascade. Control experiment: `A4_LEAVES=20` (no re-pin, the
/// epoch can advance by at most one, the stamp is read correctly) makes the test pass.
fn leaves() -> usize {
    std::env::var("A4_LEAVES")
        .ok()
        .and_then(|v| v.parse().ok())
        .unwrap_or(600)
}

static REQ: AtomicUsize = AtomicUsize::new(0);
static ACK: AtomicUsize = AtomicUsize::new(0);
static STOP: AtomicBool = AtomicBool::new(false);
static PHASE2_REQ: AtomicBool = AtomicBool::new(false);
static PHASE2_ACK: AtomicBool = AtomicBool::new(false);
static FINISH: AtomicBool = AtomicBool::new(false);
static B_DROPPED: AtomicBool = AtomicBool::new(false);
static LEAVES_DROPPED_INLINE: AtomicUsize = AtomicUsize::new(0);
static CASCADE_ACTIVE: AtomicBool = AtomicBool::new(false);
thread_local! {
    static IS_CASCADING_THREAD: std::cell::Cell<bool> = const { std::cell::Cell::new(false) };
}

enum Kind {
    Root,
    Leaf(usize),
    B,
    Dummy,
}
struct Node {
    kind: Kind,
    children: Vec<AtomicRc<Node>>,
}
unsafe impl RcObject for Node {
    fn pop_edges(&mut self, out: &mut Vec<Rc<Self>>) {
        for c in self.children.iter_mut() {
            out.push(c.take());
        }
    }
}
fn wait(f: impl Fn() -> bool) {
    while !f() {
        std::thread::yield_now();
    }
}
impl Drop for Node {
    fn drop(&mut self) {
        match self.kind {
            Kind::Leaf(i) => {
                // Only a leaf destructed inline by the cascade takes part in the schedule (a leaf
                // that was deferred instead is destructed later, by anybody).
                if !(CASCADE_ACTIVE.load(SeqCst) && IS_CASCADING_THREAD.with(|c| c.get())) {
                    return;
                }
                LEAVES_DROPPED_INLINE.fetch_add(1, SeqCst);
                // let the helper try to advance the global epoch once
                let r = REQ.fetch_add(1, SeqCst) + 1;
                wait(|| ACK.load(SeqCst) >= r);
                if i == leaves() - 1 {
                    PHASE2_REQ.store(true, SeqCst);
                    wait(|| PHASE2_ACK.load(SeqCst));
                }
            }
            Kind::B => B_DROPPED.store(true, SeqCst),
            _ => {}
        }
    }
}
fn node(kind: Kind) -> Node {
    Node {
        kind,
        children: Vec::new(),
    }
}

fn collect_once() {
    let g = cs();
    g.flush();
}

/// Diagnostics only (peeks at the raw word of an `Rc`; not used for any assertion): the current
/// global epoch modulo 16, obtained from the stamp a `swap` leaves on the pointer.
fn stamp_now() -> usize {
    let c = AtomicRc::new(node(Kind::Dummy));
    drop(c.swap(Rc::new(node(Kind::Dummy)), SeqCst));
    let b = c.swap(Rc::null(), SeqCst);
    (unsafe { std::mem::transmute_copy::<Rc<Node>, usize>(&b) }) >> 60
}

#[test]
fn cascade_interprets_stamps_of_later_children_in_a_stale_window() {
    for _ in 0..37 {
        collect_once();
    }

    // The shared cell X and the tree. Everything is stamped at one epoch E (links by `store`,
    // counts by dropping an extra clone), so that no stamp of the set-up is ever ambiguous
    // modulo 16 during the test: the cascade runs in E+4 ..= E+10.
    let x: &'static AtomicRc<Node> = Box::leak(Box::new(AtomicRc::null()));
    let mut root = node(Kind::Root);
    for _ in 0..=leaves() {
        root.children.push(AtomicRc::null());
    }
    let r = Rc::new(root);
    {
        let g = cs(); // @E
        let links = &r.as_ref().unwrap().children;
        for i in 0..leaves() {
            let leaf = Rc::new(node(Kind::Leaf(i)));
            let extra = leaf.clone();
            links[i].store(leaf, SeqCst, &g);
            extra.finalize(&g);
        }
        let b = Rc::new(node(Kind::B));
        links[leaves()].store(b.clone(), SeqCst, &g);
        x.store(b, SeqCst, &g);
    } // -> E+1
    IS_CASCADING_THREAD.with(|c| c.set(true));

    let helper = std::thread::spawn(|| {
        let mut done = 0;
        loop {
            wait(|| REQ.load(SeqCst) > done || STOP.load(SeqCst));
            if STOP.load(SeqCst) {
                break;
            }
            collect_once();
            done += 1;
            ACK.store(done, SeqCst);
        }
    });
    let t3 = std::thread::spawn(move || {
        wait(|| PHASE2_REQ.load(SeqCst));
        let g = cs();
        let now = stamp_now();
        let sb = x.load(SeqCst, &g);
        assert!(!sb.is_null());
        assert!(!B_DROPPED.load(SeqCst));
        // remove B from the shared cell: B.strong 2 -> 1, stamped with the current epoch
        x.store(Rc::null(), SeqCst, &g);
        PHASE2_ACK.store(true, SeqCst);
        wait(|| FINISH.load(SeqCst));
        // still pinned, `sb` still alive
        let dropped = B_DROPPED.load(SeqCst);
        let _keep = (&sb, &g);
        (dropped, now)
    });

    // main: unlink R @e and let its bag expire
    {
        let g = cs();
        r.finalize(&g);
        g.flush();
    } // e -> e+1
    collect_once(); // -> e+2
    assert_eq!(LEAVES_DROPPED_INLINE.load(SeqCst), 0);
    let before = stamp_now();
    CASCADE_ACTIVE.store(true, SeqCst);
    collect_once(); // -> e+3 = curr0: R destructed, the cascade runs inside this call
    CASCADE_ACTIVE.store(false, SeqCst);
    let after = stamp_now();
    let n_inline = LEAVES_DROPPED_INLINE.load(SeqCst);
    FINISH.store(true, SeqCst);
    let (b_dropped_while_snapshot_alive, t3_epoch) = t3.join().unwrap();
    STOP.store(true, SeqCst);
    helper.join().unwrap();
    eprintln!(
        "epoch%16 before the cascade: {before} (+1 inside), when T3 unlinked B: {t3_epoch}, \
         after: {after}; leaves destructed inline: {n_inline}"
    );
    assert_eq!(n_inline, leaves(), "schedule broken: the cascade did not run as planned");
    assert!(
        !b_dropped_while_snapshot_alive,
        "B was destructed by the cascade although it had been removed from the shared cell X \
         only in the current epoch and T3 is still pinned with a Snapshot loaded from X"
    );

    // B must still be reclaimed afterwards.
    for _ in 0..100 {
        if B_DROPPED.load(SeqCst) {
            break;
        }
        collect_once();
    }
    assert!(B_DROPPED.load(SeqCst), "B leaked");
}
