//! Audit D2 / candidate 1 (C06): a chain whose links were written in different epochs (a list that
//! grew over time) is reclaimed in a number of epochs proportional to its length.
use circ::{cs, AtomicRc, Rc, RcObject};
use std::sync::atomic::{AtomicUsize, Ordering::*};

static DROPS: AtomicUsize = AtomicUsize::new(0);
struct Node { next: AtomicRc<Node> }
unsafe impl RcObject for Node {
    fn pop_edges(&mut self, out: &mut Vec<Rc<Self>>) { out.push(self.next.take()); }
}
impl Drop for Node { fn drop(&mut self) { DROPS.fetch_add(1, SeqCst); } }

/// One collection round: flush + leave the critical section (advances the epoch by one when no
/// other thread is pinned).
fn round() { let g = cs(); g.flush(); drop(g); }

fn rounds_to_reclaim(n: usize, epochs_per_link: usize) -> usize {
    // Build head -> ... -> tail, linking one node per `epochs_per_link` epochs (0 = same epoch).
    let mut head: Rc<Node> = Rc::null();
    for i in 0..n {
        let node = Rc::new(Node { next: AtomicRc::null() });
        { let g = cs(); node.as_ref().unwrap().next.store(head, SeqCst, &g); }
        head = node;
        if epochs_per_link > 0 && i % 1 == 0 { for _ in 0..epochs_per_link { round(); } }
    }
    // Make every link "at least a few epochs old" (here: at least 40).
    for _ in 0..40 { round(); }
    let d0 = DROPS.load(SeqCst);
    drop(head);
    let mut rounds = 0;
    while DROPS.load(SeqCst) - d0 < n { round(); rounds += 1; assert!(rounds < 1_000_000); }
    rounds
}

#[test]
fn chain_grown_over_time_needs_linear_epochs() {
    let n = 4000;
    let same = rounds_to_reclaim(n, 0);
    let grown = rounds_to_reclaim(n, 1);
    let grown3 = rounds_to_reclaim(n, 3);
    println!("n={n}: links written in one epoch: {same} rounds; one link per epoch: {grown} rounds; one link per 3 epochs: {grown3} rounds");
    let n2 = 2 * n;
    let grown_2n = rounds_to_reclaim(n2, 1);
    println!("n={n2}: one link per epoch: {grown_2n} rounds");
    // C06: a small constant plus n/1024 (each 1024-segment costs one deferral, i.e. ~3-6 epochs).
    let bound = 20 + 6 * (n / 1024 + 1);
    assert!(same <= bound, "fresh chain: {same} > {bound}");
    assert!(grown <= bound, "chain grown over time: {grown} rounds > {bound} (n = {n})");
}
