//! Audit D2 / candidate 1 (exploration of the cause).
use circ::{cs, AtomicRc, Rc, RcObject};
use std::sync::atomic::{AtomicUsize, Ordering::*};
static DROPS: AtomicUsize = AtomicUsize::new(0);
struct Node { next: AtomicRc<Node> }
unsafe impl RcObject for Node { fn pop_edges(&mut self, out: &mut Vec<Rc<Self>>) { out.push(self.next.take()); } }
impl Drop for Node { fn drop(&mut self) { DROPS.fetch_add(1, SeqCst); } }
fn round() { let g = cs(); g.flush(); drop(g); }
fn run(n: usize, stamped_links: bool, epochs_per_link: usize, every: usize, touch_counts: bool) -> usize {
    let mut head: Rc<Node> = Rc::null();
    for i in 0..n {
        let node = if stamped_links {
            let node = Rc::new(Node { next: AtomicRc::null() });
            { let g = cs(); node.as_ref().unwrap().next.store(head, SeqCst, &g); }
            node
        } else { Rc::new(Node { next: AtomicRc::from(head) }) };
        if touch_counts { drop(node.clone()); }
        head = node;
        if i % every == 0 { for _ in 0..epochs_per_link { round(); } }
    }
    for _ in 0..40 { round(); }
    let d0 = DROPS.load(SeqCst);
    drop(head);
    let mut rounds = 0;
    while DROPS.load(SeqCst) - d0 < n { round(); rounds += 1; assert!(rounds < 1_000_000); }
    rounds
}
#[test]
fn explore() {
    let n = 4000;
    println!("unstamped links, 1 epoch/node, fresh counts : {}", run(n, false, 1, 1, false));
    println!("stamped links, all in one epoch             : {}", run(n, true, 0, 1, false));
    println!("stamped links, 1 epoch/node                 : {}", run(n, true, 1, 1, false));
    println!("unstamped links, 1 epoch/node, counts touched: {}", run(n, false, 1, 1, true));
    println!("stamped links, 1 epoch per 100 nodes        : {}", run(n, true, 1, 100, false));
    println!("stamped links, 1 epoch per 16 nodes         : {}", run(n, true, 1, 16, false));
    println!("stamped links, 16 epochs per node           : {}", run(n, true, 16, 1, false));
    println!("stamped links, 5 epochs per node           : {}", run(n, true, 5, 1, false));
}
