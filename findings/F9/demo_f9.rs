use circ::cs;
use std::cell::RefCell;

struct Late;
impl Drop for Late {
    fn drop(&mut self) {
        // the thread's HANDLE is gone by now: cs() registers a temporary participant
        let mut g = cs();
        g.reactivate();
        drop(g);
    }
}
thread_local! { static LATE: RefCell<Option<Late>> = RefCell::new(None); }

#[test]
fn reactivate_in_late_destructor() {
    std::thread::spawn(|| {
        // initialise LATE first so that it is destroyed after circ's HANDLE
        LATE.with(|l| *l.borrow_mut() = Some(Late));
        let _g = cs();
    })
    .join()
    .unwrap();
}

struct Late2;
impl Drop for Late2 {
    fn drop(&mut self) {
        let mut g = cs();
        let v = g.reactivate_after(|| 7);
        assert_eq!(v, 7);
        drop(g);
    }
}
thread_local! { static LATE2: RefCell<Option<Late2>> = RefCell::new(None); }

#[test]
fn reactivate_after_in_late_destructor() {
    std::thread::spawn(|| {
        LATE2.with(|l| *l.borrow_mut() = Some(Late2));
        let _g = cs();
    })
    .join()
    .unwrap();
}
