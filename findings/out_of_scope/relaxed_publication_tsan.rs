//! B4-1 (memory model; C01/C02, and C04 through the count word): the safe API lets the *user* pick the
//! `Ordering` of every `AtomicRc`/`AtomicWeak` operation, passes it unchanged to the atomic, and
//! then lets him dereference the result with the *safe* `as_ref()` / touch the count word with
//! `counted()`, `upgrade()`, `drop` ... (the README example uses `Relaxed` everywhere). Nothing
//! orders the initialisation of a new object (its fields AND its count word, both written by plain
//! stores in `RcInner::alloc`) before those accesses -> data race from safe code.
//! (crossbeam-epoch keeps `Shared::deref` `unsafe` for precisely this reason.)
//!
//! x86-64 hardware hides the effect, so these tests only FAIL under ThreadSanitizer:
//!
//!   TSAN_OPTIONS=halt_on_error=1 RUSTFLAGS="-Zsanitizer=thread" cargo +nightly test --offline \
//!       -Zbuild-std --target x86_64-unknown-linux-gnu --test audit_b4_1 -- --test-threads=1
//!
//! With FIX-1 (loads/failure orderings at least Acquire, store/swap/CAS-success at least AcqRel)
//! TSan is silent.
//!
//! (The `sleep` only keeps the publishing thread alive and *quiet* until the other one is finished:
//! TSan silently drops a report when it cannot restore the stack of the older access, which
//! happens when that thread has exited or has produced many events since. Sleeping adds no
//! happens-before edge.)
use circ::{cs, AtomicRc, Rc, RcObject};
use std::time::Duration;
use std::sync::atomic::Ordering::{Relaxed, Release};

struct Node {
    item: [u64; 8], // plain, non-atomic payload
}
unsafe impl RcObject for Node {
    fn pop_edges(&mut self, _: &mut Vec<Rc<Self>>) {}
}

/// README style: `Relaxed` publication, `Relaxed` load, safe dereference.
#[test]
fn relaxed_publication_is_a_data_race_in_safe_code() {
    let cell: AtomicRc<Node> = AtomicRc::null();
    let sum = std::thread::scope(|s| {
        s.spawn(|| {
            let g = cs();
            cell.store(Rc::new(Node { item: [7; 8] }), Relaxed, &g);
            std::thread::sleep(Duration::from_millis(300));
        });
        let reader = s.spawn(|| loop {
            let g = cs();
            if let Some(n) = cell.load(Relaxed, &g).as_ref() {
                // safe dereference of an object whose initialisation is not ordered before us
                let sum = n.item.iter().sum::<u64>();
                break sum;
            }
        });
        reader.join().unwrap()
    });
    assert_eq!(sum, 56);
}

/// Even the "textbook" `Release` for `store` (as used by the shipped tests) is not enough, because
/// `store`/`swap`/CAS-success also *consume* the previous pointer: `store` decrements the count
/// word of the old referent (and may schedule its destruction) without ever acquiring it. No user
/// code dereferences anything here; TSan reports the library's own access to the count word of
/// `a` (in `decrement_strong`) against its plain initialisation in `RcInner::alloc`.
#[test]
fn release_store_decrements_old_referent_without_acquire() {
    let cell: AtomicRc<Node> = AtomicRc::null();
    std::thread::scope(|s| {
        s.spawn(|| {
            let g = cs();
            let a = Rc::new(Node { item: [1; 8] });
            cell.store(a, Release, &g);
            std::thread::sleep(Duration::from_millis(300));
        });
        s.spawn(|| {
            let g = cs();
            while cell.load(Relaxed, &g).is_null() {} // no dereference
            cell.store(Rc::new(Node { item: [2; 8] }), Release, &g); // decrements `a`
        });
    });
}
