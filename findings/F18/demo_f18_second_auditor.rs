//! C02: a Snapshot loaded by `AtomicRc::load` under a guard must stay valid until that guard is
//! dropped. Here the load happens inside `pop_edges` (through `&mut self`) under a guard that
//! outlives `pop_edges` (leaked). The cascade destructs the child in the same pass.
use std::cell::Cell;
use std::sync::atomic::{AtomicBool, AtomicUsize, Ordering::SeqCst};

use circ::{cs, AtomicRc, Guard, Rc, RcObject, Snapshot};

static DROPPED: [AtomicBool; 3] = [const { AtomicBool::new(false) }; 3];
static SPIED: AtomicUsize = AtomicUsize::new(0);

thread_local! {
    static STASH: Cell<Option<Snapshot<'static, Node>>> = const { Cell::new(None) };
    static GUARD: Cell<Option<&'static Guard>> = const { Cell::new(None) };
}

struct Node {
    id: usize,
    spy: bool,
    next: AtomicRc<Node>,
}

unsafe impl RcObject for Node {
    fn pop_edges(&mut self, out: &mut Vec<Rc<Self>>) {
        if self.spy {
            // A critical section that outlives this destructor.
            let g: &'static Guard = Box::leak(Box::new(cs()));
            let s = self.next.load(SeqCst, g);
            assert!(!s.is_null());
            STASH.with(|c| c.set(Some(s)));
            GUARD.with(|c| c.set(Some(g)));
            SPIED.fetch_add(1, SeqCst);
        }
        out.push(self.next.take());
    }
}

impl Drop for Node {
    fn drop(&mut self) {
        DROPPED[self.id].store(true, SeqCst);
    }
}

fn tick(n: usize) {
    for _ in 0..n {
        let g = cs();
        g.flush();
    }
}

#[test]
fn snapshot_loaded_in_pop_edges_outlives_child() {
    let pre: usize = std::env::var("B5_PRE").ok().and_then(|s| s.parse().ok()).unwrap_or(4);
    std::thread::spawn(move || {
        let child = Rc::new(Node { id: 1, spy: false, next: AtomicRc::null() });
        let parent = Rc::new(Node { id: 0, spy: true, next: AtomicRc::from(child) });
        tick(pre); // make the link and the child's stamp a few epochs old
        drop(parent);
        for _ in 0..32 {
            tick(1);
            if DROPPED[0].load(SeqCst) {
                break;
            }
        }
        assert!(DROPPED[0].load(SeqCst), "parent not reclaimed (test set-up)");
        assert_eq!(SPIED.load(SeqCst), 1);
        // The guard under which the Snapshot was loaded is still alive ...
        assert!(GUARD.with(|c| c.get()).is_some());
        let s = STASH.with(|c| c.get()).unwrap();
        assert!(!s.is_null());
        // ... so the child must be neither destructed nor freed (we do not dereference `s`).
        assert!(
            !DROPPED[1].load(SeqCst),
            "C02 violated: child destructed while the guard of its Snapshot is alive"
        );
    })
    .join()
    .unwrap();
}
