//! C02 (found while auditing the destructor/guard interplay of the epoch layer).
//!
//! `pop_edges` of a node loads a `Snapshot` of its child through its own link, under a guard that
//! it keeps alive (parked in a thread-local), and then hands the edge over as the contract asks.
//! The cascade in `dispose_general_node` destructs the child in the very same pass, because
//! nothing records that the link was just read: the `Snapshot` dangles while its guard is alive.
//!
//! No freed memory is touched: only drop counters are observed.
use circ::{cs, AtomicRc, Guard, Rc, RcObject};
use std::cell::RefCell;
use std::sync::atomic::{AtomicUsize, Ordering::SeqCst};
use std::sync::Arc;

thread_local! {
    static PARK: RefCell<Vec<Guard>> = const { RefCell::new(Vec::new()) };
}

struct Node {
    drops: Arc<AtomicUsize>,
    spy: bool,
    next: AtomicRc<Node>,
    other: AtomicRc<Node>,
}

unsafe impl RcObject for Node {
    fn pop_edges(&mut self, out: &mut Vec<Rc<Self>>) {
        if self.spy {
            let g = cs();
            let s = self.next.load(SeqCst, &g);
            assert!(!s.is_null());
            // `s` is a Snapshot of the child, valid (C02) until `g` is dropped or reactivated.
            // Keep `g` alive beyond this call.
            PARK.with(|p| p.borrow_mut().push(g));
        }
        out.push(self.other.take());
        out.push(self.next.take());
    }
}

impl Drop for Node {
    fn drop(&mut self) {
        self.drops.fetch_add(1, SeqCst);
    }
}

fn pump(n: usize) {
    for _ in 0..n {
        cs().flush();
    }
}

fn leaf(drops: &Arc<AtomicUsize>, spy: bool) -> Rc<Node> {
    Rc::new(Node {
        drops: drops.clone(),
        spy,
        next: AtomicRc::null(),
        other: AtomicRc::null(),
    })
}

/// Stamps the count word of `rc` with the current epoch, so that all the 4-bit stamps involved are
/// in the unambiguous window whatever the alignment of the global epoch is.
fn touch(rc: &Rc<Node>) {
    drop(rc.clone());
}

fn pump_until(what: &str, f: impl Fn() -> bool) {
    for _ in 0..100_000 {
        if f() {
            return;
        }
        cs().flush();
    }
    panic!("{what}: not reached after 100000 flush rounds");
}

fn snapshot_of_child_loaded_in_pop_edges_outlives_the_cascade() {
    std::thread::spawn(|| {
        let pdrops = Arc::new(AtomicUsize::new(0));
        let cdrops = Arc::new(AtomicUsize::new(0));
        let child = leaf(&cdrops, false);
        let parent = leaf(&pdrops, true);
        touch(&child);
        (parent.as_ref().unwrap().next).store(child, SeqCst, &cs()); // link stamped now
        pump(4); // let the link and the counts age a little (but less than a wrap)
        drop(parent);
        pump_until("parent destructed", || pdrops.load(SeqCst) == 1);
        let parked = PARK.with(|p| p.borrow().len());
        assert_eq!(parked, 1);
        // The guard under which the child was loaded is still alive.
        assert_eq!(
            cdrops.load(SeqCst),
            0,
            "child destructed while the guard its Snapshot was loaded under is still alive"
        );
        PARK.with(|p| p.borrow_mut().clear());
        pump_until("child destructed eventually", || cdrops.load(SeqCst) == 1);
    })
    .join()
    .unwrap();
}

/// Same, but the child is shared: R -> [A, B], A -> [B]. `A::pop_edges` loads B under a guard it
/// keeps alive. A's frame only brings B's count from 2 to 1; it is R's frame, whose own user code
/// created no guard, that takes it to zero afterwards.
fn snapshot_of_shared_child_loaded_in_a_sibling_subtree() {
    std::thread::spawn(|| {
        let rdrops = Arc::new(AtomicUsize::new(0));
        let adrops = Arc::new(AtomicUsize::new(0));
        let bdrops = Arc::new(AtomicUsize::new(0));
        let b = leaf(&bdrops, false);
        let a = leaf(&adrops, true);
        let r = leaf(&rdrops, false);
        touch(&a);
        touch(&b);
        (a.as_ref().unwrap().next).store(b.clone(), SeqCst, &cs());
        (r.as_ref().unwrap().next).store(b, SeqCst, &cs()); // popped second
        (r.as_ref().unwrap().other).store(a, SeqCst, &cs()); // popped first
        pump(4);
        drop(r);
        pump_until("root destructed", || rdrops.load(SeqCst) == 1);
        assert_eq!(adrops.load(SeqCst), 1);
        assert_eq!(PARK.with(|p| p.borrow().len()), 1);
        assert_eq!(
            bdrops.load(SeqCst),
            0,
            "shared child destructed while the guard its Snapshot was loaded under is still alive"
        );
        PARK.with(|p| p.borrow_mut().clear());
        pump_until("shared child destructed eventually", || bdrops.load(SeqCst) == 1);
    })
    .join()
    .unwrap();
}

/// Same as the first test, but everything happens in a thread-local destructor that runs after the
/// thread's participant handle is gone: every `cs()` registers a temporary participant of its own,
/// so the guard parked by `pop_edges` is not counted by the participant `dispose` runs on.
fn snapshot_of_child_loaded_in_pop_edges_during_tear_down() {
    struct Late(Arc<AtomicUsize>);
    impl Drop for Late {
        fn drop(&mut self) {
            let pdrops = Arc::new(AtomicUsize::new(0));
            let cdrops = Arc::new(AtomicUsize::new(0));
            let child = leaf(&cdrops, false);
            let parent = leaf(&pdrops, true);
            touch(&child);
            (parent.as_ref().unwrap().next).store(child, SeqCst, &cs());
            pump(4);
            drop(parent);
            pump_until("parent destructed", || pdrops.load(SeqCst) == 1);
            // PARK was initialised before LATE, so it is still alive here.
            assert_eq!(PARK.with(|p| p.borrow().len()), 1);
            if cdrops.load(SeqCst) != 0 {
                self.0.store(1, SeqCst); // report to the test thread
            }
            PARK.with(|p| p.borrow_mut().clear());
            pump_until("child destructed eventually", || cdrops.load(SeqCst) == 1);
        }
    }
    thread_local! {
        static LATE: RefCell<Option<Late>> = const { RefCell::new(None) };
    }
    let violated = Arc::new(AtomicUsize::new(0));
    let v = violated.clone();
    std::thread::spawn(move || {
        PARK.with(|_| ());
        LATE.with(|l| *l.borrow_mut() = Some(Late(v)));
        drop(cs()); // HANDLE is initialised last => destroyed first
    })
    .join()
    .unwrap();
    assert_eq!(
        violated.load(SeqCst),
        0,
        "child destructed while the guard its Snapshot was loaded under is still alive (tear-down)"
    );
}

/// The scenarios share the global collector (any thread may run any deferred destructor), so
/// they are run one after the other, with no other thread using the library meanwhile.
#[test]
fn audit_b3_1() {
    let scenarios: [(&str, fn()); 3] = [
        (
            "snapshot_of_child_loaded_in_pop_edges_outlives_the_cascade",
            snapshot_of_child_loaded_in_pop_edges_outlives_the_cascade,
        ),
        (
            "snapshot_of_shared_child_loaded_in_a_sibling_subtree",
            snapshot_of_shared_child_loaded_in_a_sibling_subtree,
        ),
        (
            "snapshot_of_child_loaded_in_pop_edges_during_tear_down",
            snapshot_of_child_loaded_in_pop_edges_during_tear_down,
        ),
    ];
    // Optional: shift the alignment of the global epoch modulo 16 (the outcome must not depend on it).
    if let Ok(n) = std::env::var("AUDIT_B3_PREPUMP") {
        pump(n.parse().unwrap());
    }
    let mut failed = vec![];
    for (name, f) in scenarios {
        if std::panic::catch_unwind(f).is_err() {
            failed.push(name);
        }
    }
    assert!(failed.is_empty(), "failed scenarios: {failed:?}");
}
