use std::sync::atomic::{AtomicUsize, Ordering};
use circ::{cs, AtomicRc, Rc, RcObject};

struct Node { next: AtomicRc<Node>, drops: &'static AtomicUsize, val: Box<u64> }
impl Drop for Node { fn drop(&mut self) { self.drops.fetch_add(1, Ordering::SeqCst); } }
unsafe impl RcObject for Node { fn pop_edges(&mut self, out: &mut Vec<Rc<Self>>) { out.push(self.next.take()); } }
fn adv() { let g = cs(); g.flush(); drop(g); }

#[test]
fn hole() {
    static P: AtomicUsize = AtomicUsize::new(0);
    static C: AtomicUsize = AtomicUsize::new(0);
    for _ in 0..9 { adv(); }
    let child = Rc::new(Node { next: AtomicRc::null(), drops: &C, val: Box::new(7) });
    let wc = child.downgrade();
    let parent = Rc::new(Node { next: AtomicRc::from(child), drops: &P, val: Box::new(1) });
    drop(parent);
    adv(); adv();
    assert_eq!(P.load(Ordering::SeqCst), 0);
    let g = cs();
    let snap = wc.snapshot(&g).upgrade().expect("child alive");
    std::thread::spawn(|| { adv(); }).join().unwrap();
    println!("parent drops {} child drops {}", P.load(Ordering::SeqCst), C.load(Ordering::SeqCst));
    assert_eq!(C.load(Ordering::SeqCst), 0, "child destructed while a Snapshot from WeakSnapshot::upgrade is protected by a live guard");
    assert_eq!(*snap.as_ref().unwrap().val, 7);
    drop(g);
}
