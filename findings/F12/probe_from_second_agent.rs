use std::sync::atomic::{AtomicBool, Ordering};
use std::sync::mpsc::channel;
use std::thread;

use circ::{cs, AtomicRc, Rc, RcObject};

static CHILD_DROPPED: AtomicBool = AtomicBool::new(false);

struct Node {
    child: bool,
    next: AtomicRc<Node>,
}

unsafe impl RcObject for Node {
    fn pop_edges(&mut self, out: &mut Vec<Rc<Self>>) {
        out.push(self.next.take());
    }
}

impl Drop for Node {
    fn drop(&mut self) {
        if self.child {
            CHILD_DROPPED.store(true, Ordering::SeqCst);
        }
    }
}

#[test]
fn probe() {
    let extra: usize = std::env::var("EXTRA").ok().and_then(|s| s.parse().ok()).unwrap_or(1);
    let (ready_tx, ready_rx) = channel::<()>();
    let (go_tx, go_rx) = channel::<()>();
    let (done_tx, done_rx) = channel::<()>();
    let helper = thread::spawn(move || {
        drop(cs());
        ready_tx.send(()).unwrap();
        go_rx.recv().unwrap();
        for _ in 0..100 {
            let g = cs();
            g.flush();
            drop(g);
        }
        done_tx.send(()).unwrap();
    });
    ready_rx.recv().unwrap();

    let c = Rc::new(Node { child: true, next: AtomicRc::null() });
    let weak_c = c.downgrade();
    let p0 = Rc::new(Node { child: false, next: AtomicRc::null() });
    {
        let g = cs();
        p0.as_ref().unwrap().next.store(c, Ordering::Release, &g);
    }
    let root = AtomicRc::from(p0);
    {
        let g = cs();
        root.store(Rc::null(), Ordering::Release, &g);
        g.flush();
    }
    for _ in 0..extra {
        let g = cs();
        g.flush();
    }
    let guard = cs();
    let ws = weak_c.snapshot(&guard);
    let snap = ws.upgrade();
    println!("upgrade ok: {}", snap.is_some());
    go_tx.send(()).unwrap();
    done_rx.recv().unwrap();
    println!("extra={extra} child dropped while snapshot alive: {}", CHILD_DROPPED.load(Ordering::SeqCst) && snap.is_some());
    drop(guard);
    helper.join().unwrap();
}
