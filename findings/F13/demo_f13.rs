//! AUDIT A1-5 (critical section stops protecting; Snapshot protection / C01 via `counted`):
//! a `Guard` created by a destructor *during a collection* does not keep the thread pinned at
//! the epoch it was created in. `Local::unpin` calls `repin_without_collect()` after every
//! collection pass (and `dispose_general_node` does so every 128 nodes), which silently moves the
//! local epoch forward although the destructor's guard - and the `Snapshot`s loaded through it -
//! may still be alive. F10/F11-style fixes in this tree (`schedule_collection` no longer repins,
//! `unpin` re-reads the guard count) show that guards outliving the destructor that created them
//! are meant to be supported; these two repin sites still break them.
//!
//! A `Snapshot` can only outlive the destructor together with its guard if the guard is
//! `'static`, i.e. leaked (`Box::leak`) - safe Rust, and what "parking a guard for the rest of the
//! thread's life" amounts to. The thread is then supposed to stay pinned forever (reclamation
//! stalls - the documented EBR limitation), but never to lose protection.
//!
//! Single thread, fully deterministic.

use circ::{cs, AtomicRc, Guard, Rc, RcObject, Snapshot};
use std::cell::Cell;
use std::sync::atomic::{AtomicBool, AtomicUsize, Ordering::SeqCst};
use std::sync::OnceLock;

#[derive(Clone, Copy, PartialEq, Debug)]
enum Kind {
    Target,
    /// Its destructor leaks a guard, loads a snapshot of the target and unlinks the target.
    Leaker,
    /// Its destructor only asks for one more collection pass (`flush`).
    Pusher,
}

struct Node {
    kind: Kind,
    next: AtomicRc<Node>,
}
unsafe impl RcObject for Node {
    fn pop_edges(&mut self, out: &mut Vec<Rc<Self>>) {
        out.push(self.next.take());
    }
}

static SLOT: OnceLock<AtomicRc<Node>> = OnceLock::new();
static TARGET_DROPPED: AtomicBool = AtomicBool::new(false);
static ORDER: AtomicUsize = AtomicUsize::new(0);
static LEAKER_AT: AtomicUsize = AtomicUsize::new(0);
static TARGET_AT: AtomicUsize = AtomicUsize::new(0);

thread_local! {
    static STASH: Cell<Option<(&'static Guard, Snapshot<'static, Node>)>> = const { Cell::new(None) };
}

impl Drop for Node {
    fn drop(&mut self) {
        let at = ORDER.fetch_add(1, SeqCst) + 1;
        match self.kind {
            Kind::Target => {
                TARGET_AT.store(at, SeqCst);
                TARGET_DROPPED.store(true, SeqCst);
            }
            Kind::Leaker => {
                LEAKER_AT.store(at, SeqCst);
                // A critical section that lives for the rest of the thread.
                let g: &'static Guard = Box::leak(Box::new(cs()));
                let slot = SLOT.get().unwrap();
                let snap = slot.load(SeqCst, g);
                assert!(!snap.is_null());
                STASH.with(|s| s.set(Some((g, snap))));
                // Somebody unlinks the target after we loaded it (here: we do it ourselves).
                slot.store(Rc::null(), SeqCst, g);
                g.flush();
            }
            Kind::Pusher => {
                cs().flush();
            }
        }
    }
}

fn retire_and_round(kind: Kind) {
    let g = cs();
    drop(Rc::new(Node {
        kind,
        next: AtomicRc::null(),
    }));
    g.flush(); // seal it with the current epoch
    drop(g); // one collection pass; the global epoch advances by one
}

#[test]
fn guard_created_in_a_destructor_stops_protecting() {
    SLOT.get_or_init(|| {
        AtomicRc::new(Node {
            kind: Kind::Target,
            next: AtomicRc::null(),
        })
    });

    // Garbage sealed in three consecutive epochs a, a+1, a+2.
    retire_and_round(Kind::Leaker); // sealed at a
    retire_and_round(Kind::Pusher); // sealed at a+1
    assert_eq!(ORDER.load(SeqCst), 0);
    // The unpin of the next call runs: pass 1 (epoch a+3): Leaker; pass 2: Pusher; pass 3: Pusher;
    // pass 4 (epoch a+6): the target, retired by the Leaker in epoch a+3.
    retire_and_round(Kind::Pusher); // sealed at a+2
    for _ in 0..4 {
        retire_and_round(Kind::Pusher);
    }

    let (g, snap) = STASH.with(|s| s.take()).expect("the Leaker destructor has run");
    // `g` is alive, so we are inside the critical section in which `snap` was loaded.
    let dropped = TARGET_DROPPED.load(SeqCst);
    eprintln!(
        "leaker destructed as #{}, target destructed as #{} (0 = never); guard still alive",
        LEAKER_AT.load(SeqCst),
        TARGET_AT.load(SeqCst)
    );
    assert!(
        !dropped,
        "the object behind a Snapshot was destructed although the Guard the Snapshot was loaded \
         through is still alive: unpin()/dispose_general_node repinned the thread underneath it"
    );
    // Not reached on the unmodified code. (`snap.as_ref()` would read a dropped object.)
    assert_eq!(snap.as_ref().map(|n| n.kind), Some(Kind::Target));
    let _ = g;
}
