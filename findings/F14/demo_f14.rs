//! AUDIT A1-2 (C04, panic safety): one panicking user destructor that runs during a collection
//! permanently wedges the thread's participant.
//!
//! `Local::unpin` (src/ebr_impl/internal.rs) sets `collecting = true`, runs the scheduled
//! collections (which call user `pop_edges` / `Drop`), and only afterwards resets `collecting`
//! and decrements `guard_count` / unpins the local epoch. If user code panics in between, the
//! unwinding skips all of that:
//!   * `collecting` stays `true`  -> this thread never collects again,
//!   * `guard_count` stays >= 1 and the local epoch stays pinned although no `Guard` exists any
//!     more -> the global epoch can advance at most once more, so *no thread* reclaims anything
//!     from then on,
//!   * the remaining deferred functions of the bag being dropped (`Bag::drop` uses `drain`) are
//!     forgotten -> those objects are never destructed.
//! The panic is caught with `catch_unwind`, the program continues "normally" and leaks forever.

use circ::{cs, AtomicRc, Rc, RcObject};
use std::panic::{catch_unwind, AssertUnwindSafe};
use std::sync::atomic::{AtomicUsize, Ordering::SeqCst};

static DROPS: AtomicUsize = AtomicUsize::new(0);

struct Node {
    panic_on_drop: bool,
    next: AtomicRc<Node>,
}

unsafe impl RcObject for Node {
    fn pop_edges(&mut self, out: &mut Vec<Rc<Self>>) {
        out.push(self.next.take());
    }
}

impl Drop for Node {
    fn drop(&mut self) {
        DROPS.fetch_add(1, SeqCst);
        if self.panic_on_drop {
            panic!("user destructor panics (once)");
        }
    }
}

fn node(panic_on_drop: bool) -> Rc<Node> {
    Rc::new(Node {
        panic_on_drop,
        next: AtomicRc::null(),
    })
}

fn rounds(n: usize) {
    for _ in 0..n {
        let g = cs();
        g.flush();
        drop(g);
    }
}

#[test]
fn one_panicking_destructor_stops_all_reclamation() {
    // Sanity: reclamation works.
    drop(node(false));
    rounds(8);
    assert_eq!(DROPS.load(SeqCst), 1, "sanity: a dropped object is destructed after a few rounds");

    // One object whose destructor panics. The panic surfaces from some `drop(guard)`.
    drop(node(true));
    let mut panics = 0;
    for _ in 0..8 {
        let r = catch_unwind(AssertUnwindSafe(|| rounds(1)));
        if r.is_err() {
            panics += 1;
        }
    }
    assert_eq!(panics, 1, "the destructor panic should surface exactly once");
    assert_eq!(DROPS.load(SeqCst), 2);

    // The program goes on. Everything below is ordinary, panic-free use.
    for _ in 0..1000 {
        drop(node(false));
    }
    rounds(64);
    let here = DROPS.load(SeqCst) - 2;

    // Another thread is affected as well, because the wedged participant stays pinned.
    let before = DROPS.load(SeqCst);
    std::thread::spawn(|| {
        for _ in 0..1000 {
            drop(node(false));
        }
        rounds(64);
    })
    .join()
    .unwrap();
    rounds(64);
    let other = DROPS.load(SeqCst) - before;

    eprintln!("after the panic: destructed {here}/1000 on this thread, {other}/1000 on a fresh thread");
    assert!(
        here == 1000 && other == 1000,
        "C04 violated: after one caught destructor panic nothing is reclaimed any more \
         (this thread: {here}/1000, other thread: {other}/1000 objects destructed at quiescence)"
    );
}
