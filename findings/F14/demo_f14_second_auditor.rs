//! A3-2 (C15, C16): a destructor that panics during a collection
//!  (a) loses all the deferred functions that follow it in the same bag (`Bag::drop` drains the
//!      bag; `Deferred` has no `Drop`, so unwinding just forgets the rest), and
//!  (b) leaves the participant in the middle of `Local::unpin`: `collecting` stays `true` and
//!      `guard_count` is never decremented, so the thread stays pinned in the old epoch for ever
//!      although it has no live guard. From then on the global epoch is stuck: no thread of the
//!      process reclaims anything any more (and this does not end when the thread exits, since a
//!      `Local` with `guard_count == 1` is never finalized).
//!
//! The panic itself is caught by the user with `catch_unwind`, the program goes on.

use circ::{cs, Rc, RcObject};
use std::panic::{catch_unwind, AssertUnwindSafe};
use std::sync::atomic::{AtomicUsize, Ordering::SeqCst};

static SAME_BAG_DROPS: AtomicUsize = AtomicUsize::new(0);
static LATER_DROPS: AtomicUsize = AtomicUsize::new(0);
static OTHER_THREAD_DROPS: AtomicUsize = AtomicUsize::new(0);

struct Obj {
    bomb: bool,
    counter: &'static AtomicUsize,
}

unsafe impl RcObject for Obj {
    fn pop_edges(&mut self, _: &mut Vec<Rc<Self>>) {}
}

impl Drop for Obj {
    fn drop(&mut self) {
        if self.bomb {
            panic!("user destructor panics");
        }
        self.counter.fetch_add(1, SeqCst);
    }
}

fn obj(bomb: bool, counter: &'static AtomicUsize) -> Rc<Obj> {
    Rc::new(Obj { bomb, counter })
}

/// One pin/flush/unpin round. Returns `false` if it panicked.
fn round() -> bool {
    catch_unwind(AssertUnwindSafe(|| {
        let g = cs();
        g.flush();
        drop(g);
    }))
    .is_ok()
}

const SAME_BAG: usize = 10;
const LATER: usize = 10;
const ROUNDS: usize = 10_000;

#[test]
fn panicking_destructor_during_collection() {
    std::panic::set_hook(Box::new(|_| {})); // keep the output readable

    // One bag: the bomb first, then ten ordinary objects.
    {
        let g = cs();
        obj(true, &SAME_BAG_DROPS).finalize(&g);
        for _ in 0..SAME_BAG {
            obj(false, &SAME_BAG_DROPS).finalize(&g);
        }
        g.flush();
    }

    // Collect until the bomb goes off.
    let mut panicked = false;
    for _ in 0..ROUNDS {
        if !round() {
            panicked = true;
            break;
        }
    }
    assert!(panicked, "the bomb was never destructed");

    // The program goes on. Garbage produced from now on ...
    {
        let g = cs();
        for _ in 0..LATER {
            obj(false, &LATER_DROPS).finalize(&g);
        }
    }
    for _ in 0..ROUNDS {
        assert!(round());
    }
    // ... also by other threads.
    std::thread::spawn(|| {
        {
            let g = cs();
            for _ in 0..LATER {
                obj(false, &OTHER_THREAD_DROPS).finalize(&g);
            }
        }
        for _ in 0..ROUNDS {
            assert!(round());
        }
    })
    .join()
    .unwrap();
    for _ in 0..ROUNDS {
        assert!(round());
    }

    let same = SAME_BAG_DROPS.load(SeqCst);
    let later = LATER_DROPS.load(SeqCst);
    let other = OTHER_THREAD_DROPS.load(SeqCst);
    let _ = std::panic::take_hook();
    assert!(
        same == SAME_BAG && later == LATER && other == LATER,
        "after a destructor panicked in a collection (and was caught): \
         {same}/{SAME_BAG} objects deferred in the same bag were destructed, \
         {later}/{LATER} objects dropped later by the same thread were destructed, \
         {other}/{LATER} objects dropped by another thread were destructed \
         ({ROUNDS} pin/flush/unpin rounds each)"
    );
}
