//! B4-2 (C05 / C03; VARIANT of the known, unfixed "counts >= 2^29 overflow the strong field"):
//! the *weak* field (29 bits, right below WEAKED and DESTRUCTED) overflows just the same, and
//! `weak_many::<N>` makes it instant. 2^29 leaked `Weak`s (safe: `mem::forget`) carry out of the weak
//! field, clear WEAKED and SET the DESTRUCTED bit of a live object: from then on `upgrade` fails
//! although a strong owner exists and the destructor has never run.
use circ::{Rc, RcObject};
use std::sync::atomic::{AtomicBool, Ordering::SeqCst};

static DROPPED: AtomicBool = AtomicBool::new(false);
struct Obj;
impl Drop for Obj {
    fn drop(&mut self) {
        DROPPED.store(true, SeqCst);
    }
}
unsafe impl RcObject for Obj {
    fn pop_edges(&mut self, _: &mut Vec<Rc<Self>>) {}
}

#[test]
fn leaked_weaks_overflow_into_the_destructed_bit() {
    let a = Rc::new(Obj);
    let w = a.downgrade(); // weak field = 2 (implicit share of the strong side + `w`)
    assert!(w.upgrade().is_some());
    // leak 2^29 - 2 more weak shares, 1024 at a time
    for _ in 0..(1usize << 19) - 1 {
        std::mem::forget(a.weak_many::<1024>());
    }
    std::mem::forget(a.weak_many::<1022>());
    // a strong owner (`a`) exists, no destruction has begun:
    assert!(!DROPPED.load(SeqCst));
    assert!(a.as_ref().is_some());
    let up = w.upgrade();
    let ok = up.is_some();
    // leak everything: the count word is corrupt, dropping would trip debug assertions while unwinding
    std::mem::forget((up, w, a));
    assert!(
        ok,
        "Weak::upgrade failed although a strong owner exists and the object was never destructed"
    );
}
