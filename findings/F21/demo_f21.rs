//! OBSERVATION (design limitation, literal reading of C04 / C15), not counted as a confirmed defect.
//!
//! The collector never collects or flushes on `pin()` (the counter `pin_count` is reset by
//! `collect()` but never incremented), so garbage that sits in the local bag of a LIVE thread is
//! only handed to the global queue when that thread (a) drops 64 counted pointers, (b) fills the
//! bag (64 deferred functions), (c) calls `Guard::flush`, or (d) exits. A thread that merely
//! "keeps entering and leaving critical sections" (C04) never gets its own garbage reclaimed, and
//! pin/flush/unpin rounds "by any surviving thread" (C15) cannot reach it either.
use circ::{cs, Rc, RcObject};
use std::sync::atomic::{AtomicUsize, Ordering::SeqCst};
use std::sync::mpsc::channel;

static DROPS: AtomicUsize = AtomicUsize::new(0);
struct X;
unsafe impl RcObject for X {
    fn pop_edges(&mut self, _: &mut Vec<Rc<Self>>) {}
}
impl Drop for X {
    fn drop(&mut self) {
        DROPS.fetch_add(1, SeqCst);
    }
}

#[test]
fn garbage_of_a_live_thread_that_only_pins() {
    let (to_a, a_rx) = channel::<()>();
    let (to_main, main_rx) = channel::<()>();
    let a = std::thread::spawn(move || {
        drop(Rc::new(X)); // the last strong owner is gone
        for _ in 0..200_000 {
            drop(cs()); // keeps entering and leaving critical sections
        }
        to_main.send(()).unwrap();
        a_rx.recv().unwrap(); // stays alive
        for _ in 0..1_000 {
            drop(cs());
        }
        to_main.send(()).unwrap();
        a_rx.recv().unwrap();
    });
    main_rx.recv().unwrap();
    for _ in 0..10_000 {
        let g = cs();
        g.flush();
        drop(g);
    }
    let first = DROPS.load(SeqCst);
    to_a.send(()).unwrap();
    main_rx.recv().unwrap();
    for _ in 0..10_000 {
        let g = cs();
        g.flush();
        drop(g);
    }
    let second = DROPS.load(SeqCst);
    to_a.send(()).unwrap();
    a.join().unwrap();
    // after the exit of A the object is reclaimed at once by a few rounds: nothing is lost
    for _ in 0..100 {
        let g = cs();
        g.flush();
        drop(g);
    }
    assert_eq!(DROPS.load(SeqCst), 1, "reclaimed once A has exited");
    assert_eq!(
        (first, second),
        (1, 1),
        "object not destructed while its (live, pinning) thread does not flush"
    );
}
