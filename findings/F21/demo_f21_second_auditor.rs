//! OBSERVATION (design limitation, not counted as a confirmed defect):
//! garbage sitting in the private bag of a thread that stays alive is reclaimed only by that very
//! thread, and only if it flushes explicitly, fills the bag (64 deferrals) or performs 64 count
//! decrements. Entering and leaving critical sections is not enough (`pin()` never collects, the
//! field `pin_count` is dead), and no amount of cs()+flush rounds by OTHER threads helps.
//! Literal readings of C04 ("threads keep entering and leaving critical sections") and of C15
//! ("after finitely many further pin/flush/unpin rounds by any surviving thread") are not met.
use circ::{cs, Rc, RcObject};
use std::sync::atomic::{AtomicUsize, Ordering::SeqCst};
use std::sync::mpsc::channel;

static DROPS_A: AtomicUsize = AtomicUsize::new(0);
static DROPS_B: AtomicUsize = AtomicUsize::new(0);

struct Obj(&'static AtomicUsize);
unsafe impl RcObject for Obj {
    fn pop_edges(&mut self, _: &mut Vec<Rc<Self>>) {}
}
impl Drop for Obj {
    fn drop(&mut self) {
        self.0.fetch_add(1, SeqCst);
    }
}

/// The owner of the garbage keeps entering and leaving critical sections (1e6 times), other
/// threads do not interfere: the object is never destructed.
#[test]
fn a_pin_unpin_rounds_of_the_owner_do_not_reclaim() {
    std::thread::spawn(|| {
        drop(Rc::new(Obj(&DROPS_A)));
        for _ in 0..1_000_000 {
            drop(cs());
        }
        assert_eq!(
            DROPS_A.load(SeqCst),
            1,
            "object not destructed after 1e6 cs()/drop rounds of its last owner"
        );
    })
    .join()
    .unwrap();
}

/// The owner of the garbage is alive but idle; another thread does 100000 cs()+flush rounds.
#[test]
fn b_flush_rounds_of_other_threads_do_not_reclaim() {
    let (tx, rx) = channel::<()>();
    let (tx2, rx2) = channel::<()>();
    let h = std::thread::spawn(move || {
        drop(Rc::new(Obj(&DROPS_B)));
        tx2.send(()).unwrap();
        rx.recv().unwrap(); // idle, not in a critical section
    });
    rx2.recv().unwrap();
    for _ in 0..100_000 {
        let g = cs();
        g.flush();
    }
    let seen = DROPS_B.load(SeqCst);
    tx.send(()).unwrap();
    h.join().unwrap();
    for _ in 0..16 {
        let g = cs();
        g.flush();
    }
    assert_eq!(DROPS_B.load(SeqCst), 1, "reclaimed once the idle thread has exited");
    assert_eq!(
        seen, 1,
        "object not destructed by 100000 cs()+flush rounds of a surviving thread while its \
         last owner was alive and idle"
    );
}
