//! A3-1 (C20): collections nest without bound during thread tear-down.
//!
//! `Local::unpin` protects against re-entrant collections with the per-`Local` flag
//! `collecting`. After the thread's `HANDLE` has been destroyed, every `cs()` registers a brand
//! new `Local` (`with_handle`'s fallback), whose `collecting` flag is of course `false`. So a
//! destructor that is run by a collection and that itself schedules a collection (here: takes a
//! guard and calls `flush()`, exactly what `Rc::drop` does every 64th time) starts a *nested*
//! collection on unpinning, which pops the next expired bag, which runs the next destructor, ...
//! The nesting depth is the number of expired bags in the global queue, i.e. unbounded.
//!
//! While `HANDLE` is alive, the very same workload is processed iteratively (depth 1).

use circ::{cs, Rc, RcObject};
use std::sync::atomic::{AtomicUsize, Ordering::SeqCst};

static DEPTH: AtomicUsize = AtomicUsize::new(0);
static MAX_DEPTH: AtomicUsize = AtomicUsize::new(0);
static DROPS: AtomicUsize = AtomicUsize::new(0);

struct Obj;

unsafe impl RcObject for Obj {
    fn pop_edges(&mut self, _: &mut Vec<Rc<Self>>) {}
}

impl Drop for Obj {
    fn drop(&mut self) {
        let d = DEPTH.fetch_add(1, SeqCst) + 1;
        MAX_DEPTH.fetch_max(d, SeqCst);
        DROPS.fetch_add(1, SeqCst);
        {
            // A destructor that uses the library: enter a critical section and flush.
            let g = cs();
            g.flush();
        }
        DEPTH.fetch_sub(1, SeqCst);
    }
}

fn n_bags() -> usize {
    std::env::var("A3_BAGS")
        .ok()
        .and_then(|s| s.parse().ok())
        .unwrap_or(300)
}

/// Puts `n` bags, each holding one zero-count `Obj`, into the global queue, all sealed with
/// (almost) the same epoch, without running any of them.
fn make_bags(n: usize) {
    let g = cs();
    for _ in 0..n {
        Rc::new(Obj).finalize(&g);
        g.flush();
    }
    drop(g); // one collection: nothing is expired yet.
    assert_eq!(DROPS.load(SeqCst), 0);
}

/// Runs collections until all `n` objects are destructed.
fn collect_all(n: usize) {
    let mut rounds = 0;
    while DROPS.load(SeqCst) < n {
        let g = cs();
        g.flush();
        drop(g);
        rounds += 1;
        assert!(rounds < 100 * n + 100, "garbage is not collected");
    }
}

struct Late;

impl Drop for Late {
    fn drop(&mut self) {
        // Runs after `HANDLE` has been destroyed.
        collect_all(n_bags());
    }
}

thread_local! {
    static LATE: Late = const { Late };
}

#[test]
fn nested_collections_in_tls_destructor() {
    let n = n_bags();

    // Control: the participant handle is alive. Collections do not nest.
    std::thread::spawn(move || {
        make_bags(n);
        collect_all(n);
    })
    .join()
    .unwrap();
    let control = MAX_DEPTH.swap(0, SeqCst);
    assert_eq!(DROPS.swap(0, SeqCst), n);
    assert_eq!(control, 1, "control run: collections nested");

    // The same work, but the collections run from a thread-local destructor after `HANDLE` is gone.
    std::thread::spawn(move || {
        // Initialize `LATE` first and `HANDLE` second: `HANDLE` is destroyed first.
        LATE.with(|_| ());
        make_bags(n);
    })
    .join()
    .unwrap();
    assert_eq!(DROPS.load(SeqCst), n);
    let depth = MAX_DEPTH.load(SeqCst);
    assert!(
        depth <= 2,
        "collections nested {depth} deep (one level per expired bag, {n} bags) when run from a \
         thread-local destructor; control run with a live handle: depth {control}"
    );
}
