//! A3-5 (C18/C20): unlinking removed participants recurses; the depth is unbounded.
//!
//! `Global::try_advance` walks the participant list and unlinks the entries that are marked as
//! removed. Every unlinked entry is handed to `Guard::defer_destroy`, i.e. `Local::defer`, and
//! (a CIRC addition) `Local::defer` ends with `incr_advance`, which calls `try_advance` again on
//! every 64th deferral -- from inside the traversal. The nested traversal starts at the head,
//! unlinks the next 64 removed entries, nests again, and so on: one level of recursion per 64
//! removed entries.
//!
//! Removed entries pile up when a thread uses the library in thread-local destructors after its
//! `HANDLE` is gone: then every single `cs()` (hence every `Rc::drop`) registers a participant of
//! its own and removes it again, and nobody traverses the list meanwhile. The next thread that
//! runs a collection -- an innocent bystander -- pays with its stack.

use circ::{cs, Rc, RcObject};
use std::cell::RefCell;
use std::sync::atomic::{AtomicUsize, Ordering::SeqCst};

static DROPS: AtomicUsize = AtomicUsize::new(0);

struct Obj;

unsafe impl RcObject for Obj {
    fn pop_edges(&mut self, _: &mut Vec<Rc<Self>>) {}
}

impl Drop for Obj {
    fn drop(&mut self) {
        DROPS.fetch_add(1, SeqCst);
    }
}

fn n_objects() -> usize {
    std::env::var("A3_OBJECTS")
        .ok()
        .and_then(|s| s.parse().ok())
        .unwrap_or(250_000)
}

struct Late(RefCell<Vec<Rc<Obj>>>);

impl Drop for Late {
    fn drop(&mut self) {
        // Runs after `HANDLE` has been destroyed: every `Rc::drop` registers and removes a
        // participant.
        self.0.borrow_mut().clear();
    }
}

thread_local! {
    static LATE: Late = const { Late(RefCell::new(Vec::new())) };
}

fn scenario(n: usize) {
    let spawn = |name: &str| std::thread::Builder::new().name(name.into());
    spawn("late-dropper").spawn(move || {
        LATE.with(|l| {
            // `LATE` is initialized before `HANDLE`, so it is destroyed after it.
            let mut v = l.0.borrow_mut();
            for _ in 0..n {
                v.push(Rc::new(Obj));
            }
        });
        drop(cs());
    })
    .unwrap()
    .join()
    .unwrap();

    // A bystander thread (default stack size, 2 MiB) runs collections.
    spawn("bystander").spawn(move || {
        for _ in 0..n {
            let g = cs();
            g.flush();
            drop(g);
            if DROPS.load(SeqCst) == n {
                break;
            }
        }
    })
    .unwrap()
    .join()
    .unwrap();
    assert_eq!(DROPS.load(SeqCst), n);
}

#[test]
fn removed_participants_are_unlinked_recursively() {
    let n = n_objects();
    if std::env::var("A3_CHILD").is_ok() {
        scenario(n);
        return;
    }
    // Run the scenario in a child process, because it dies of a stack overflow.
    let status = std::process::Command::new(std::env::current_exe().unwrap())
        .args(["removed_participants_are_unlinked_recursively", "--exact", "--nocapture"])
        .env("A3_CHILD", "1")
        .stdout(std::process::Stdio::null())
        .stderr(std::process::Stdio::null())
        .status()
        .unwrap();
    assert!(
        status.success(),
        "after a thread dropped {n} `Rc`s in a thread-local destructor, the first collection on \
         another thread (2 MiB stack) died: {status:?} (one nested `try_advance` per 64 removed \
         participants)"
    );
}
