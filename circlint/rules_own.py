"""OWN-BALANCE / OWN-PROVENANCE / OWN-PRIMITIVES: the ownership ledger (DESIGN.md 4.2)."""
import re

from .facts import AnalysisError
from .report import RuleResult
from .sym import Exec, norm, show, strip, subterms
from .cw import const_of, _uncast
from .rules_cw import (ptr_root, PTR_UNWRAP, DGN, ALLOC, DEC_STRONG, DEC_WEAK, INC_STRONG, INC_WEAK,
                       _is_null_test)

OWNER_SIDE = {"strong::Rc": "strong", "strong::NewRcIter": "strong", "strong::AtomicRc": "strong",
              "weak::Weak": "weak", "weak::AtomicWeak": "weak"}
LINK_ADT = {"strong::AtomicRc": "strong", "weak::AtomicWeak": "weak"}
LINK_OPS = "atomic::Atomic::"
TRY_INC_STRONG = "utils::RcInner::<T>::try_increment_strong"
PRIMITIVES = {
    "strong::Rc::<T>::from_raw": "wraps a raw pointer into an owner without touching the count",
    "weak::Weak::<T>::from_raw": "wraps a raw pointer into an owner without touching the count",
    "strong::Rc::<T>::into_raw": "gives up an owner without touching the count",
    "weak::Weak::<T>::into_raw": "gives up an owner without touching the count",
}
NULLS = ("ebr_impl::pointers::Tagged::null",)
INLINED = {"weak::Weak::<T>::increment_weak": "thin wrapper over RcInner::increment_weak(self.ptr, 1); judged inside its callers"}


# ---------------------------------------------------------------- linear multiplicities
class Lin:
    def __init__(self, d=None):
        self.d = dict(d or {})

    @staticmethod
    def const(c):
        return Lin({1: c}) if c else Lin()

    @staticmethod
    def sym(t, coef=1):
        return Lin({t: coef})

    def __add__(self, o):
        d = dict(self.d)
        for k, v in o.d.items():
            d[k] = d.get(k, 0) + v
            if d[k] == 0:
                del d[k]
        return Lin(d)

    def __neg__(self):
        return Lin({k: -v for k, v in self.d.items()})

    def __sub__(self, o):
        return self + (-o)

    def scale(self, o):
        """Multiply by another Lin when one side is constant."""
        if not self.d:
            return Lin()
        if not o.d:
            return Lin()
        if set(self.d) == {1}:
            c = self.d[1]
            return Lin({k: v * c for k, v in o.d.items()})
        if set(o.d) == {1}:
            c = o.d[1]
            return Lin({k: v * c for k, v in self.d.items()})
        raise AnalysisError("non-linear multiplicity")

    def __eq__(self, o):
        return self.d == o.d

    def is_zero(self):
        return not self.d

    def __repr__(self):
        if not self.d:
            return "0"
        parts = []
        for k, v in self.d.items():
            if k == 1:
                parts.append(str(v))
            else:
                s = re.sub(r"#\d+", "", re.sub(r"@m\d+", "", show(k)))
                parts.append(("%d*" % v if v != 1 else "") + s)
        return " + ".join(parts)


def canon_sym(t):
    """Canonical symbol for a multiplicity term: strip casts and memory versions."""
    t = _uncast(t)
    if isinstance(t, tuple) and t[0] == "load":
        t = t[1]
    if isinstance(t, tuple) and t[0] == "field":
        base = t[2]
        while True:
            nb = strip(base)
            if nb == base:
                break
            base = nb
        return ("place", ("field", t[1], base))
    return t


def lin_of(t, subst):
    t = _uncast(t)
    c = const_of(t)
    if c is not None:
        return Lin.const(c)
    if isinstance(t, tuple) and t[0] == "bin" and t[1] in ("Sub", "Add"):
        l = lin_of(t[2], subst)
        r = lin_of(t[3], subst)
        return l - r if t[1] == "Sub" else l + r
    s = canon_sym(t)
    if s in subst:
        return Lin.const(subst[s])
    return Lin.sym(s)


# ---------------------------------------------------------------- pointer classes
def owner_class(v):
    """Class of the pointer held by owner value v."""
    v0 = v
    v = strip(v)
    if isinstance(v, tuple) and v[0] == "agg" and v[1] in OWNER_SIDE:
        names = v[5] if len(v) > 5 else ()
        if "ptr" in names:
            return pclass(v[3][names.index("ptr")])
    if isinstance(v, tuple) and v[0] == "call" and norm(v[1]).endswith("::from_raw") and v[2]:
        return pclass(v[2][0])
    if isinstance(v, tuple) and v[0] in ("arg", "deref", "local", "field", "variant", "unk"):
        return pclass(("field", "ptr", v))
    return ("ptrof", v)


def pclass(t):
    """Canonical class of a pointer term."""
    c = _pclass(t)
    if isinstance(c, tuple) and c[0] == "field" and c[1] == "ptr":
        base = c[2]
        while True:
            nb = strip(base)
            if nb == base:
                break
            base = nb
        if isinstance(base, tuple) and base[0] == "call" and norm(base[1]).endswith("::from_raw") and base[2]:
            return pclass(base[2][0])
        if isinstance(base, tuple) and base[0] == "agg" and base[1] in OWNER_SIDE and "ptr" in base[5]:
            return pclass(base[3][base[5].index("ptr")])
        return ("field", "ptr", base)
    return c


def _pclass(t):
    while True:
        t = strip(t)
        if not isinstance(t, tuple):
            return t
        if t[0] == "call":
            n = norm(t[1])
            if n in ("strong::Rc::into_raw", "weak::Weak::into_raw") and t[2]:
                return owner_class(t[2][0])
            if (n in PTR_UNWRAP or n.endswith("::with_timestamp")) and t[2]:
                t = t[2][0]
                continue
            if n in NULLS:
                return ("null",)
        if t[0] == "field" and t[1] in ("0", 0) and isinstance(t[2], tuple) and t[2][0] == "variant":
            t = t[2][2]
            continue
        return t


def class_str(c):
    return re.sub(r"#\d+", "", re.sub(r"@m\d+", "", show(c)))


def link_side(prog, body, term):
    """If term is the address of AtomicRc.link / AtomicWeak.link: the side, else None."""
    t = strip(term)
    if isinstance(t, tuple) and t[0] == "field" and t[1] == "link":
        base = strip(t[2])
        # type of the base: a parameter of the enclosing method
        if isinstance(base, tuple) and base[0] == "arg":
            adt = body.locals[base[1]].get("adt")
            return LINK_ADT.get(adt)
        imp = body.j.get("impl_self", "")
        for a, s in LINK_ADT.items():
            if a in imp:
                return s
    return None


# ---------------------------------------------------------------- ledger extraction
class Ledger:
    def __init__(self):
        self.entries = []   # (idx, side, cls, kind, Lin, event)
        self.null = set()

    def add(self, idx, side, cls, kind, mult, ev):
        self.entries.append((idx, side, cls, kind, mult, ev))


def build_ledger(ctx, path, own_ex):
    prog = ctx.prog
    b = path.body
    L = Ledger()
    subst = {}
    # equalities known on the path (remain == 0 etc.)
    for e in path.events:
        if e.kind == "cond" and isinstance(e.value, int) and isinstance(e.term, tuple) and e.term[0] == "bin":
            op, l, r = e.term[1], _uncast(e.term[2]), _uncast(e.term[3])
            c = const_of(r)
            if c is None:
                continue
            if (op == "Eq" and e.value == 1) or (op == "Ne" and e.value == 0):
                subst[canon_sym(l)] = c
            elif c == 0 and ((op == "Gt" and e.value == 0) or (op == "Le" and e.value == 1)):
                subst[canon_sym(l)] = 0
            elif c == 1 and ((op == "Ge" and e.value == 0) or (op == "Lt" and e.value == 1)):
                subst[canon_sym(l)] = 0
        # null knowledge
        if e.kind == "cond" and _is_null_test(e):
            t = e.term
            if t[0] == "disc":
                isnull = (e.value == 0) or (isinstance(e.value, tuple) and 1 in e.value[1])
                if isnull:
                    L.null.add(pclass(t[1][2][0]))
            elif t[0] == "call" and e.value == 1:
                a = t[2][0]
                sa = strip(a)
                # X.is_null() on an owner value or on a Tagged
                L.null.add(pclass(a))
                L.null.add(owner_class(sa))
    mult_stack = [Lin.const(1)]
    is_drop_impl = b.j.get("impl_trait") == "std::ops::Drop" and any(a in b.j.get("impl_self", "") for a in OWNER_SIDE)
    drop_adt = None
    if is_drop_impl:
        for a in OWNER_SIDE:
            if b.j.get("impl_self", "").startswith(a):
                drop_adt = a
    stores_seen = {}
    for i, e in enumerate(path.events):
        m = mult_stack[-1]
        if e.kind == "repeat_begin":
            mult_stack.append(m.scale(lin_of(e.count, subst)))
            continue
        if e.kind == "repeat_end":
            mult_stack.pop()
            continue
        if e.kind == "agg":
            adt = e.adt
            if adt in ("strong::Rc", "weak::Weak"):
                L.add(i, OWNER_SIDE[adt], owner_class(e.value), "produce", m, e)
            elif adt == "strong::NewRcIter":
                v = e.value
                names = v[5]
                L.add(i, "strong", pclass(v[3][names.index("ptr")]), "produce",
                      m.scale(lin_of(v[3][names.index("remain")], subst)), e)
            elif adt in LINK_ADT:
                v = e.value
                names = v[5]
                lk = v[3][names.index("link")]
                lk = strip(lk)
                if isinstance(lk, tuple) and lk[0] == "call" and norm(lk[1]) == "atomic::Atomic::new":
                    L.add(i, LINK_ADT[adt], pclass(lk[2][0]), "produce", m, e)
                else:
                    raise AnalysisError("OWN: %s literal whose link is not Atomic::new(..) in %s" % (adt, b.name))
            continue
        if e.kind == "store":
            pl = strip(e.place)
            if isinstance(pl, tuple) and pl[0] == "field" and pl[1] == "remain":
                base = strip(pl[2])
                old = canon_sym(pl)
                newv = lin_of(e.value, subst)
                delta = Lin.sym(old) - newv if old not in subst else Lin.const(subst[old]) - newv
                L.add(i, "strong", pclass(("field", "ptr", base)), "consume", m.scale(delta) if not delta.is_zero() else Lin(), e)
            elif isinstance(pl, tuple) and pl[0] == "field" and pl[1] == "ptr":
                # `self.ptr = self.ptr.with_tag(..)`: must keep the class
                base = strip(pl[2])
                if pclass(e.value) != pclass(("field", "ptr", base)):
                    L.add(i, "strong", pclass(("field", "ptr", base)), "overwrite", m, e)
            continue
        if e.kind != "call":
            continue
        nt = e.ntarget or ""
        tgt = e.target or ""
        if nt in ("strong::Rc::from_raw", "weak::Weak::from_raw"):
            side = "strong" if nt.startswith("strong") else "weak"
            L.add(i, side, pclass(e.args[0]), "produce", m, e)
        elif nt in ("strong::Rc::into_raw", "weak::Weak::into_raw"):
            side = "strong" if nt.startswith("strong") else "weak"
            L.add(i, side, owner_class(e.args[0]), "consume", m, e)
        elif nt == "std::mem::ManuallyDrop::new" and (e.callee.type_args() or [{}])[0].get("adt") in ("strong::Rc", "weak::Weak"):
            # `ManuallyDrop::new(Weak::from_raw(ptr))`: a borrowed view of a handle - the value will never give its share back
            L.add(i, OWNER_SIDE[e.callee.type_args()[0].get("adt")], owner_class(e.args[0]), "consume", m, e)
        elif nt == "std::mem::forget":
            targs = e.callee.type_args()
            adt = targs[0].get("adt") if targs else None
            if adt in OWNER_SIDE:
                v = e.args[0]
                mult = m
                if adt == "strong::NewRcIter":
                    sv = strip(v)
                    mult = m.scale(lin_of(("field", "remain", sv), subst))
                if adt in LINK_ADT:
                    raise AnalysisError("OWN: mem::forget of an %s in %s" % (adt, b.name))
                L.add(i, OWNER_SIDE[adt], owner_class(v), "consume", mult, e)
        elif nt.startswith(LINK_OPS):
            op = nt[len(LINK_OPS):]
            side = link_side(prog, b, e.args[0]) if e.args else None
            if side is None:
                continue
            if op == "swap":
                L.add(i, side, pclass(e.args[1]), "produce", m, e)
                L.add(i, side, pclass(e.result), "consume", m, e)
            elif op in ("compare_exchange", "compare_exchange_weak"):
                out = ctx.cas_outcome(path, e.result, i)
                if out == "ok":
                    L.add(i, side, pclass(e.args[2]), "produce", m, e)
                    L.add(i, side, pclass(e.args[1]), "consume", m, e)
                elif out is None and path.exit[0] == "retry" and not [q for q in path.events[i + 1:] if q.kind == "call"]:
                    pass    # the attempt's outcome is tested by the loop header of the next iteration
                elif out is None and path.exit[0] != "diverge":
                    raise AnalysisError("OWN: link CAS outcome untested in %s" % b.name)
            elif op == "store":
                L.add(i, side, pclass(e.args[1]), "produce", m, e)
                L.add(i, side, ("overwritten-link-content",), "lost", m, e)
            elif op in ("load", "get_mut", "new", "is_lock_free"):
                pass
            else:
                raise AnalysisError("OWN: unmodelled link operation %s in %s" % (op, b.name))
        elif nt in ("std::mem::take", "core::mem::take", "std::mem::replace"):
            a = strip(e.args[0])
            if isinstance(a, tuple) and a[0] == "call" and norm(a[1]) == "atomic::Atomic::get_mut":
                side = link_side(prog, b, a[2][0])
                if side:
                    L.add(i, side, pclass(e.result), "consume", m, e)
                    if nt.endswith("replace"):
                        L.add(i, side, pclass(e.args[1]), "produce", m, e)
        elif tgt == ALLOC:
            L.add(i, "strong", pclass(e.result), "inc", m.scale(lin_of(e.args[1], subst)), e)
        elif tgt in (INC_STRONG, TRY_INC_STRONG):
            val = None
            for q in path.events[i + 1:]:
                if q.kind == "cond" and q.term == e.result and isinstance(q.value, int):
                    val = q.value
            if val in (None, 1):
                L.add(i, "strong", pclass(e.args[0]), "inc", m, e)
        elif tgt == DEC_STRONG:
            L.add(i, "strong", pclass(e.args[0]), "dec", m.scale(lin_of(e.args[1], subst)), e)
        elif tgt == INC_WEAK:
            L.add(i, "weak", pclass(e.args[0]), "inc", m.scale(lin_of(e.args[1], subst)), e)
        elif tgt == DEC_WEAK:
            L.add(i, "weak", pclass(e.args[0]), "dec", m, e)
        elif nt.startswith("std::sync::atomic::Atomic::") and b.name == DGN:
            for s in ctx.sites_on_path(path):
                if s["event"] is e and s["delta"].get("strong") and s["outcome"] == "ok":
                    sign, amt = s["delta"]["strong"]
                    L.add(i, "strong", pclass(s["obj"]), "dec" if sign < 0 else "inc", m.scale(lin_of(amt, subst)), e)
        elif nt.startswith("std::sync::atomic::Atomic::") and not b.name.startswith("utils::"):
            # an RMW on the count word seen in a function outside utils.rs: a count-changing helper a refactoring introduced
            # (`RcInner::increment_weak_owned`), read inlined. It counts for what it adds - except the token an increment from
            # zero adds on top (an RMW under `weak(S) == 0` / `strong(S) == 0` of the word an earlier adding RMW observed)
            sites = ctx.sites_on_path(path)
            for s in sites:
                if s["event"] is not e or s["outcome"] != "ok":
                    continue
                for side in ("strong", "weak"):
                    d = s["delta"].get(side)
                    if not d:
                        continue
                    sign, amt = d
                    if sign > 0:
                        earlier = [x["observed"] for x in sites if x["idx"] < s["idx"] and x["delta"].get(side, (0,))[0] > 0]
                        tok = [q for q in ctx.predicates(path, upto=s["idx"]) if q["field"] == side and q["rel"] == "=="
                               and q["S"] in earlier and (q["rhs"] == ("c", 0, "u32") or str(q["rhs"][1:2]) == "(0,)")]
                        if tok:
                            continue
                    L.add(i, side, pclass(s["obj"]), "dec" if sign < 0 else "inc", m.scale(lin_of(amt, subst)), e)
    # Drop impls consume their own share at entry
    if is_drop_impl:
        selfv = ("deref", ("arg", 1, b.local_name(1)))
        if drop_adt in ("strong::Rc", "weak::Weak"):
            L.add(-1, OWNER_SIDE[drop_adt], pclass(("field", "ptr", selfv)), "consume", Lin.const(1), None)
        elif drop_adt == "strong::NewRcIter":
            # what is still held when drop returns goes away with the value: the last value written to `remain` on this
            # path (writes themselves are accounted as old - new above), or the entry value if it is never written
            fin = ("field", "remain", selfv)
            for q in path.events:
                if q.kind == "store":
                    pl = strip(q.place)
                    if isinstance(pl, tuple) and pl[0] == "field" and pl[1] == "remain":
                        fin = q.value
            L.add(-1, "strong", pclass(("field", "ptr", selfv)), "consume", lin_of(fin, subst), None)
        else:
            # the link content read through get_mut
            gm = [e for e in path.events if e.kind == "call" and (e.ntarget or "") == "atomic::Atomic::get_mut"
                  and link_side(prog, b, e.args[0])]
            if len(gm) != 1:
                raise AnalysisError("OWN: Drop for %s does not read its link exactly once" % drop_adt)
            L.add(-1, OWNER_SIDE[drop_adt], pclass(("deref", gm[0].result)), "consume", Lin.const(1), None)
    return L


def check_ledger(r, b, path, L, start_idx=-2):
    """Compare owners with counts per (side, class)."""
    by = {}
    own_obj = ("arg", 1, b.local_name(1)) if b.name == DGN else None
    for (idx, side, cls, kind, mult, ev) in L.entries:
        if idx < start_idx:
            continue
        if own_obj is not None and cls == own_obj:
            # the node being disposed: its token / implicit weak share are protocol steps judged by
            # CW-ATTEMPT-RECHECK and CW-DESTRUCT-ORDER, not owner shares
            continue
        k = (side, cls)
        o, c = by.get(k, (Lin(), Lin()))
        if kind == "produce":
            o = o + mult
        elif kind == "consume":
            o = o - mult
        elif kind == "inc":
            c = c + mult
        elif kind == "dec":
            c = c - mult
        elif kind in ("lost", "overwrite"):
            r.violate(b.name, "%s:%s" % (side, class_str(cls)),
                      "an owner is overwritten without being released" if kind == "lost"
                      else "the pointer of an owner is replaced by a different object", ev.loc() if ev else None)
        by[k] = (o, c)
    ok_all = True
    for (side, cls), (o, c) in by.items():
        if cls in L.null or cls == ("null",):
            continue
        if o == c:
            continue
        ok_all = False
        what = "%s owners %s vs. %s count %s on `%s`" % (side, _signed(o), side, _signed(c), class_str(cls))
        if (o - c).d and all(v > 0 for v in (o - c).d.values()):
            what += " (more owners than counted shares: premature release)"
        elif (o - c).d and all(v < 0 for v in (o - c).d.values()):
            what += " (more counted shares than owners: leak)"
        loc = None
        for (idx, s2, c2, kind, mult, ev) in L.entries:
            if (s2, c2) == (side, cls) and ev is not None:
                loc = ev.loc()
        r.violate(b.name, "%s:%s" % (side, class_str(cls)), what, loc or b.loc(0))
    return ok_all


def _signed(l):
    s = repr(l)
    return s if s.startswith("-") else "+" + s


# ---------------------------------------------------------------- rules
def _own_exec(ctx):
    if not hasattr(ctx, "_own_ex"):
        ctx._own_ex = Exec(ctx.prog, inline=set(INLINED))
        ctx._own_paths = {}
    return ctx._own_ex


def own_paths(ctx, name):
    ex = _own_exec(ctx)
    if name not in ctx._own_paths:
        # (paths that take `new.as_raw() == old.as_raw()` although `new` changes a count of `old` cannot happen: CW._feasible)
        ctx._own_paths[name] = [p for p in ex.paths(ctx.prog.body(name)) if ctx._feasible(p)]
    return ctx._own_paths[name]


def rule_balance(ctx):
    r = RuleResult("OWN-BALANCE", ["C01", "C03", "C04", "C08", "C09", "C10"],
                   "on every path and for every pointer class not known null: owners created - owners given up "
                   "= count increments - count decrements (strong and weak side separately)")
    prog = ctx.prog
    nfun = 0
    counts = {"forget": 0, "from_raw": 0, "into_raw": 0, "alloc": 0, "dec_strong": 0, "dec_weak": 0, "inc_strong": 0,
              "inc_weak": 0}
    for name, b in sorted(prog.bodies.items()):
        if b.kind == "closure":
            continue
        f = b.file()
        if not (f.endswith("strong.rs") or f.endswith("weak.rs") or name == DGN):
            continue
        if name in PRIMITIVES or name in INLINED or name in prog.auto_inline():
            continue
        paths = own_paths(ctx, name)
        any_entry = False
        seen_sites = set()
        for p in paths:
            if p.exit[0] == "diverge" or p.exit[0] == "retry-inner":
                continue
            L = build_ledger(ctx, p, None)
            if not L.entries:
                continue
            any_entry = True
            r.paths += 1
            for (idx, side, cls, kind, mult, ev) in L.entries:
                if ev is None or (ev.bb, ev.frame) in seen_sites:
                    continue
                seen_sites.add((ev.bb, ev.frame))
                if ev.kind == "call":
                    nt = ev.ntarget or ""
                    if nt == "std::mem::forget":
                        counts["forget"] += 1
                    elif nt.endswith("::from_raw"):
                        counts["from_raw"] += 1
                    elif nt.endswith("::into_raw"):
                        counts["into_raw"] += 1
                    elif ev.target == ALLOC:
                        counts["alloc"] += 1
                    elif ev.target == DEC_STRONG:
                        counts["dec_strong"] += 1
                    elif ev.target == DEC_WEAK:
                        counts["dec_weak"] += 1
                    elif ev.target in (INC_STRONG, TRY_INC_STRONG):
                        counts["inc_strong"] += 1
                    elif ev.target == INC_WEAK:
                        counts["inc_weak"] += 1
            start = -2
            if p.exit[0] == "retry":
                hdr = p.exit[1]
                start = None
                for i, e in enumerate(p.events):
                    if e.kind == "bb" and e.bb == hdr and not e.frame:
                        start = i
                        break
                if start is None:
                    start = -2
            ok = check_ledger(r, b, p, L, start)
            r.instance("%s [%s]" % (name, p.exit[0]), ok)
        if any_entry:
            nfun += 1
            r.functions.add(name)
    # the bulk iterator's shares are a number, not objects: a yield is balanced against `remain -= 1` on every path, so the
    # ledger cannot see a yield made with no share left.  Its `next` yields only on a path that knows remain >= 1, and
    # answers None only on a path that knows remain == 0 (the unyielded shares are released by Drop / abort)
    NX = "<strong::NewRcIter<T> as std::iter::Iterator>::next"
    if NX in prog.bodies:
        nb = prog.body(NX)
        r.functions.add(NX)
        for p in own_paths(ctx, NX):
            if p.exit[0] != "return":
                continue
            ret = strip(p.ret)
            some = isinstance(ret, tuple) and ret[0] == "agg" and ret[2] == "Some"
            none = isinstance(ret, tuple) and ret[0] == "agg" and ret[2] == "None"
            knows_pos = knows_zero = False
            for e in p.events:
                if e.kind != "cond" or not isinstance(e.term, tuple) or e.term[0] != "bin" or "remain" not in show(e.term[2]):
                    continue
                op, c, v = e.term[1], const_of(e.term[3]), e.value
                if c is None or v not in (0, 1):
                    continue
                if (op, c, v) in (("Eq", 0, 0), ("Ne", 0, 1), ("Gt", 0, 1), ("Ge", 1, 1), ("Lt", 1, 0), ("Le", 0, 0)):
                    knows_pos = True
                if (op, c, v) in (("Eq", 0, 1), ("Ne", 0, 0), ("Gt", 0, 0), ("Ge", 1, 0), ("Lt", 1, 1), ("Le", 0, 1)):
                    knows_zero = True
            if some:
                r.instance("NewRcIter::next yields only when a share remains", knows_pos)
                if not knows_pos:
                    r.violate(NX, "yield-without-share", "the bulk iterator yields an Rc on a path that does not know "
                              "`remain >= 1`: an owner without a counted share (premature release)", nb.loc(0))
            elif none:
                r.instance("NewRcIter::next ends only when no share remains", knows_zero)
                if not knows_zero:
                    r.violate(NX, "ends-early", "the bulk iterator answers None although shares remain: fewer owners are "
                              "handed out than advertised", nb.loc(0))
    # counted by hand on the pinned tree (+ the five fixes) and equal to what the reader finds
    # role-based floors (forget(x) and x.into_raw() are interchangeable ways of giving up an owner)
    # (today's counts are 14/14/3/7/4/3/4; the floors leave room for siblings merged into a shared helper - a lost
    # anchor shows up as a collapse, not as one site less)
    roles = {"owners given up (forget + into_raw)": (counts["forget"] + counts["into_raw"], 9),
             "owners created (from_raw)": (counts["from_raw"], 9),
             "alloc": (counts["alloc"], 2), "strong decrements": (counts["dec_strong"], 4),
             "weak decrements": (counts["dec_weak"], 2), "strong increments": (counts["inc_strong"], 2),
             "weak increments": (counts["inc_weak"], 2)}
    r.notes.append("primitive event sites: %s" % counts)
    ctx._own_counts = counts
    for k, (have, fl) in roles.items():
        if have < fl:
            r.floor_failures.append("OWN-BALANCE: found %d sites of `%s`, expected at least %d (anchor lost?)" % (have, k, fl))
    r.require(nfun, 22, "functions carrying ownership events")
    return r


def _unwrap_md(t):
    """`(*ManuallyDrop::new(x)).ptr` -> `x.ptr`"""
    t = strip(t)
    if isinstance(t, tuple) and t[0] == "field":
        base = strip(t[2])
        while isinstance(base, tuple) and base[0] in ("deref", "ref", "load"):
            base = strip(base[1])
        if isinstance(base, tuple) and base[0] == "call" and (norm(base[1]).endswith("ManuallyDrop<T> as std::ops::Deref>::deref")
                                                                  or norm(base[1]) == "std::ops::Deref::deref") and base[2]:
            base = strip(base[2][0])
            while isinstance(base, tuple) and base[0] in ("deref", "ref", "load"):
                base = strip(base[1])
        if isinstance(base, tuple) and base[0] == "call" and norm(base[1]) == "std::mem::ManuallyDrop::new" and base[2]:
            base = strip(base[2][0])
        return ("field", t[1], base)
    return t


def rule_primitives(ctx):
    r = RuleResult("OWN-PRIMITIVES", ["C01", "C03", "C08", "C09", "C10"],
                   "from_raw / into_raw move ownership without touching any count")
    prog = ctx.prog
    for name, why in PRIMITIVES.items():
        b = prog.body(name)
        r.functions.add(name)
        for p in own_paths(ctx, name):
            if p.exit[0] != "return":
                continue
            r.paths += 1
            cnt = [e for e in p.events if e.kind == "call" and (e.target or "").startswith("utils::RcInner")]
            # (`ManuallyDrop::new(self).ptr` gives the share up like `forget(self)`: the wrapper is never dropped)
            forgets = [e for e in p.events if e.kind == "call" and e.ntarget in ("std::mem::forget", "std::mem::ManuallyDrop::new")]
            drops = [e for e in p.events if e.kind == "drop" and e.adt in OWNER_SIDE]
            if name.endswith("from_raw"):
                # exactly the argument: the word carries the tag (and the epoch bits), which `pclass` would ignore
                ok = (not cnt and not forgets and isinstance(p.ret, tuple) and p.ret[0] == "agg"
                      and strip(p.ret[3][0]) == ("arg", 1, b.local_name(1)))
                what = "from_raw must build the owner from exactly its argument (pointer, tag and all) and nothing else"
            else:
                ok = (not cnt and len(forgets) == 1 and not drops and strip(forgets[0].args[0]) == ("arg", 1, b.local_name(1))
                      and _unwrap_md(p.ret) == ("field", "ptr", ("arg", 1, b.local_name(1))))
                what = "into_raw must forget(self) exactly once, drop nothing and return exactly self.ptr (tag included)"
            r.instance("%s: %s" % (name, why), ok)
            if not ok:
                r.violate(name, "primitive", what, b.loc(0))
    r.require(len(r.instances), 4, "primitives")
    return r


CAS_METHODS = {
    "strong::AtomicRc::<T>::compare_exchange": ("strong", "owner"),
    "strong::AtomicRc::<T>::compare_exchange_weak": ("strong", "owner"),
    "strong::AtomicRc::<T>::compare_exchange_tag": ("strong", "tag"),
    "weak::AtomicWeak::<T>::compare_exchange": ("weak", "owner"),
    "weak::AtomicWeak::<T>::compare_exchange_weak": ("weak", "owner"),
    "weak::AtomicWeak::<T>::compare_exchange_tag": ("weak", "tag"),
}


def _link_cas_events(ctx, p):
    out = []
    for i, e in enumerate(p.events):
        if e.kind == "call" and (e.ntarget or "") in ("atomic::Atomic::compare_exchange", "atomic::Atomic::compare_exchange_weak"):
            if link_side(ctx.prog, p.body, e.args[0]):
                out.append((i, e, ctx.cas_outcome(p, e.result, i)))
    return out


def _agg_field(t, name):
    t = strip(t)
    if isinstance(t, tuple) and t[0] == "agg":
        names = t[5] if len(t) > 5 else ()
        if name in names:
            return t[3][names.index(name)]
        try:
            return t[3][int(name)]
        except (ValueError, IndexError):
            return None
    return None


def rule_provenance(ctx):
    r = RuleResult("OWN-PROVENANCE", ["C08", "C09", "C10"],
                   "what an exchange returns refers to the right object: success -> the value compared against; "
                   "failure -> the moved `desired` and the atomic op's Err payload; swap/take -> previous content")
    prog = ctx.prog
    n = 0
    for name, (side, kind) in CAS_METHODS.items():
        b = prog.body(name)
        r.functions.add(name)
        for p in own_paths(ctx, name):
            if p.exit[0] != "return":
                continue
            r.paths += 1
            cas = _link_cas_events(ctx, p)
            if not cas:
                r.violate(name, "no-cas", "returns without performing the atomic exchange", b.loc(0))
                continue
            (i, e, out) = cas[-1]
            ret = p.ret
            variant = ret[2] if isinstance(ret, tuple) and ret[0] == "agg" else None
            n += 1
            if out == "ok":
                payload = _agg_field(ret, "0")
                if kind == "owner":
                    ok = (variant == "Ok" and isinstance(payload, tuple) and payload[0] == "call"
                          and norm(payload[1]).endswith("::from_raw") and pclass(payload[2][0]) == pclass(e.args[1]))
                    what = "on success the returned owner must be built from the value the exchange compared against"
                else:
                    okp = ("field", "0", ("variant", "Ok", e.result))
                    ok = variant == "Ok" and isinstance(payload, tuple) and payload[0] == "call" and \
                        (strip(payload[2][0]) == okp or pclass(payload[2][0]) == pclass(e.args[1]))
                    what = "on success the returned snapshot must be the previous content"
            elif out == "err":
                err = _agg_field(ret, "0")
                des = _agg_field(err, "desired")
                cur = _agg_field(err, "current")
                errp = ("field", "0", ("variant", "Err", e.result))
                cur_ok = isinstance(cur, tuple) and cur[0] == "call" and norm(cur[1]).endswith("::from_raw") and \
                    strip(cur[2][0]) == errp
                if kind == "owner":
                    owner_params = [k for k in range(1, b.arg_count + 1) if b.locals[k].get("adt") in ("strong::Rc", "weak::Weak")
                                    and not b.locals[k]["ty"].startswith("&")]
                    des_ok = (des is not None and len(owner_params) == 1
                              and strip(des) == ("arg", owner_params[0], b.local_name(owner_params[0])))
                else:
                    des_ok = isinstance(des, tuple) and des[0] == "call" and pclass(des[2][0]) == pclass(e.args[2])
                ok = variant == "Err" and cur_ok and des_ok
                what = "on failure `desired` must be the moved parameter and `current` the atomic operation's Err payload"
            else:
                raise AnalysisError("OWN-PROVENANCE: outcome of the exchange undecided on a return path of %s" % name)
            r.instance("%s [%s]" % (name, out), ok)
            if not ok:
                r.violate(name, "return:" + out, what, e.loc())
    for name, op in (("strong::AtomicRc::<T>::swap", "swap"), ("weak::AtomicWeak::<T>::swap", "swap"),
                     ("strong::AtomicRc::<T>::take", "take")):
        b = prog.body(name)
        r.functions.add(name)
        for p in own_paths(ctx, name):
            if p.exit[0] != "return":
                continue
            r.paths += 1
            n += 1
            src = None
            for e in p.events:
                if e.kind == "call" and ((op == "swap" and e.ntarget == "atomic::Atomic::swap") or
                                         (op == "take" and ((e.ntarget or "").endswith("mem::take") or
                                                            # `mem::replace(link, null)` leaves null like `mem::take(link)`
                                                            ((e.ntarget or "").endswith("mem::replace") and len(e.args) > 1 and
                                                             isinstance(strip(e.args[1]), tuple) and strip(e.args[1])[0] == "call" and
                                                             norm(strip(e.args[1])[1]).endswith(("::null", "Default>::default")))))):
                    src = e
            ret = p.ret
            ok = src is not None and isinstance(ret, tuple) and ret[0] == "call" and norm(ret[1]).endswith("::from_raw") \
                and pclass(ret[2][0]) == pclass(src.result)
            if ok and op == "swap":
                ok = pclass(src.args[1]) == ("field", "ptr", ("arg", 2, b.local_name(2)))
            r.instance("%s returns the previous content" % name, ok)
            if not ok:
                r.violate(name, "return", "must return an owner of exactly the pointer the atomic %s removed (and install "
                          "the argument)" % op, b.loc(0))
    r.require(n, 15, "exchange return paths")
    return r
