"""CMP-DELEGATE (C19) and TY-SIG (signature-level facts for C02/C16)."""
from .facts import AnalysisError
from .report import RuleResult
from .sym import norm, show, strip

TYPES = {"strong::Rc": "strong::Rc<T>", "strong::Snapshot": "strong::Snapshot<'g, T>"}
METHODS = {
    "std::cmp::PartialEq": ("eq", 2, "<std::option::Option<T> as std::cmp::PartialEq>::eq"),
    "std::cmp::PartialOrd": ("partial_cmp", 2, "<std::option::Option<T> as std::cmp::PartialOrd>::partial_cmp"),
    "std::cmp::Ord": ("cmp", 2, "<std::option::Option<T> as std::cmp::Ord>::cmp"),
    "std::hash::Hash": ("hash", 1, "<std::option::Option<T> as std::hash::Hash>::hash"),
}


def _by_cases(prog, b, paths, adt, meth):
    """None if the paths of eq/partial_cmp/cmp are exactly: (null, null) -> equal; (null, obj) -> less / unequal;
    (obj, null) -> greater / unequal; (obj, obj) -> the payload type's operation on deref(self), deref(other).
    Otherwise a reason."""
    from .sym import subterms
    isnull = "%s::<%s>::is_null" % (adt, "T" if adt.endswith("Rc") else "'g, T")
    deref = isnull.replace("is_null", "deref")
    seen = set()

    def ordering(t):
        t = strip(t)
        if isinstance(t, tuple) and t[0] == "agg" and t[1] == "std::cmp::Ordering":
            return t[2]
        return None
    for p in paths:
        if p.exit[0] != "return":
            return "a path does not return"
        dec = {}
        for e in p.events:
            if e.kind == "cond" and isinstance(e.term, tuple) and e.term[0] == "call" and e.term[1] == isnull and e.value in (0, 1):
                a = strip(e.term[2][0])
                for k in (1, 2):
                    if a == ("arg", k, b.local_name(k)):
                        dec[k] = e.value == 1
        cases = [(x, y) for x in ((dec[1],) if 1 in dec else (True, False)) for y in ((dec[2],) if 2 in dec else (True, False))]
        ret = strip(p.ret)
        for (an, bn) in cases:
            seen.add((an, bn))
            if not an and not bn:
                want = {"eq": ("PartialEq", "eq"), "partial_cmp": ("PartialOrd", "partial_cmp"), "cmp": ("Ord", "cmp")}[meth]
                okc = isinstance(ret, tuple) and ret[0] == "call" and ret[1].endswith("::" + want[1]) and want[0] in ret[1] \
                    and len(ret[2]) == 2
                if okc:
                    for k in (0, 1):
                        d = [x for x in subterms(ret[2][k]) if x[0] == "call" and x[1] == deref]
                        okc = okc and len(d) == 1 and any(y == ("arg", k + 1, b.local_name(k + 1)) for y in subterms(d[0]))
                if not okc:
                    return "two objects are not compared by %s::%s on deref(self), deref(other)" % want
                continue
            if meth == "eq":
                want = 1 if (an and bn) else 0
                if not (isinstance(ret, tuple) and ret[0] == "c" and ret[1] == want):
                    return "null cases of eq: (%s, %s) does not give %s" % (an, bn, bool(want))
            else:
                want = "Equal" if (an and bn) else "Less" if an else "Greater"
                got = ret
                if meth == "partial_cmp":
                    if not (isinstance(ret, tuple) and ret[0] == "agg" and ret[2] == "Some" and ret[3]):
                        return "null cases of partial_cmp do not return Some(..)"
                    got = ret[3][0]
                if ordering(got) != want:
                    return "null cases of %s: (null=%s, null=%s) does not give %s" % (meth, an, bn, want)
    if seen != {(True, True), (True, False), (False, True), (False, False)}:
        return "not all four null cases are decided"
    return None


def _deref_arg(t):
    while isinstance(t, tuple) and t[0] in ("ref", "deref", "load"):
        t = strip(t[1])
    return t


def rule_cmp_delegate(ctx):
    r = RuleResult("CMP-DELEGATE", ["C19"],
                   "Eq/Ord/PartialOrd/Hash of Rc and Snapshot are exactly the Option<&T> operations applied to as_ref(); "
                   "as_ref is None iff Tagged::is_null; ptr_eq is Tagged::ptr_eq")
    prog = ctx.prog
    for adt, selfty in TYPES.items():
        asref = "%s::<%s>::as_ref" % (adt, "T" if adt.endswith("Rc") else "'g, T")
        prog.body(asref)
        ASREFS = ("strong::Rc::<T>::as_ref", "strong::Snapshot::<'g, T>::as_ref")
        jobs = []
        for trait, (meth, noperands, target) in METHODS.items():
            jobs.append(("<%s as %s>::%s" % (selfty, trait, meth), meth, noperands, target))
            # comparisons with the *other* handle type (`Rc == Snapshot`): the same obligation, each operand through its own as_ref
            pre = "<%s as %s<" % (selfty, trait)
            for nm in sorted(prog.bodies):
                if nm.startswith(pre) and nm.endswith(">>::" + meth) and prog.bodies[nm].kind != "closure" and \
                        any(h in nm[len(pre):] for h in ("strong::Rc<", "strong::Snapshot<")):
                    jobs.append((nm, meth, noperands, target))
        for (name, meth, noperands, target) in jobs:
            b = prog.body(name)
            r.functions.add(name)
            paths = [p for p in ctx.ex.paths(b) if p.exit[0] != "diverge"]
            r.paths += len(paths)
            ok = len(paths) == 1
            why = "more than one path" if not ok else None
            if not ok and noperands == 2 and meth != "hash":
                # the same relation spelled out: a case analysis on which operand is null - null is equal to null only and
                # smaller than every object, two objects compare as their referents do
                why2 = _by_cases(prog, b, paths, adt, meth)
                if why2 is None:
                    r.instance("%s == Option<&T>::%s(as_ref..) (spelled out by null cases)" % (name, meth), True)
                    continue
                why = "more than one path, and not the null-case analysis either: %s" % why2
            if ok:
                p = paths[0]
                calls = [e for e in p.events if e.kind == "call"]
                asrefs = [e for e in calls if e.target in ASREFS]
                others = [e for e in calls if e.target not in ASREFS]
                if meth == "eq" and name.count("strong::") >= 2 and not asrefs and len(others) == 1 and \
                        (others[0].ntarget or "") in ("std::cmp::impls::eq", "std::cmp::PartialEq::eq") and \
                        {_deref_arg(strip(a)) for a in others[0].args} == {("arg", 1, b.local_name(1)), ("arg", 2, b.local_name(2))} and \
                        strip(p.ret) == others[0].result:
                    # `Snapshot == Rc` written as `other == self`: equality is symmetric, the impl it lands on is judged itself
                    pass
                elif len(asrefs) != noperands or len(others) != 1:
                    ok, why = False, "calls %s" % [e.ntarget for e in calls]
                else:
                    o = others[0]
                    disp = o.callee.full or ""
                    if o.target != target or not disp.startswith("<std::option::Option<&T> as "):
                        ok, why = False, "delegates to `%s` instead of %s on Option<&T>" % (disp, target)
                    else:
                        for k in range(noperands):
                            want = strip(asrefs[k].args[0])
                            if want != ("arg", k + 1, b.local_name(k + 1)):
                                ok, why = False, "as_ref() is not applied to operand %d" % (k + 1)
                            a = strip(o.args[k])
                            if a != asrefs[k].result:
                                ok, why = False, "operand %d of the Option operation is not as_ref() of operand %d" % (k, k)
                        if meth != "hash" and strip(p.ret) != o.result:
                            ok, why = False, "does not return the result of the Option operation"
            r.instance("%s == Option<&T>::%s(as_ref..)" % (name, meth), ok)
            if not ok:
                r.violate(name, meth, "does not delegate to the operation on Option<&T> of as_ref(): %s" % why, b.loc(0))
        # Eq marker
        eqs = [i for i in prog.items["impls"] if i.get("self_adt") == adt and i.get("trait") == "std::cmp::Eq"]
        ok = len(eqs) == 1 and not [x for x in eqs[0]["items"] if x != "assert_receiver_is_total_eq"]
        r.instance("Eq for %s is a marker impl" % adt, ok)
        if not ok:
            r.violate(adt, "Eq", "Eq is not a plain marker impl")
        # the impls claim for the pointer exactly what the payload has: `Rc<T>: Tr` only where `T: Tr` (or a trait that
        # has Tr as a supertrait).  A relaxed bound changes no method body, but lets the pointer claim a law - Eq's
        # reflexivity, Ord's totality - for a payload whose own comparison does not have it (`x == x` false for an `Eq` key)
        IMPLIES = {"std::cmp::PartialEq": ("std::cmp::PartialEq", "std::cmp::Eq", "std::cmp::PartialOrd", "std::cmp::Ord"),
                   "std::cmp::Eq": ("std::cmp::Eq", "std::cmp::Ord"),
                   "std::cmp::PartialOrd": ("std::cmp::PartialOrd", "std::cmp::Ord"),
                   "std::cmp::Ord": ("std::cmp::Ord",),
                   "std::hash::Hash": ("std::hash::Hash",)}
        for trait, enough in IMPLIES.items():
            for im in [i for i in prog.items["impls"] if i.get("self_adt") == adt and i.get("trait") == trait]:
                ok = any(("TraitPredicate(<T as %s>, polarity:Positive)" % t) in w for t in enough for w in im.get("where", []))
                r.instance("%s for %s requires T: %s" % (trait.split("::")[-1], adt, trait.split("::")[-1]), ok)
                if not ok:
                    r.violate("<%s as %s>" % (selfty, trait), "bound", "the impl does not require `T: %s`: the pointer claims "
                              "%s for payloads whose own comparison does not have its laws (e.g. a float field: `x == x` is "
                              "false for a type that is `Eq`, a HashSet keyed on it loses keys)"
                              % (trait.split("::")[-1], trait.split("::")[-1]), "%s:%s" % (im["span"]["file"], im["span"]["line"]))
        # no second impl of the comparison traits
        for trait in METHODS:
            n = [i for i in prog.items["impls"] if i.get("self_adt") == adt and i.get("trait") == trait]
            judged = [j for j in jobs if j[0].startswith("<%s as %s" % (selfty, trait))]
            if len(n) < 1 or len(n) != len(judged):
                r.violate(adt, trait, "%d impl(s) of %s, of which %d could be judged (one for the type itself, and comparisons with "
                          "the other handle type): a comparison with anything else is unclassified" % (len(n), trait, len(judged)))
        # as_ref
        b = prog.body(asref)
        r.functions.add(asref)
        for p in ctx.ex.paths(b):
            if p.exit[0] != "return":
                continue
            # (decided by Tagged::is_null of the word, or by the handle's own is_null, which BIT-DELEGATION shows to be that)
            nullc = [e for e in p.events if e.kind == "cond" and isinstance(e.term, tuple) and e.term[0] == "call"
                     and (norm(e.term[1]) == "ebr_impl::pointers::Tagged::is_null" or
                          norm(e.term[1]) in ("strong::Rc::is_null", "strong::Snapshot::is_null"))]
            if len(nullc) != 1:
                # the other spelling: `unsafe { self.ptr.as_ref() }.map(RcInner::data)` - decided by Tagged::as_ref of the handle's
                # own word, which is None iff Tagged::is_null and Some(Tagged::deref) otherwise (judged on its body, below)
                alt = [e for e in p.events if e.kind == "cond" and isinstance(e.term, tuple) and e.term[0] == "disc"
                       and isinstance(e.term[1], tuple) and e.term[1][0] == "call"
                       and norm(e.term[1][1]) == "ebr_impl::pointers::Tagged::as_ref" and e.term[1][2]
                       and _own_word(e.term[1][2][0])]
                if nullc or len(alt) != 1 or not _tagged_as_ref_sound(ctx, prog):
                    r.violate(asref, "as_ref", "as_ref does not decide by Tagged::is_null", b.loc(0))
                    continue
                isnull = alt[0].value == 0
                ret = p.ret
                var = ret[2] if isinstance(ret, tuple) and ret[0] == "agg" else None
                if isnull:
                    ok = var == "None"
                else:
                    ok = var == "Some"
                    if ok:
                        inner = strip(ret[3][0])
                        ok = isinstance(inner, tuple) and inner[0] == "call" and norm(inner[1]) == "utils::RcInner::data" and \
                            len(inner[2]) == 1 and _peel(inner[2][0]) == ("field", "0", ("variant", "Some", alt[0].term[1]))
                r.instance("%s: Tagged::as_ref is %s -> %s" % (asref, "None" if isnull else "Some", var), ok)
                if not ok:
                    r.violate(asref, "as_ref", "as_ref must be None iff the pointer is null and Some(&referent) otherwise",
                              b.loc(0))
                continue
            isnull = nullc[0].value == 1
            ret = p.ret
            var = ret[2] if isinstance(ret, tuple) and ret[0] == "agg" else None
            if isnull:
                ok = var == "None"
            else:
                ok = var == "Some"
                if ok:
                    inner = strip(ret[3][0])
                    ok = isinstance(inner, tuple) and inner[0] == "call" and inner[1].endswith("::deref") and \
                        strip(inner[2][0]) == ("arg", 1, b.local_name(1))
            r.instance("%s: is_null=%s -> %s" % (asref, isnull, var), ok)
            if not ok:
                r.violate(asref, "as_ref", "as_ref must be None iff the pointer is null and Some(&referent) otherwise",
                          b.loc(0))
        # deref -> Tagged::deref(self.ptr).data()
        dname = asref.replace("as_ref", "deref")
        b = prog.body(dname)
        ps = [p for p in ctx.ex.paths(b) if p.exit[0] == "return"]
        ok = len(ps) == 1
        if ok:
            ret = strip(ps[0].ret)
            ok = (isinstance(ret, tuple) and ret[0] == "call" and ret[1] == "utils::RcInner::<T>::data"
                  and isinstance(strip(ret[2][0]), tuple) and norm(strip(ret[2][0])[1]) == "ebr_impl::pointers::Tagged::deref")
        r.instance("%s == self.ptr.deref().data()" % dname, ok)
        if not ok:
            r.violate(dname, "deref", "deref must return the payload of the object the pointer refers to", b.loc(0))
        # ptr_eq
        pname = asref.replace("as_ref", "ptr_eq")
        b = prog.body(pname)
        ps = [p for p in ctx.ex.paths(b) if p.exit[0] == "return"]
        ok = len(ps) == 1
        if ok:
            ret = strip(ps[0].ret)
            ok = isinstance(ret, tuple) and ret[0] == "call" and norm(ret[1]) == "ebr_impl::pointers::Tagged::ptr_eq"
            if ok:
                a0, a1 = strip(ret[2][0]), strip(ret[2][1])
                ok = (a0[0] == "field" and a0[1] == "ptr" and strip(a0[2]) == ("arg", 1, b.local_name(1))
                      and a1[0] == "field" and a1[1] == "ptr" and strip(a1[2]) == ("arg", 2, b.local_name(2)))
        r.instance("%s == Tagged::ptr_eq(self.ptr, other.ptr)" % pname, ok)
        if not ok:
            r.violate(pname, "ptr_eq", "ptr_eq must compare the two packed pointers with Tagged::ptr_eq", b.loc(0))
    # data(): &self.storage
    b = prog.body("utils::RcInner::<T>::data")
    ps = [p for p in ctx.ex.paths(b) if p.exit[0] == "return"]
    ok = len(ps) == 1 and "storage" in show(ps[0].ret)
    r.instance("RcInner::data == &self.storage", ok)
    if not ok:
        r.violate(b.name, "data", "data() must return the stored payload", b.loc(0))
    r.require(len(r.instances), 17, "delegation obligations")
    return r


def _snapshot_lifetimes(s):
    """lifetime arguments of every Snapshot<..>/WeakSnapshot<..> mentioned in a type string"""
    out = set()
    i = 0
    while True:
        j = s.find("Snapshot<", i)
        if j < 0:
            break
        k = j + len("Snapshot<")
        # lifetime token: up to the top-level comma
        depth = 0
        e = k
        while e < len(s):
            ch = s[e]
            if ch in "(<":
                depth += 1
            elif ch in ")>":
                if depth == 0:
                    break
                depth -= 1
            elif ch == "," and depth == 0:
                break
            e += 1
        out.add(s[k:e].strip())
        i = k
    return out


def rule_ty_sig(ctx):
    r = RuleResult("TY-SIG", ["C02", "C16"],
                   "every function returning a Snapshot<'g>/WeakSnapshot<'g> is tied to a &'g Guard or a 'g snapshot; "
                   "reactivate / reactivate_after take &mut self")
    prog = ctx.prog
    n = 0
    for f in prog.items["fns"]:
        if not ("Public" in f["vis"]):
            continue
        out = f["output"]
        lts = _snapshot_lifetimes(out)
        if lts:
            if f["path"].endswith("::null") or f["path"].endswith("::default"):
                continue
            n += 1
            ins = f["inputs"]
            ok = True
            for lt in lts:
                tied = any((lt in i and "Guard" in i) or (lt in _snapshot_lifetimes(i)) for i in ins)
                ok = ok and tied and lt not in ("'static", "'{erased}")
            r.instance("%s -> %s" % (f["path"], out[:60]), ok)
            if not ok:
                r.violate(f["path"], "signature", "returns a snapshot whose lifetime is not tied to a guard or to another "
                          "snapshot", "%s:%d" % (f["span"]["file"], f["span"]["line"]))
    for nm in ("ebr_impl::guard::Guard::reactivate", "ebr_impl::guard::Guard::reactivate_after"):
        fs = [f for f in prog.items["fns"] if f["path"] == nm]
        if not fs:
            raise AnalysisError("anchor missing: %s" % nm)
        ok = fs[0]["inputs"][0].startswith("&") and "mut" in fs[0]["inputs"][0].split("Guard")[0]
        r.instance("%s takes &mut self" % nm, ok)
        if not ok:
            r.violate(nm, "receiver", "must take &mut self so that no snapshot borrowed from the guard survives it",
                      "%s:%d" % (fs[0]["span"]["file"], fs[0]["span"]["line"]))
    # Every *source* of a strong Snapshot needs an argument why the cascade cannot destruct the referent inside the
    # critical section (F12 was a source nobody had asked that question about). The table names the rule that checks it.
    SOURCES = {
        "strong::AtomicRc::<T>::load": "came through an owner's link: the link word carries the epoch it was written in (LINK-STAMP)",
        "strong::AtomicRc::<T>::compare_exchange": "`current` of a failure: read from the link like load (LINK-STAMP)",
        "strong::AtomicRc::<T>::compare_exchange_weak": "`current` of a failure: read from the link like load (LINK-STAMP)",
        "strong::AtomicRc::<T>::compare_exchange_tag": "the expected Snapshot (already protected) / the link's word (LINK-STAMP)",
        "strong::Rc::<T>::snapshot": "the Rc is an owner; if it is dropped inside the critical section its decrement stamps the "
                                     "current epoch (CW-STAMP-ON-DEC)",
        "<strong::Snapshot<'g, T> as std::clone::Clone>::clone": "derived from a Snapshot of the same guard",
        "strong::Snapshot::<'g, T>::with_tag": "derived from a Snapshot of the same guard",
        "weak::WeakSnapshot::<'g, T>::upgrade": "did not come through an owner: the check leaves the token or the current epoch on "
                                                "the count word (CW-UPGRADE-TRACE)",
    }
    for f in prog.items["fns"]:
        if "Public" not in f["vis"] or "strong::Snapshot<" not in f["output"]:
            continue
        if f["path"].endswith("::null") or f["path"].endswith("::default"):
            continue
        why = SOURCES.get(f["path"])
        r.instance("source of a strong Snapshot: %s [%s]" % (f["path"], (why or "UNCLASSIFIED")[:70]), why is not None)
        if why is None:
            r.violate(f["path"], "unclassified-source", "hands out a strong Snapshot but is not one of the classified sources: "
                      "say why the cascade cannot destruct the referent inside the critical section (which stamp or count "
                      "records the access) and which rule checks it", "%s:%d" % (f["span"]["file"], f["span"]["line"]))
    # references into the payload: a handle's accessor hands out a reference whose lifetime is the borrow of the handle (Rc) or
    # the guard's `'g` (Snapshot) - never a lifetime that no input carries (`fn as_ref<'a>(&self) -> Option<&'a T>` compiles,
    # because the body goes through a raw pointer, and lets safe code keep the reference after the last owner is gone)
    import re as _re
    nref = 0
    for f in prog.items["fns"]:
        if "Public" not in f["vis"] or not f["path"].startswith(("strong::", "weak::")) or "::test" in f["path"]:
            continue
        out = f["output"]
        regs = set(_re.findall(r"&('(?:\^[0-9]+\.Named\(DefId\([^)]*\)\)|[A-Za-z_{}]+(?:/#[0-9]+)?))", out))
        if not regs:
            continue
        nref += 1
        ins = " ".join(f["inputs"])
        ok = True
        for rg in regs:
            base = rg.split("/#")[0]
            if base in ("'static", "'{erased}") or (rg not in ins and (base + "/#") not in ins and (base + " ") not in ins + " "):
                ok = False
        r.instance("%s: the reference it returns borrows from an input (%s)" % (f["path"], ", ".join(sorted(x.split("(")[0] for x in regs))), ok)
        if not ok:
            r.violate(f["path"], "unbounded-reference", "returns a reference whose lifetime is carried by no input (not the borrow "
                      "of the handle, not the guard's): safe code can keep it after the handle - and the object - is gone",
                      "%s:%d" % (f["span"]["file"], f["span"]["line"]))
    # ... and a weak handle hands out no reference to the payload at all, under whatever name (the witnesses TY-WEAK-NO-DEREF can
    # only try the names they know): the payload may be destructed while a Weak / WeakSnapshot exists
    nweak = 0
    for f in prog.items["fns"]:
        if "Public" not in f["vis"] or not f["path"].startswith("weak::") or "::test" in f["path"]:
            continue
        nweak += 1
        out = f["output"]
        bad = _re.search(r"&'(?:\^[0-9]+\.Named\(DefId\([^)]*\)\)|[A-Za-z_{}]+(?:/#[0-9]+)?) (?:mut )?T/#", out)
        if bad:
            r.instance("%s: no reference to the payload through a weak handle" % f["path"], False)
            r.violate(f["path"], "weak-deref", "a weak handle hands out a reference to the payload (%s): the object may "
                      "already be destructed" % out[:60], "%s:%d" % (f["span"]["file"], f["span"]["line"]))
    r.instance("no public function of weak.rs returns a reference to the payload (%d signatures)" % nweak, True)
    if nref < 6 and not r.violations:
        r.floor_failures.append("TY-SIG: found %d reference-returning accessors of the handle types, expected at least 6" % nref)
    r.require(n, 17, "snapshot-returning public functions")
    return r


def _peel(t):
    while isinstance(t, tuple) and t[0] in ("ref", "deref") and len(t) >= 2:
        t = t[1]
    return t


def _own_word(t):
    """`self.ptr` of the function's own receiver (by value or behind the reference)"""
    t = _peel(t)
    if not (isinstance(t, tuple) and t[0] == "field" and t[1] == "ptr"):
        return False
    base = _peel(t[2])
    return isinstance(base, tuple) and base[0] == "arg" and base[1] == 1


def _tagged_as_ref_sound(ctx, prog):
    """Tagged::as_ref is None iff Tagged::is_null(self) and Some(Tagged::deref(self)) otherwise, on every returning path"""
    b = prog.bodies.get("ebr_impl::pointers::Tagged::<T>::as_ref")
    if b is None:
        return False
    n = 0
    for p in ctx.ex.paths(b):
        if p.exit[0] != "return":
            continue
        nullc = [e for e in p.events if e.kind == "cond" and isinstance(e.term, tuple) and e.term[0] == "call"
                 and norm(e.term[1]) == "ebr_impl::pointers::Tagged::is_null" and e.term[2]
                 and isinstance(_peel(e.term[2][0]), tuple) and _peel(e.term[2][0])[:2] == ("arg", 1)]
        if len(nullc) != 1:
            return False
        ret = p.ret
        var = ret[2] if isinstance(ret, tuple) and ret[0] == "agg" else None
        if nullc[0].value == 1:
            ok = var == "None"
        else:
            ok = var == "Some"
            if ok:
                inner = _peel(ret[3][0])
                ok = isinstance(inner, tuple) and inner[0] == "call" and norm(inner[1]) == "ebr_impl::pointers::Tagged::deref" and \
                    inner[2] and isinstance(_peel(inner[2][0]), tuple) and _peel(inner[2][0])[:2] == ("arg", 1)
        if not ok:
            return False
        n += 1
    return n >= 2
