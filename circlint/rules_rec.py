"""REC-DEPTH-GUARD (C07) and REC-IMMEDIATE (C06)."""
import re
from .facts import AnalysisError
from .report import RuleResult
from .sym import Exec, norm, show, strip, subterms
from .cw import const_of, _uncast
from .rules_cw import DGN, DISPOSE, TRY_DESTRUCT, handoffs, ptr_root, _path_consistent_with_arg

MIN_FRAME = 16          # a frame is at least a return address, 16-byte aligned (x86-64 SysV)
MIN_LEGAL_STACK = 16384  # PTHREAD_STACK_MIN on this platform: the smallest stack a user may legally configure


def _sccs(graph):
    idx = {}
    low = {}
    st = []
    on = set()
    out = []
    counter = [0]

    def strong(v):
        work = [(v, iter(graph.get(v, ())))]
        idx[v] = low[v] = counter[0]
        counter[0] += 1
        st.append(v)
        on.add(v)
        while work:
            node, it = work[-1]
            adv = False
            for w in it:
                if w not in idx:
                    idx[w] = low[w] = counter[0]
                    counter[0] += 1
                    st.append(w)
                    on.add(w)
                    work.append((w, iter(graph.get(w, ()))))
                    adv = True
                    break
                elif w in on:
                    low[node] = min(low[node], idx[w])
            if adv:
                continue
            work.pop()
            if work:
                low[work[-1][0]] = min(low[work[-1][0]], low[node])
            if low[node] == idx[node]:
                comp = []
                while True:
                    w = st.pop()
                    on.discard(w)
                    comp.append(w)
                    if w == node:
                        break
                out.append(comp)
    for v in list(graph):
        if v not in idx:
            strong(v)
    return out


def _defers(prog, name, seen=None):
    """does this helper (or a closure / helper it reaches) hand something to the deferral primitive?"""
    seen = seen or set()
    if name in seen:
        return False
    seen.add(name)
    b = prog.bodies.get(name)
    if b is None:
        return False
    for bb_ in [b] + prog.closures_of(name):
        for (_, _, c) in bb_.calls():
            if c.target == "ebr_impl::guard::Guard::defer_unchecked":
                return True
            if c.target in prog.auto_inline() and _defers(prog, c.target, seen):
                return True
    return False


def call_graph(prog):
    """Direct (non-deferred) call edges between local bodies, closures included as callees of the
    function that calls them; closures passed to deferral are NOT edges."""
    g = {}
    for name, b in prog.bodies.items():
        s = set()
        for (bi, t, c) in b.calls():
            tg = c.target
            if tg in prog.bodies:
                s.add(tg)
            # closures handed to higher-order callees that run them now (with / map / from_fn ..)
            nt = norm(tg or "")
            if nt in ("std::thread::LocalKey::with", "std::thread::LocalKey::try_with", "std::result::Result::map",
                      "std::result::Result::map_err", "std::result::Result::unwrap_or_else", "std::array::from_fn",
                      "std::array::map", "std::iter::Iterator::fold", "std::iter::Iterator::for_each",
                      "std::iter::Iterator::any", "std::iter::Iterator::all") or \
                    nt.endswith((" as std::iter::Iterator>::for_each", " as std::iter::Iterator>::any",
                                 " as std::iter::Iterator>::all")):
                for cn in c.closure_args():
                    s.add(cn)
            # closures handed to a helper introduced by refactoring (not part of the baseline vocabulary, hence not a
            # deferral primitive): assumed to run now
            if tg in prog.auto_inline() and not _defers(prog, tg):
                for cn in c.closure_args():
                    s.add(cn)
        # fn items used as values (`helper(Self::try_destruct)`): may be called by whoever receives them
        for (bi, path) in b.fn_refs():
            if path in prog.bodies:
                s.add(path)
        g[name] = s
    return g


def _depth_fact(q, depth_idx):
    """What a condition event says about the `depth` parameter: ('lt', B) = depth < B holds on this path, ('ge', B) =
    depth >= B holds.  Recognises depth (+ k) compared with a constant by < <= > >=, either way round."""
    if q.kind != "cond" or not isinstance(q.term, tuple) or q.term[0] != "bin" or q.value not in (0, 1):
        return None
    op, l, rr = q.term[1], _uncast(q.term[2]), _uncast(q.term[3])
    flip = {"Lt": "Gt", "Le": "Ge", "Gt": "Lt", "Ge": "Le"}
    if op not in flip:
        return None
    if const_of(l) is not None and const_of(rr) is None:
        l, rr, op = rr, l, flip[op]
    c = const_of(rr)
    if c is None:
        return None
    k = 0
    if isinstance(l, tuple) and l[0] == "bin" and l[1] == "Add" and const_of(l[3]) is not None:
        k, l = const_of(l[3]), _uncast(l[2])
    elif isinstance(l, tuple) and l[0] == "bin" and l[1] == "Add" and const_of(l[2]) is not None:
        k, l = const_of(l[2]), _uncast(l[3])
    if not (isinstance(l, tuple) and l[0] == "arg" and l[1] == depth_idx):
        return None
    c -= k                       # depth + k OP c  <=>  depth OP c - k
    if not q.value:
        op = {"Lt": "Ge", "Le": "Gt", "Gt": "Le", "Ge": "Lt"}[op]
    if op == "Lt":
        return ("lt", c)
    if op == "Le":
        return ("lt", c + 1)
    if op == "Ge":
        return ("ge", c)
    return ("ge", c + 1)


def rule_depth_guard(ctx):
    r = RuleResult("REC-DEPTH-GUARD", ["C07"],
                   "every call-graph cycle reachable from dispose contains a call whose integer argument strictly increases "
                   "and is cut by an early return under `depth >= CAP`; CAP * minimal frame is compared with the smallest "
                   "legal thread stack")
    prog = ctx.prog
    g = call_graph(prog)
    # reachable from dispose
    reach = set()
    work = [DISPOSE]
    while work:
        v = work.pop()
        if v in reach:
            continue
        reach.add(v)
        work.extend(g.get(v, ()))
    cycles = [c for c in _sccs({k: v & reach for k, v in g.items() if k in reach})
              if len(c) > 1 or (c[0] in g.get(c[0], ()))]
    ncyc = 0
    for comp in cycles:
        ncyc += 1
        comp = sorted(comp)
        r.functions.update(comp)
        # the depth bound bounds the stack only if a frame is bounded: no local of a recursive function may have a size
        # that depends on a type parameter (the payload `T`, a ManuallyDrop<T> / Option<T> held by value - moved out of
        # the node "to drop it later" - make every one of up to CAP frames as large as the user's node)
        for fn in comp:
            fb = prog.body(fn)
            big = [(i, l["ty"]) for i, l in enumerate(fb.locals) if l.get("size_generic")]
            ok = not big
            r.instance("%s: no local whose size depends on a type parameter" % fn.split("::")[-1], ok)
            for ty in sorted({t for (_, t) in big})[:3]:
                r.violate(fn, "frame:" + ty, "a function on the recursion holds a `%s` by value: each of up to 1024 frames then "
                          "takes size_of of the user's payload, and the depth cap no longer bounds the stack (a chain of "
                          "nodes with an 8 KiB payload needs 17 MiB)" % ty, fb.loc(0))
        # whoever starts the recursion starts it at depth 0 (a root entered at depth 1 is judged by the stamp test meant
        # for children and may be deferred again, although try_destruct has already marked it)
        for (cb_, bi_, t_, c_) in prog.callers_of(DGN):
            if prog.home(cb_.name) in {prog.home(x) for x in comp}:
                continue
            for p in ctx.paths(prog.home(cb_.name)) if prog.home(cb_.name) in prog.bodies else []:
                for e in p.events:
                    if e.kind == "call" and e.target == DGN and len(e.args) > 1:
                        okd = const_of(e.args[1]) == 0
                        r.instance("%s starts the cascade at depth 0" % prog.home(cb_.name).split("::")[-1], okd)
                        if not okd:
                            r.violate(prog.home(cb_.name), "root-depth", "the cascade is entered with depth %s instead of 0: the "
                                      "root is treated as a child (stamp test, marking loop) although try_destruct has "
                                      "already marked it, and the cap is reached earlier" % show(e.args[1])[:20], e.loc())
                break
        if sorted({prog.home(x) for x in comp}) != [DGN]:      # (closures of the function belong to it)
            r.violate(comp[0], "cycle", "unexpected recursion reachable from dispose through %s" % comp)
            continue
        b = prog.body(DGN)
        depth_idx = None
        for i in range(1, b.arg_count + 1):
            if b.local_name(i) == "depth":
                depth_idx = i
        if depth_idx is None:
            raise AnalysisError("REC-DEPTH-GUARD: dispose_general_node has no `depth` parameter")
        cap = None
        guarded_ok = True
        increasing_ok = True
        nrec = 0
        for p in ctx.paths(DGN):
            rec = [(i, e) for i, e in enumerate(p.events) if e.kind == "call" and e.target == DGN]
            for (i, e) in rec:
                nrec += 1
                a = _uncast(e.args[depth_idx - 1])
                inc = (isinstance(a, tuple) and a[0] == "bin" and a[1] == "Add" and a[2] == ("arg", depth_idx, "depth")
                       and (const_of(a[3]) or 0) >= 1)
                if not inc:
                    increasing_ok = False
                    r.violate(DGN, "recursive-call", "the recursive call does not pass a strictly larger depth (%s)" % show(a),
                              e.loc())
                # dominated by a passed guard `depth >= CAP` == false
                gd = None
                for q in p.events[:i]:
                    df = _depth_fact(q, depth_idx)
                    if df is not None and df[0] == "lt":
                        gd = df[1] if gd is None else min(gd, df[1])
                if gd is None:
                    guarded_ok = False
                    r.violate(DGN, "no-depth-guard", "the recursive call is not reached only under a constant bound on "
                              "`depth` (an early return or a branch under `depth >= CAP`): recursion depth is bounded only "
                              "by the length of the structure", e.loc())
                else:
                    # frames doing work: the callee's depth is at most gd (caller's depth < gd), unless the callee itself
                    # returns at once under `depth >= B2`
                    b2 = []
                    for p2 in ctx.paths(DGN):
                        if [x for x in p2.events if x.kind == "call" and x.target == DGN]:
                            continue
                        for j, q in enumerate(p2.events):
                            df = _depth_fact(q, depth_idx)
                            if df is not None and df[0] == "ge" and df[1] >= 2 and \
                                    not any(x.kind == "call" and ctx.atomic_event(x) for x in p2.events[:j]):
                                b2.append(df[1])     # an entry guard: nothing was read or written before it
                    frames = min([gd + 1] + b2)
                    cap = frames if cap is None else max(cap, frames)
        # the capped arm returns without recursing
        for p in ctx.paths(DGN):
            for i, q in enumerate(p.events):
                df = _depth_fact(q, depth_idx)
                if df is not None and df[0] == "ge" and df[1] >= 2 and \
                        [e for e in p.events[i:] if e.kind == "call" and e.target == DGN] and \
                        not any((_depth_fact(q2, depth_idx) or ("", 0))[0] == "lt" for q2 in p.events[i:]):
                    r.violate(DGN, "cap-arm", "the path taken at the depth cap still recurses", q.loc())
                    break
        if nrec == 0:
            raise AnalysisError("REC-DEPTH-GUARD: no recursive call found on paths")
        r.instance("recursive call passes depth + 1", increasing_ok)
        r.instance("recursive call reached only under a constant bound on depth (at most %s nested working frames)" % cap, guarded_ok)
        if cap is not None:
            bound = cap * MIN_FRAME
            ok = bound < MIN_LEGAL_STACK
            r.instance("CAP * %d B = %d B < smallest legal stack %d B" % (MIN_FRAME, bound, MIN_LEGAL_STACK), ok)
            if not ok:
                r.violate(DGN, "cap=%d" % cap,
                          "recursion may nest %d frames: even with the smallest possible frame (%d B) this needs %d B, at "
                          "least the smallest stack a thread may legally have (%d B); with realistic frames (T's pop_edges/"
                          "Drop, the outgoing Vec) stacks of a few hundred KiB overflow" % (cap, MIN_FRAME, bound, MIN_LEGAL_STACK),
                          b.loc(0))
    if ncyc == 0 and DGN in prog.bodies and DGN not in reach:
        r.violate(DISPOSE, "no-cascade", "dispose does not reach dispose_general_node: a destruction attempt that won its CAS "
                  "destructs nothing (every object leaks, with DESTRUCTED set)", prog.body(DISPOSE).loc(0))
    r.require(ncyc, 1, "recursion cycles reachable from dispose")
    return r


def rule_immediate(ctx):
    r = RuleResult("REC-IMMEDIATE", ["C06"],
                   "a child whose count hits zero in the cascade is handled by a direct call in the same pass; inside, deferral "
                   "happens only at the depth cap (>= 1024) or under the stamp test; the periodic re-pin is present")
    prog = ctx.prog
    b = prog.body(DGN)
    r.functions.add(DGN)
    # (1) hit-zero children: direct recursion (CW-ZERO-DEFERS checks exactly-one hand-off; here: it is the direct kind)
    ndirect = 0
    for p in ctx.paths(DGN):
        for s in ctx.sites_on_path(p):
            if s["delta"].get("strong", (0,))[0] < 0 and s["outcome"] == "ok":
                hs = [h for h in handoffs(ctx, p, s["idx"]) if h[1] == ptr_root(s["obj"])]
                depth_idx = [i for i in range(1, b.arg_count + 1) if b.local_name(i) == "depth"]
                for h in hs:
                    ok = h[0] == "direct:" + DGN
                    ndirect += 1
                    if not ok and h[0] == "defer:" + TRY_DESTRUCT and depth_idx:
                        # the depth cap tested by the caller: the child would be at depth >= 1024
                        facts = [_depth_fact(q, depth_idx[0]) for q in p.events[:p.events.index(h[2])]]
                        capped = [f[1] + 1 for f in facts if f is not None and f[0] == "ge"]
                        if capped and max(capped) >= 1024:
                            r.instance("cascade child with zero count at the depth cap (%d) -> %s" % (max(capped), h[0]), True)
                            continue
                    r.instance("cascade child with zero count -> %s" % h[0], ok)
                    if not ok:
                        r.violate(DGN, "child-handoff", "a child whose count hit zero is deferred instead of being disposed in "
                                  "the same pass: reclaiming a chain of n nodes needs O(n) grace periods", h[2].loc())
    # (2) deferrals of the node itself only under cap / failed stamp test
    for p in ctx.paths(DGN):
        own = [h for h in handoffs(ctx, p, -1) if h[1] == ("arg", 1, b.local_name(1)) and h[0].startswith("defer:")]
        for h in own:
            idx = p.events.index(h[2])
            pre = p.events[:idx]
            capc = [q for q in pre if q.kind == "cond" and isinstance(q.term, tuple) and q.term[0] == "bin"
                    and q.term[1] in ("Ge", "Gt") and q.term[2] == ("arg", 2, "depth") and q.value == 1 and
                    (const_of(q.term[3]) or 0) >= 2]
            lec = [q for q in pre if q.kind == "cond" and isinstance(q.term, tuple) and q.term[0] == "call"
                   and norm(q.term[1]) == "utils::Modular::le" and q.value == 0]
            if capc:
                cap = const_of(capc[0].term[3]) + (1 if capc[0].term[1] == "Gt" else 0)
                # the cap counts in steps of the recursive call's increment: depth + 2 reaches it after half the nodes
                steps = set()
                for p3 in ctx.paths(DGN):
                    for e3 in p3.events:
                        if e3.kind == "call" and e3.target == DGN and len(e3.args) > 1:
                            a3 = _uncast(e3.args[1])
                            if isinstance(a3, tuple) and a3[0] == "bin" and a3[1] == "Add" and const_of(a3[3]):
                                steps.add(const_of(a3[3]))
                if steps:
                    cap = cap // max(steps)
                ok = cap >= 1024
                r.instance("self-deferral at the depth cap (%d)" % cap, ok)
                if not ok:
                    r.violate(DGN, "cap=%d" % cap, "the depth cap %d is below 1024: a chain of n nodes needs more than n/1024 "
                              "grace periods" % cap, capc[0].loc())
            elif lec:
                r.instance("self-deferral because the stamp is too recent", True)
            else:
                r.instance("self-deferral without reason", False)
                r.violate(DGN, "defer", "a node defers its own destruction although neither the depth cap was reached nor the "
                          "stamp test failed", h[2].loc())
    # (2a) a node's stamp must age: it records the last release of / access to the node, and the cascade hands it to the
    # children.  Code that runs at destruction time - at least three epochs after the release - must not refresh it: a
    # mark (DESTRUCTED/WEAKED) that also writes the current epoch, or any other fresh stamp written by the deferred
    # functions, makes every root hand "now" to its children, which are re-deferred at every level (3 epochs per node)
    nst = 0
    for f in sorted({TRY_DESTRUCT, DGN} | {n for n in prog.bodies if n in ("utils::dispose", "utils::RcInner::<T>::try_dealloc")}):
        if f not in prog.bodies:
            continue
        r.functions.add(f)
        seen = set()
        for p in ctx.paths(f):
            for s in ctx.sites_on_path(p):
                if s["kind"] != "rmw" or s["op"] not in ("compare_exchange", "compare_exchange_weak"):
                    continue
                key = (s["event"].body.name, s["event"].bb)
                if key in seen:
                    continue
                seen.add(key)
                nst += 1
                st = s["stamp"]
                fresh = False
                if st is not None:
                    v = strip(st)
                    while isinstance(v, tuple) and v[0] == "cast":
                        v = strip(v[2])
                    merged = isinstance(v, tuple) and v[0] == "call" and norm(v[1]) == "utils::Modular::max"
                    fresh = not merged and any(x[0] == "call" and x[1] == "ebr_impl::default::global_epoch" for x in subterms(st))
                ok = not fresh
                r.instance("%s: count-word CAS at destruction time writes no fresh stamp (%s)" % (
                    f.split("::")[-1], "none" if st is None else "merge" if not fresh else "current epoch"), ok)
                if not ok:
                    r.violate(f, "fresh-stamp", "a count-word update made at destruction time (%s) stamps the current epoch: the "
                              "stamp no longer records when the node was released, every root hands `now` to its children and "
                              "each level of a chain waits its own three epochs" % (
                                  "the DESTRUCTED mark" if s["sets"].get("destructed") is not None else "a deferred function"),
                              s["event"].loc())
    if nst < 2 and not r.violations:
        r.floor_failures.append("REC-IMMEDIATE: found %d count-word CAS sites in the deferred functions, expected at least 2" % nst)
    # (2b) the stamp given to a child is exactly max(parent, link, child): replacing one of them by the current epoch (or
    # anything else) is safe but makes every child "too recent", i.e. one grace period per node
    from .registry import run_rules
    run_rules(ctx, ["CW-CASCADE-MERGE"])
    mp = getattr(ctx, "_merge_precision", [])
    seenk = set()
    for (kinds, imprecise, loc) in mp:
        key = tuple(kinds)
        if key in seenk:
            continue
        seenk.add(key)
        ok = not imprecise
        r.instance("merged child stamp uses only the three recorded stamps: max(%s)" % ", ".join(kinds), ok)
        if not ok:
            r.violate(DGN, "merge-precision:" + ",".join(sorted(set(imprecise))),
                      "the stamp merged for a child contains `%s` instead of a recorded stamp: the child then looks freshly "
                      "touched, fails the age test and is deferred - reclaiming a chain costs a grace period per node"
                      % ", ".join(sorted(set(imprecise))), loc)
    if not mp:
        raise AnalysisError("REC-IMMEDIATE: no cascade merge found")
    # (2c) every popped edge is visited by the loop: an edge the loop leaves behind is dropped by the container, i.e.
    # released through Rc::drop -> decrement_strong -> a *deferred* try_destruct, one grace period per level
    EARLY = ("TakeWhile", "Take<", "SkipWhile", "Skip<", "StepBy", "MapWhile", "Scan<", "Peekable")
    nloops = 0
    seen_it = set()
    for p in ctx.paths(DGN):
        nx = [(i, e) for i, e in enumerate(p.events) if e.kind == "call" and (e.ntarget or "").endswith("Iterator>::next")
              and not e.frame]
        for (i, e) in nx:
            full = (e.callee.full or "") if e.callee is not None else (e.target or "")
            if "strong::Rc<" not in full and "Rc<T>" not in full:
                continue
            nloops += 1
            if full not in seen_it:
                seen_it.add(full)
                bad_ad = [a for a in EARLY if ("std::iter::" + a) in full or ("iter::adapters::" in full and a in full)]
                ok = not bad_ad
                r.instance("edge loop iterates `%s`" % re.sub(r"<strong::Rc<T>.*?>", "<Rc>", full)[:70], ok)
                if not ok:
                    r.violate(DGN, "edges-skipped:" + bad_ad[0].strip("<"), "the loop over the popped edges goes through `%s`, "
                              "which can stop before the last edge: the edges left behind are released by the container's "
                              "drop, i.e. through a deferred try_destruct - a grace period per level instead of one pass"
                              % bad_ad[0].strip("<"), e.loc())
        # leaving the loop other than by exhaustion
        if p.exit[0] == "return" and nx:
            li, le = nx[-1]
            full = (le.callee.full or "") if le.callee is not None else ""
            if "Rc<" in full:
                d = [q for q in p.events[li:] if q.kind == "cond" and q.term == ("disc", le.result)]
                if d and d[0].value == 1:
                    r.instance("edge loop left only when the edges are exhausted", False)
                    r.violate(DGN, "edges-break", "a path leaves the loop over the popped edges while an edge was just taken "
                              "(break / return inside the loop): the remaining edges are released by the container's drop, "
                              "i.e. deferred one by one", le.loc())
    if nloops < 1 and not r.violations:
        raise AnalysisError("REC-IMMEDIATE: the loop over the popped edges was not found")
    # (3) periodic repin
    # (in the cascade itself, or in a helper a refactoring split off it)
    bs = [b] + [prog.bodies[h] for h in prog.auto_inline() if DGN in prog.path_roots(h)]
    ok = any(c.target in ("ebr_impl::internal::Local::repin_without_collect", "ebr_impl::internal::Local::repin_unless_foreign_guards")
             for x in bs for (_, _, c) in x.calls())
    r.instance("periodic repin_without_collect present", ok)
    if not ok:
        r.violate(DGN, "repin", "no periodic re-pin during long disposals: the epoch cannot advance while one pass runs")
    if ndirect == 0 and not r.violations:
        # not a lost anchor: the function is there and reaches no hand-off of a child at all
        r.violate(DGN, "no-child-handoff", "no path of the cascade hands a child whose count hit zero to a destruction in the "
                  "same pass: every level of a structure waits its own grace periods (or its children are never destructed)",
                  b.loc(0))
    r.require(max(ndirect, 1 if r.violations else 0), 1, "cascade hand-offs")
    return r


# ------------------------------------------------------------------------------------------
COLLECT = "ebr_impl::internal::Global::collect"
UNPIN = "ebr_impl::internal::Local::unpin"


def rule_collect_reentry(ctx):
    """Deferred functions run user destructors, which drop Rcs, which defer and flush: every API a destructor can reach
    (flush, defer, schedule_collection, nested cs()/unpin) must not start a collection of its own, or the recursion
    collect -> destructor -> collect restarts `depth` at 0 on every level and nests once per expired bag."""
    from .rules_ebr import _cell_get, _set_is_noop
    r = RuleResult("REC-COLLECT-REENTRY", ["C07"],
                   "collections never nest: Global::collect is called only from the loop of Local::unpin, behind the "
                   "`collecting` flag that unpin alone sets and clears")
    prog = ctx.prog
    callers = sorted({h for (b, _, _, _) in prog.callers_of(COLLECT) for h in prog.path_roots(b.name)})
    ok = callers == [UNPIN]
    r.instance("Global::collect <- %s" % callers, ok)
    r.functions.add(COLLECT)
    for c in callers:
        if c != UNPIN:
            r.violate(c, "collect", "starts a collection outside the loop of Local::unpin: when reached from a deferred "
                      "destructor (drop of an Rc -> decrement -> flush/defer) collections nest, one stack level per expired "
                      "bag, each restarting the depth count at 0", prog.body(c).loc(0))
    b = prog.body(UNPIN)
    r.functions.add(UNPIN)
    n = 0
    # the collecting loop is read unrolled: the flags must (still) be set at *every* call of collect, not just the first
    for (p, cidx) in [(p, k) for p in Exec(prog, unroll=2).paths(b)
                      for k in [i for i, e in enumerate(p.events) if e.kind == "call" and e.target == COLLECT]]:
        ci = [cidx]
        n += 1
        r.paths += 1
        pre = p.events[:ci[0]]
        tested = any(e.kind == "cond" and _cell_get(e.term, "Local.collecting") and e.value == 0 for e in pre)
        sets = [e for e in pre if e.kind == "call" and e.ntarget == "std::cell::Cell::set"
                and "Local.collecting" in show(e.args[0])]
        armed = bool(sets) and const_of(sets[-1].args[1]) == 1
        ok = tested and armed
        r.instance("unpin collects only after testing !collecting and setting it", ok)
        if not ok:
            r.violate(UNPIN, "reentry", "collect is reached without the re-entrancy flag having been tested clear and set "
                      "(tested=%s, set=%s): an unpin inside a deferred destructor starts a nested collection" % (tested, armed),
                      p.events[ci[0]].loc())
        # F15: the flag in the Local covers one participant; during tear-down (thread-local handle gone) every cs()
        # registers a fresh participant, so the guard must also be thread-wide: a thread-local Cell<bool>
        def is_tls_cell(a):
            return any(x[0] == "tlsval" for x in subterms(a))
        t_tested = any(e.kind == "cond" and isinstance(e.term, tuple) and e.term[0] == "call" and
                       norm(e.term[1]) == "std::cell::Cell::get" and is_tls_cell(e.term[2][0]) and e.value == 0 for e in pre)
        t_sets = [e for e in pre if e.kind == "call" and e.ntarget == "std::cell::Cell::set" and is_tls_cell(e.args[0])]
        t_armed = bool(t_sets) and const_of(t_sets[-1].args[1]) == 1
        ok = t_tested and t_armed
        r.instance("unpin collects only after testing a thread-wide flag clear and setting it", ok)
        if not ok:
            r.violate(UNPIN, "reentry-thread", "the re-entrancy guard of collect is per participant only (thread-local flag "
                      "tested=%s, set=%s): after the thread-local handle is destroyed every cs() registers a fresh participant "
                      "whose flag is clear, so a destructor that asks for a collection nests one, one stack level per expired "
                      "bag" % (t_tested, t_armed), p.events[ci[0]].loc())
    # the re-entrancy flag is per participant, and at thread tear-down every cs() in a destructor registers a fresh one
    # that is finalized when its guard drops: finalize itself must therefore never schedule a collection, or each
    # dying participant collects inside the collection that made it die
    from .rules_ebr import FINALIZE, P as _P
    SCHED = _P + "Local::schedule_collection"
    g = call_graph(prog)
    reach, work = set(), [FINALIZE]
    while work:
        v = work.pop()
        if v in reach:
            continue
        reach.add(v)
        work.extend(x for x in g.get(v, ()) if x not in (UNPIN,))
    ok = SCHED not in reach and not any(
        e.kind == "call" and e.ntarget == "std::cell::Cell::set" and "Local.must_collect" in show(e.args[0]) and const_of(e.args[1]) == 1
        for f_ in reach if f_ in prog.bodies and f_.startswith(_P + "Local::") for p in ctx.ex.paths(prog.body(f_)) for e in p.events)
    r.instance("Local::finalize does not schedule a collection", ok)
    r.functions.add(FINALIZE)
    if not ok:
        r.violate(FINALIZE, "finalize-schedules", "finalize (through %s) schedules a collection: the unpin inside finalize then "
                  "collects on the dying participant - at thread tear-down every cs() in a destructor registers a fresh "
                  "participant, so collections nest once per expired bag, each restarting the depth count at 0"
                  % sorted(x.split("::")[-1] for x in reach if x != FINALIZE)[:4], prog.body(FINALIZE).loc(0))
    # writers of the flag
    nw = 0
    for name, body in sorted(prog.bodies.items()):
        if not any(norm(c.target or "") in ("std::cell::Cell::set", "std::cell::Cell::replace", "std::cell::Cell::take")
                   for (_, _, c) in body.calls()):
            continue
        for root in prog.path_roots(name):
            seen = set()
            for p in ctx.ex.paths(prog.body(root)):
                for i, e in enumerate(p.events):
                    if e.kind == "call" and e.ntarget == "std::cell::Cell::set" and "Local.collecting" in show(e.args[0]) \
                            and (e.body.name, e.bb) not in seen:
                        seen.add((e.body.name, e.bb))
                        nw += 1
                        ok = root == UNPIN
                        r.instance("%s writes Local.collecting" % root, ok)
                        if not ok:
                            r.violate(root, "flag-writer", "writes the `collecting` flag outside Local::unpin: clearing it "
                                      "during a collection lets a nested unpin collect again", e.loc())
    # writers of the thread-wide flag: a function may clear it only if it owns it - it tested it clear before its first
    # write - or puts back the value it read (save/restore).  Setting and clearing it unconditionally inside a running
    # collection (finalize of a temporary participant, say) re-opens the gate for every later nested unpin.
    def _tls_flag(a):
        return any(x[0] == "tlsval" and "Cell<bool>" in show(x) for x in subterms(a))
    ntw = 0
    for name, body in sorted(prog.bodies.items()):
        if not any(norm(c.target or "") in ("std::thread::LocalKey::with", "std::thread::LocalKey::try_with")
                   for (_, _, c) in body.calls()):
            continue
        for root in prog.path_roots(name):
            bad, wrote, stuck = None, False, None
            for p in Exec(prog, unroll=2).paths(prog.body(root)) if root == UNPIN else ctx.ex.paths(prog.body(root)):
                ws = [i for i, e in enumerate(p.events) if e.kind == "call" and e.ntarget == "std::cell::Cell::set"
                      and _tls_flag(e.args[0])]
                if not ws:
                    continue
                ntw += 1
                wrote = True
                r.paths += 1
                pre = p.events[:ws[0]]
                reads = [e for e in pre if e.kind == "call" and e.ntarget == "std::cell::Cell::get" and _tls_flag(e.args[0])]
                clearing = [i for i in ws if const_of(p.events[i].args[1]) != 1]
                # the flag was found clear by a read made before this function's first write (the test itself may come
                # after it: `!flag.replace(true)`), and that is known before the first write that can clear it
                owned = bool(clearing) and any(
                    e.kind == "cond" and e.value == 0 and any(e.term == rd.result for rd in reads)
                    for e in p.events[:clearing[0]])
                last = p.events[ws[-1]].args[1]
                restored = const_of(last) is None and any(e.result == x for e in reads for x in subterms(last))
                leaves_set = not clearing   # never cleared on this path: can only over-block, F15-safe
                if not (owned or restored or leaves_set) and bad is None:
                    bad = p.events[ws[-1]]
                # ... and whoever set it (owning it) clears it before it returns: a flag left set means this thread never
                # collects again
                tested_clear = any(e.kind == "cond" and e.value == 0 and any(e.term == rd.result for rd in reads) for e in p.events)
                if tested_clear and p.exit[0] == "return" and const_of(last) == 1 and stuck is None:
                    stuck = p.events[ws[-1]]
            if not wrote:
                continue
            ok = bad is None
            r.instance("%s writes the thread-wide collecting flag only when it owns it" % root, ok)
            r.functions.add(root)
            r.instance("%s leaves the thread-wide collecting flag clear when it had set it" % root, stuck is None)
            if stuck is not None:
                r.violate(root, "thread-flag-stuck", "a path that set the thread-wide collecting flag returns with it still set: "
                          "the thread never runs a collection again (its own and everybody's garbage waits for other threads)",
                          stuck.loc())
            if not ok:
                r.violate(root, "thread-flag-owner", "writes the thread-wide collecting flag without having tested it clear (and "
                          "without restoring the value read): when this runs inside a collection - a destructor dropping a "
                          "handle or the guard of a temporary participant - the flag is cleared under the running collection "
                          "and every later unpin in a destructor nests a collection of its own", bad.loc())
    r.require(n, 1, "collect call paths in unpin")
    if ntw < 1 and not r.violations:
        r.floor_failures.append("REC-COLLECT-REENTRY: found no write of the thread-wide flag")
    if nw < 2 and not r.violations:
        r.floor_failures.append("REC-COLLECT-REENTRY: found %d writes of Local.collecting, expected at least 2" % nw)
    return r


# ------------------------------------------------------------------------------------------
def sync_call_graph(prog):
    """call_graph plus what runs synchronously without being a direct call: Drop impls of dropped values (drop glue),
    and the local impls of a local trait for a call that is not resolved (`C::finalize(..)`)."""
    from .mir import Callee
    g = {k: set(v) for k, v in call_graph(prog).items()}
    impls = {}
    for n in prog.bodies:
        m = re.match(r"^<(.*) as ([\w:]+)(<.*>)?>::(\w+)$", n)
        if m and not m.group(2).startswith(("std::", "core::", "alloc::")):
            impls.setdefault((m.group(2), m.group(4)), []).append(n)
    drops = {}
    for n, b in prog.bodies.items():
        if b.j.get("impl_trait") == "std::ops::Drop" and n.endswith("::drop"):
            drops[re.sub(r"<.*$", "", b.j.get("impl_self") or "")] = n
    # (what sits inside ManuallyDrop / MaybeUninit is not dropped by the glue)
    contains = {a["path"]: {f["ty"] for v in a["variants"] for f in v["fields"]
                            if "ManuallyDrop<" not in f["ty"] and "MaybeUninit<" not in f["ty"]} for a in prog.items["adts"]}

    def drop_impls_of(ty, seen=None):
        seen = seen if seen is not None else set()
        out = set()
        if "ManuallyDrop<" in ty or "MaybeUninit<" in ty:
            return out
        for w in re.sub(r"[<>,&'()\[\]; ]", " ", ty).split():
            if w in seen:
                continue
            seen.add(w)
            if w in drops:
                out.add(drops[w])
            for f in contains.get(w, ()):
                out |= drop_impls_of(f, seen)
        return out
    for n, b in prog.bodies.items():
        for bi in b.reachable():
            tm = b.blocks[bi]["term"]
            if tm["k"] == "drop":
                g.setdefault(n, set()).update(drop_impls_of(tm["ty"]))
            elif tm["k"] == "call":
                c = Callee(tm)
                if norm(c.target or "") == "std::mem::drop":
                    for a in c.type_args():
                        g.setdefault(n, set()).update(drop_impls_of(a["ty"]))
                elif c.target and c.target not in prog.bodies:
                    m = re.match(r"^<(.*) as ([\w:]+)(<.*>)?>::(\w+)$", c.full or c.target or "")
                    key = (m.group(2), m.group(4)) if m else None
                    if key is None and c.name and "::" in c.name:
                        key = tuple(c.name.rsplit("::", 1))
                    for i in impls.get(key, ()):
                        g.setdefault(n, set()).add(i)
    return g


def _cell_name(t):
    """a name for the Cell a `Cell::get/set/replace` works on: a Local field, or 'thread-local'"""
    t = strip(t)
    if any(x[0] == "tlsval" for x in subterms(t)):
        return "thread-local"
    while isinstance(t, tuple) and t[0] in ("ref", "deref"):
        t = strip(t[1])
    if isinstance(t, tuple) and t[0] == "field":
        return str(t[1])
    return None


def _edge_guard(ctx, f, g, comp, graph):
    """Is the edge f -> g of a recursion cycle cut by a guard that the code maintains?
       flag : every path of f to the call of g tested Cell X clear and set it before the call
       state: every path of f to the call of g tested Cell X == k, and g writes X := k' != k before it can continue
              the cycle (finalize sets handle_count to 1 before it pins)"""
    prog = ctx.prog
    fb = prog.body(f)
    reasons = set()
    npaths = 0
    for p in Exec(prog, unroll=2).paths(fb):
        def top(e):      # an event of f itself, or of a refactoring helper read inlined into it
            return not e.frame or (e.body is not None and e.body.name in prog.auto_inline() and prog.bodies[e.body.name].kind != "closure")
        ci = [i for i, e in enumerate(p.events) if (e.kind == "call" and e.target == g and top(e)) or
              (e.kind == "drop" and top(e) and g in graph.get(f, ()) and g.endswith("::drop") and
               re.sub(r"<.*$", "", prog.body(g).j.get("impl_self") or "~") in (e.ty or ""))]
        if not ci:
            continue
        npaths += 1
        pre = p.events[:ci[0]]
        tests = {}
        for e in pre:
            if e.kind == "cond" and isinstance(e.term, tuple) and e.term[0] == "call" and norm(e.term[1]) == "std::cell::Cell::get" \
                    and isinstance(e.value, int):
                nm = _cell_name(e.term[2][0])
                if nm:
                    tests[nm] = e.value
            if e.kind == "cond" and isinstance(e.term, tuple) and e.term[0] == "bin" and e.term[1] == "Eq" and e.value == 1:
                for a, b_ in ((e.term[2], e.term[3]), (e.term[3], e.term[2])):
                    a = strip(a)
                    if isinstance(a, tuple) and a[0] == "call" and norm(a[1]) == "std::cell::Cell::get" and const_of(b_) is not None:
                        nm = _cell_name(a[2][0])
                        if nm:
                            tests[nm] = const_of(b_)
        sets = {}
        for e in pre:
            if e.kind == "call" and e.ntarget == "std::cell::Cell::set" and const_of(e.args[1]) is not None:
                nm = _cell_name(e.args[0])
                if nm:
                    sets[nm] = const_of(e.args[1])
        found = None
        for nm, v in tests.items():
            if v == 0 and sets.get(nm) == 1:
                found = "flag `%s` tested clear and set" % nm
        if found is None:
            # state guard: g rewrites the tested cell before doing anything else with the cycle
            gb = prog.body(g)
            for nm, v in tests.items():
                okg = True
                anyp = False
                for q in ctx.ex.paths(gb):
                    nxt = [i for i, e in enumerate(q.events) if (e.kind == "call" and e.target in comp and top(e)) or
                           (e.kind == "drop" and top(e)) or
                           (e.kind == "call" and e.ntarget == "std::mem::drop" and top(e))]
                    if not nxt:
                        continue
                    anyp = True
                    w = [const_of(e.args[1]) for e in q.events[:nxt[0]] if e.kind == "call" and e.ntarget == "std::cell::Cell::set"
                         and _cell_name(e.args[0]) == nm]
                    if not w or w[-1] is None or w[-1] == v:
                        okg = False
                if anyp and okg:
                    found = "`%s` == %s required, and %s sets it to another value first" % (nm, v, g.split("::")[-1])
        if found is None:
            return None
        reasons.add(found)
    if npaths == 0:
        return None
    return "; ".join(sorted(reasons))


def rule_no_unbounded_recursion(ctx):
    """Every cycle of the synchronous call graph must be cut by a guard the code maintains; the cascade's cycle is the
    depth-guarded one (REC-DEPTH-GUARD), the collection's re-entry is REC-COLLECT-REENTRY's."""
    r = RuleResult("REC-NO-UNBOUNDED", ["C07", "C18", "C20"],
                   "every cycle of the synchronous call graph (direct calls, drop glue, local trait impls) is cut by a "
                   "re-entrancy flag or a state test that the code maintains")
    prog = ctx.prog
    g = sync_call_graph(prog)
    # helpers a refactoring split off are part of the functions that call them (they are read inlined): contract them, so that a
    # state test in `finalize` still guards the pin that now sits in `finalize`'s helper
    helpers = {h for h in prog.auto_inline() if h in g and prog.bodies[h].kind != "closure"}
    g = {k: set(v) for k, v in g.items()}
    for _ in range(len(helpers) + 1):
        changed_ = False
        for f_ in list(g):
            hs = g[f_] & helpers
            if not hs or f_ in helpers:
                continue
            for h in hs:
                g[f_] = (g[f_] - {h}) | (g.get(h, set()) - {f_} if False else g.get(h, set()))
            changed_ = True
        if not changed_:
            break
    for h in helpers:
        # a helper that only helpers call has been folded into its callers' callers by the loop above
        g.pop(h, None)
    for f_ in g:
        g[f_] -= helpers
    comps = [c for c in _sccs(g) if len(c) > 1 or c[0] in g.get(c[0], ())]
    n = 0
    for comp in comps:
        comp = sorted(comp)
        if sorted({prog.home(x) for x in comp}) == [DGN]:
            r.instance("cycle {dispose_general_node}: depth-guarded (REC-DEPTH-GUARD)", True)
            n += 1
            continue
        if all(prog.body(x).file().endswith(("strong.rs", "weak.rs")) for x in comp):
            # trait impls that delegate to the same trait of another type (fmt::Pointer for Rc -> for Tagged ..): the
            # over-approximation of unresolved trait calls, no recursion on one value
            continue
        n += 1
        r.functions.update(comp)
        cut = None
        sub = {k: g.get(k, set()) & set(comp) for k in comp}
        # try to cut edges until the component is acyclic
        cuts = []
        changed = True
        while changed:
            changed = False
            cyc = [c for c in _sccs(sub) if len(c) > 1 or c[0] in sub.get(c[0], ())]
            if not cyc:
                break
            for c in cyc:
                done = False
                for f_ in sorted(c):
                    for g_ in sorted(sub.get(f_, ())):
                        if g_ not in c:
                            continue
                        why = _edge_guard(ctx, f_, g_, set(comp), g)
                        if why:
                            sub[f_] = sub[f_] - {g_}
                            cuts.append("%s -> %s [%s]" % (f_.split("::")[-1], g_.split("::")[-1], why))
                            changed = True
                            done = True
                            break
                    if done:
                        break
        rest = [c for c in _sccs(sub) if len(c) > 1 or c[0] in sub.get(c[0], ())]
        short = sorted(x.split("::")[-2].split("<")[0] + "::" + x.split("::")[-1] for x in comp)
        ok = not rest
        r.instance("cycle {%s}: cut by %s" % (", ".join(short)[:150], "; ".join(cuts) if cuts else "NOTHING"), ok)
        if not ok:
            worst = sorted(rest, key=len)[0]
            r.violate(sorted(worst)[0], "cycle:" + "+".join(sorted(x.split("::")[-1] for x in worst))[:120],
                      "unbounded recursion: %s call each other and no edge of the cycle is cut by a re-entrancy flag or state "
                      "test (depth grows with the amount of work, e.g. one level per 64 removed participants)" %
                      " -> ".join(sorted(x.split("::")[-2].split("<")[0] + "::" + x.split("::")[-1] for x in worst)),
                      prog.body(sorted(worst)[0]).loc(0))
    r.require(n, 2, "recursion cycles")
    return r
