"""REC-DEPTH-GUARD (C07) and REC-IMMEDIATE (C06)."""
from .facts import AnalysisError
from .report import RuleResult
from .sym import norm, show, strip, subterms
from .cw import const_of, _uncast
from .rules_cw import DGN, DISPOSE, TRY_DESTRUCT, handoffs, ptr_root, _path_consistent_with_arg

MIN_FRAME = 16          # a frame is at least a return address, 16-byte aligned (x86-64 SysV)
MIN_LEGAL_STACK = 16384  # PTHREAD_STACK_MIN on this platform: the smallest stack a user may legally configure


def _sccs(graph):
    idx = {}
    low = {}
    st = []
    on = set()
    out = []
    counter = [0]

    def strong(v):
        work = [(v, iter(graph.get(v, ())))]
        idx[v] = low[v] = counter[0]
        counter[0] += 1
        st.append(v)
        on.add(v)
        while work:
            node, it = work[-1]
            adv = False
            for w in it:
                if w not in idx:
                    idx[w] = low[w] = counter[0]
                    counter[0] += 1
                    st.append(w)
                    on.add(w)
                    work.append((w, iter(graph.get(w, ()))))
                    adv = True
                    break
                elif w in on:
                    low[node] = min(low[node], idx[w])
            if adv:
                continue
            work.pop()
            if work:
                low[work[-1][0]] = min(low[work[-1][0]], low[node])
            if low[node] == idx[node]:
                comp = []
                while True:
                    w = st.pop()
                    on.discard(w)
                    comp.append(w)
                    if w == node:
                        break
                out.append(comp)
    for v in list(graph):
        if v not in idx:
            strong(v)
    return out


def call_graph(prog):
    """Direct (non-deferred) call edges between local bodies, closures included as callees of the
    function that calls them; closures passed to deferral are NOT edges."""
    g = {}
    for name, b in prog.bodies.items():
        s = set()
        for (bi, t, c) in b.calls():
            tg = c.target
            if tg in prog.bodies:
                s.add(tg)
            # closures handed to higher-order callees that run them now (with / map / from_fn ..)
            nt = norm(tg or "")
            if nt in ("std::thread::LocalKey::with", "std::thread::LocalKey::try_with", "std::result::Result::map",
                      "std::result::Result::map_err", "std::result::Result::unwrap_or_else", "std::array::from_fn",
                      "std::array::map", "std::iter::Iterator::fold"):
                for cn in c.closure_args():
                    s.add(cn)
            # closures handed to a helper introduced by refactoring (not part of the baseline vocabulary, hence not a
            # deferral primitive): assumed to run now
            if tg in prog.auto_inline():
                for cn in c.closure_args():
                    s.add(cn)
        # fn items used as values (`helper(Self::try_destruct)`): may be called by whoever receives them
        for (bi, path) in b.fn_refs():
            if path in prog.bodies:
                s.add(path)
        g[name] = s
    return g


def rule_depth_guard(ctx):
    r = RuleResult("REC-DEPTH-GUARD", ["C07"],
                   "every call-graph cycle reachable from dispose contains a call whose integer argument strictly increases "
                   "and is cut by an early return under `depth >= CAP`; CAP * minimal frame is compared with the smallest "
                   "legal thread stack")
    prog = ctx.prog
    g = call_graph(prog)
    # reachable from dispose
    reach = set()
    work = [DISPOSE]
    while work:
        v = work.pop()
        if v in reach:
            continue
        reach.add(v)
        work.extend(g.get(v, ()))
    cycles = [c for c in _sccs({k: v & reach for k, v in g.items() if k in reach})
              if len(c) > 1 or (c[0] in g.get(c[0], ()))]
    ncyc = 0
    for comp in cycles:
        ncyc += 1
        comp = sorted(comp)
        r.functions.update(comp)
        if comp != [DGN]:
            r.violate(comp[0], "cycle", "unexpected recursion reachable from dispose through %s" % comp)
            continue
        b = prog.body(DGN)
        depth_idx = None
        for i in range(1, b.arg_count + 1):
            if b.local_name(i) == "depth":
                depth_idx = i
        if depth_idx is None:
            raise AnalysisError("REC-DEPTH-GUARD: dispose_general_node has no `depth` parameter")
        cap = None
        guarded_ok = True
        increasing_ok = True
        nrec = 0
        for p in ctx.paths(DGN):
            rec = [(i, e) for i, e in enumerate(p.events) if e.kind == "call" and e.target == DGN]
            for (i, e) in rec:
                nrec += 1
                a = _uncast(e.args[depth_idx - 1])
                inc = (isinstance(a, tuple) and a[0] == "bin" and a[1] == "Add" and a[2] == ("arg", depth_idx, "depth")
                       and (const_of(a[3]) or 0) >= 1)
                if not inc:
                    increasing_ok = False
                    r.violate(DGN, "recursive-call", "the recursive call does not pass a strictly larger depth (%s)" % show(a),
                              e.loc())
                # dominated by a passed guard `depth >= CAP` == false
                gd = None
                for q in p.events[:i]:
                    if q.kind == "cond" and isinstance(q.term, tuple) and q.term[0] == "bin" and q.term[1] in ("Ge", "Gt") \
                            and q.term[2] == ("arg", depth_idx, "depth") and const_of(q.term[3]) is not None and q.value == 0:
                        c = const_of(q.term[3]) + (1 if q.term[1] == "Gt" else 0)
                        gd = c if gd is None else min(gd, c)
                if gd is None:
                    guarded_ok = False
                    r.violate(DGN, "no-depth-guard", "the recursive call is not preceded by an early return under a constant "
                              "depth cap: recursion depth is bounded only by the length of the structure", e.loc())
                else:
                    cap = gd if cap is None else max(cap, gd)
        # the capped arm returns without recursing
        for p in ctx.paths(DGN):
            capped = [q for q in p.events if q.kind == "cond" and isinstance(q.term, tuple) and q.term[0] == "bin"
                      and q.term[1] in ("Ge", "Gt") and q.term[2] == ("arg", depth_idx, "depth") and q.value == 1
                      and (const_of(q.term[3]) or 0) >= 2]
            if capped and [e for e in p.events if e.kind == "call" and e.target == DGN]:
                r.violate(DGN, "cap-arm", "the path taken at the depth cap still recurses", capped[0].loc())
        if nrec == 0:
            raise AnalysisError("REC-DEPTH-GUARD: no recursive call found on paths")
        r.instance("recursive call passes depth + 1", increasing_ok)
        r.instance("recursive call dominated by `depth >= %s` early return" % cap, guarded_ok)
        if cap is not None:
            bound = cap * MIN_FRAME
            ok = bound < MIN_LEGAL_STACK
            r.instance("CAP * %d B = %d B < smallest legal stack %d B" % (MIN_FRAME, bound, MIN_LEGAL_STACK), ok)
            if not ok:
                r.violate(DGN, "cap=%d" % cap,
                          "recursion may nest %d frames: even with the smallest possible frame (%d B) this needs %d B, at "
                          "least the smallest stack a thread may legally have (%d B); with realistic frames (T's pop_edges/"
                          "Drop, the outgoing Vec) stacks of a few hundred KiB overflow" % (cap, MIN_FRAME, bound, MIN_LEGAL_STACK),
                          b.loc(0))
    r.require(ncyc, 1, "recursion cycles reachable from dispose")
    return r


def rule_immediate(ctx):
    r = RuleResult("REC-IMMEDIATE", ["C06"],
                   "a child whose count hits zero in the cascade is handled by a direct call in the same pass; inside, deferral "
                   "happens only at the depth cap (>= 1024) or under the stamp test; the periodic re-pin is present")
    prog = ctx.prog
    b = prog.body(DGN)
    r.functions.add(DGN)
    # (1) hit-zero children: direct recursion (CW-ZERO-DEFERS checks exactly-one hand-off; here: it is the direct kind)
    ndirect = 0
    for p in ctx.paths(DGN):
        for s in ctx.sites_on_path(p):
            if s["delta"].get("strong", (0,))[0] < 0 and s["outcome"] == "ok":
                hs = [h for h in handoffs(ctx, p, s["idx"]) if h[1] == ptr_root(s["obj"])]
                for h in hs:
                    ok = h[0] == "direct:" + DGN
                    ndirect += 1
                    r.instance("cascade child with zero count -> %s" % h[0], ok)
                    if not ok:
                        r.violate(DGN, "child-handoff", "a child whose count hit zero is deferred instead of being disposed in "
                                  "the same pass: reclaiming a chain of n nodes needs O(n) grace periods", h[2].loc())
    # (2) deferrals of the node itself only under cap / failed stamp test
    for p in ctx.paths(DGN):
        own = [h for h in handoffs(ctx, p, -1) if h[1] == ("arg", 1, b.local_name(1)) and h[0].startswith("defer:")]
        for h in own:
            idx = p.events.index(h[2])
            pre = p.events[:idx]
            capc = [q for q in pre if q.kind == "cond" and isinstance(q.term, tuple) and q.term[0] == "bin"
                    and q.term[1] in ("Ge", "Gt") and q.term[2] == ("arg", 2, "depth") and q.value == 1 and
                    (const_of(q.term[3]) or 0) >= 2]
            lec = [q for q in pre if q.kind == "cond" and isinstance(q.term, tuple) and q.term[0] == "call"
                   and norm(q.term[1]) == "utils::Modular::le" and q.value == 0]
            if capc:
                cap = const_of(capc[0].term[3]) + (1 if capc[0].term[1] == "Gt" else 0)
                ok = cap >= 1024
                r.instance("self-deferral at the depth cap (%d)" % cap, ok)
                if not ok:
                    r.violate(DGN, "cap=%d" % cap, "the depth cap %d is below 1024: a chain of n nodes needs more than n/1024 "
                              "grace periods" % cap, capc[0].loc())
            elif lec:
                r.instance("self-deferral because the stamp is too recent", True)
            else:
                r.instance("self-deferral without reason", False)
                r.violate(DGN, "defer", "a node defers its own destruction although neither the depth cap was reached nor the "
                          "stamp test failed", h[2].loc())
    # (2b) the stamp given to a child is exactly max(parent, link, child): replacing one of them by the current epoch (or
    # anything else) is safe but makes every child "too recent", i.e. one grace period per node
    from .registry import run_rules
    run_rules(ctx, ["CW-CASCADE-MERGE"])
    mp = getattr(ctx, "_merge_precision", [])
    seenk = set()
    for (kinds, imprecise, loc) in mp:
        key = tuple(kinds)
        if key in seenk:
            continue
        seenk.add(key)
        ok = not imprecise
        r.instance("merged child stamp uses only the three recorded stamps: max(%s)" % ", ".join(kinds), ok)
        if not ok:
            r.violate(DGN, "merge-precision:" + ",".join(sorted(set(imprecise))),
                      "the stamp merged for a child contains `%s` instead of a recorded stamp: the child then looks freshly "
                      "touched, fails the age test and is deferred - reclaiming a chain costs a grace period per node"
                      % ", ".join(sorted(set(imprecise))), loc)
    if not mp:
        raise AnalysisError("REC-IMMEDIATE: no cascade merge found")
    # (3) periodic repin
    ok = any(c.target == "ebr_impl::internal::Local::repin_without_collect" for (_, _, c) in b.calls())
    r.instance("periodic repin_without_collect present", ok)
    if not ok:
        r.violate(DGN, "repin", "no periodic re-pin during long disposals: the epoch cannot advance while one pass runs")
    r.require(ndirect, 1, "cascade hand-offs")
    return r
