"""Count-word layer: the site table over RcInner.state and predicates/transformers on it."""
from .facts import AnalysisError
from .mir import Callee
from .sym import Exec, norm, show, strip, subterms, calls_in

ATOMIC_PREFIX = "std::sync::atomic::Atomic::"
RMW_OPS = {"fetch_add", "fetch_sub", "compare_exchange", "compare_exchange_weak", "swap", "fetch_or", "fetch_and",
           "fetch_xor", "fetch_nand", "fetch_max", "fetch_min", "fetch_update", "store"}
READ_OPS = {"load"}
ACCESSORS = {"strong", "weak", "destructed", "weaked", "epoch"}
BUILDERS = {"with_epoch", "add_strong", "sub_strong", "add_weak", "with_destructed", "with_weaked"}
ST = "utils::State::"
RCINNER = "utils::RcInner"


class CW:
    """Shared context for the count-word rules."""

    def __init__(self, prog):
        self.prog = prog
        self.ex = Exec(prog)
        self.state_field = self._find_state_field()
        self.COUNT = prog.const_value("utils::COUNT")
        self.WEAK_COUNT = prog.const_value("utils::WEAK_COUNT")
        self.STRONG = prog.const_value("utils::STRONG")
        self.STRONG_WIDTH = prog.const_value("utils::STRONG_WIDTH")
        for name in list(ACCESSORS) + list(BUILDERS) + ["from_raw", "as_raw"]:
            prog.body(ST + name)  # anchors: fail closed when the vocabulary is renamed
        self._paths = {}
        self._site_fns = None

    # ---------------------------------------------------------------- anchors
    def _find_state_field(self):
        for a in self.prog.items["adts"]:
            if a["path"] == RCINNER:
                fs = a["variants"][0]["fields"]
                cands = [f for f in fs if "Atomic<u64>" in f["ty"] or "AtomicU64" in f["ty"]]
                if len(cands) != 1:
                    raise AnalysisError("RcInner: expected exactly one AtomicU64 field, found %d" % len(cands))
                return cands[0]["name"]
        raise AnalysisError("anchor missing: struct utils::RcInner")

    def _feasible(self, p):
        """a path that takes `new.as_raw() == old.as_raw()` although `new` adds or removes a constant non-zero number of shares of
        `old` cannot happen (a count field changed is a word changed)"""
        for e in p.events:
            if e.kind != "cond" or e.value != 1 or not (isinstance(e.term, tuple) and e.term[0] == "bin" and e.term[1] == "Eq"):
                continue
            a, b_ = self.unraw(e.term[2]), self.unraw(e.term[3])
            if a is None or b_ is None:
                continue
            for new, cur in ((a, b_), (b_, a)):
                base, ops = self.parse_state(new)
                cbase, cops = self.parse_state(cur)
                if cops or base != cbase:
                    continue
                net = {"strong": 0, "weak": 0}
                sym = False
                for (bn, arg) in ops:
                    c = const_of(arg)
                    if bn in ("add_strong", "sub_strong", "add_weak"):
                        if c is None:
                            sym = True
                        else:
                            net["weak" if bn == "add_weak" else "strong"] += c if bn != "sub_strong" else -c
                if not sym and (net["strong"] != 0 or net["weak"] != 0):
                    return False
        return True

    def paths(self, fname):
        if fname not in self._paths:
            self._paths[fname] = [p for p in self.ex.paths(self.prog.body(fname)) if self._feasible(p)]
        return self._paths[fname]

    def paths2(self, fname):
        """paths with every loop unrolled twice: shows what a retry iteration does with values decided in
        the previous one (small functions only)"""
        key = ("u2", fname)
        if key not in self._paths:
            if not hasattr(self, "ex2"):
                self.ex2 = Exec(self.prog, unroll=2)
            self._paths[key] = [p for p in self.ex2.paths(self.prog.body(fname)) if self._feasible(p)]
        return self._paths[key]

    # ---------------------------------------------------------------- raw MIR scan of accesses
    def scan_accesses(self):
        """Every place in the crate where the address of RcInner.state is taken, and what is done
        with it. Returns list of dicts {fn, bb, op, loc}.
        A reference to the word may be copied, reborrowed and handed to a helper a refactoring introduced (`replace_word(&self.state,
        ..)`, read inlined by the path reader): the helper's parameter then holds it, and the helper's atomic operations on that
        parameter are accesses of the functions that reach it. Anything else done with the reference is unclassifiable."""
        if getattr(self, "_scan", None) is not None:
            return self._scan
        out = []
        inl = self.prog.auto_inline()
        param_holders = {}          # helper name -> set of parameter locals that receive the reference
        work = [(name, None) for name in self.prog.bodies]
        done = set()
        while work:
            name, _ = work.pop()
            b = self.prog.bodies[name]
            key = (name, tuple(sorted(param_holders.get(name, ()))))
            if key in done:
                continue
            done.add(key)
            reach = b.reachable()
            holders = {l: None for l in param_holders.get(name, ())}
            for bi in sorted(reach):
                blk = b.blocks[bi]
                for si, st in enumerate(blk["stmts"]):
                    if st["k"] != "assign":
                        continue
                    rv = st["rv"]
                    pl = rv.get("place") if rv["k"] in ("ref", "rawptr") else None
                    if pl is None:
                        # any other mention of the field (copy out / write) is unclassifiable
                        for p in _places_in_rvalue(rv):
                            if _is_state_place(p, self.state_field):
                                raise AnalysisError("%s: direct non-atomic use of RcInner.%s at %s" % (
                                    name, self.state_field, b.loc(bi, si)))
                        if _is_state_place(st["place"], self.state_field):
                            raise AnalysisError("%s: direct write of RcInner.%s at %s" % (
                                name, self.state_field, b.loc(bi, si)))
                        continue
                    if _is_state_place(pl, self.state_field):
                        if st["place"]["proj"]:
                            raise AnalysisError("%s: address of RcInner.state stored into memory" % name)
                        holders[st["place"]["local"]] = (bi, si)
            if not holders:
                continue
            # copies and reborrows of a holder hold the reference too (fixpoint over the straight-line assignments)
            changed = True
            while changed:
                changed = False
                for bi in sorted(reach):
                    for si, st in enumerate(b.blocks[bi]["stmts"]):
                        if st["k"] != "assign" or st["place"]["proj"] or st["place"]["local"] in holders:
                            continue
                        rv = st["rv"]
                        src = None
                        if rv["k"] == "use":
                            src = _op_local(rv["op"])
                        elif rv["k"] in ("ref", "rawptr"):
                            pl = rv.get("place")
                            if pl and pl["local"] in holders and all((isinstance(e, dict) and e.get("k") == "deref") or e == "deref"
                                                                     or (isinstance(e, dict) and e.get("deref")) for e in pl["proj"]) \
                                    and pl["proj"]:
                                src = pl["local"]
                        if src is not None and src in holders:
                            holders[st["place"]["local"]] = (bi, si)
                            changed = True
            derived = {l for l, v in holders.items()}
            # every other use of a holder must be argument 0 of an atomic op, or an argument of an inlined helper
            for bi in sorted(reach):
                blk = b.blocks[bi]
                for si, st in enumerate(blk["stmts"]):
                    if st["k"] == "assign":
                        if not st["place"]["proj"] and st["place"]["local"] in derived and holders.get(st["place"]["local"]) == (bi, si):
                            continue       # the assignment that made it a holder
                        for p in _places_in_rvalue(st["rv"]):
                            if p["local"] in holders:
                                raise AnalysisError("%s: reference to RcInner.state flows into `%s` (not an atomic op)"
                                                    % (name, b.loc(bi, si)))
                t = blk["term"]
                if t["k"] == "call":
                    c = Callee(t)
                    used = [i for i, a in enumerate(t["args"]) if _op_local(a) in holders]
                    if not used:
                        continue
                    nt = norm(c.target or "")
                    if (c.target or "") in inl and self.prog.bodies[c.target].kind != "closure":
                        ph = param_holders.setdefault(c.target, set())
                        before = len(ph)
                        ph.update(i + 1 for i in used)
                        if len(ph) != before or (c.target, tuple(sorted(ph))) not in done:
                            work.append((c.target, None))
                        continue
                    if used != [0] or not nt.startswith(ATOMIC_PREFIX):
                        raise AnalysisError("%s: reference to RcInner.state passed to `%s`" % (name, nt))
                    op = nt[len(ATOMIC_PREFIX):]
                    # a helper introduced by refactoring is judged inlined in the function(s) that reach it
                    for root in self.prog.roots_of(name):
                        out.append({"fn": root, "bb": bi, "op": op, "loc": b.loc(bi), "exp": t["span"]["exp"],
                                    "file": t["span"]["file"], "in": name})
        # (a body scanned twice - first without, then with parameter holders - reports its own accesses twice)
        uniq = {}
        for a in out:
            uniq[(a["fn"], a["in"], a["bb"], a["op"])] = a
        self._scan = list(uniq.values())
        return self._scan

    # ---------------------------------------------------------------- term helpers
    def state_obj(self, term):
        """If `term` is the address of RcInner.state of some object, return the object term."""
        t = strip(term)
        if isinstance(t, tuple) and t[0] == "field" and t[1] == self.state_field:
            return t[2]
        return None

    def atomic_event(self, e):
        """For a call event on RcInner.state: (op, obj) else None."""
        if e.kind != "call" or not e.ntarget or not e.ntarget.startswith(ATOMIC_PREFIX):
            return None
        if not e.args:
            return None
        obj = self.state_obj(e.args[0])
        if obj is None:
            return None
        return (e.ntarget[len(ATOMIC_PREFIX):], obj)

    def amount(self, term):
        """Parse a fetch_add/fetch_sub amount into (field, multiplicity term)."""
        t = term
        if t[0] == "c" and isinstance(t[1], int):
            c = t[1]
            if c != 0 and c % self.WEAK_COUNT == 0 and c // self.WEAK_COUNT < (1 << 29):
                return ("weak", ("c", c // self.WEAK_COUNT, "u32"))
            if 0 < c < self.WEAK_COUNT and c % self.COUNT == 0:
                return ("strong", ("c", c // self.COUNT, "u32"))
            raise AnalysisError("unclassifiable count-word amount %d" % c)
        if t[0] == "bin" and t[1] == "Mul":
            for a, b in ((t[2], t[3]), (t[3], t[2])):
                if b[0] == "c" and b[1] == self.WEAK_COUNT:
                    return ("weak", _uncast(a))
                if b[0] == "c" and b[1] == self.COUNT:
                    return ("strong", _uncast(a))
        raise AnalysisError("unclassifiable count-word amount `%s`" % show(term))

    def parse_state(self, term):
        """Walk a State builder chain: -> (base_term, [(builder, arg), ...]) innermost first.
        The base is whatever is left (normally State::from_raw(observation))."""
        ops = []
        t = strip(term)
        while isinstance(t, tuple) and t[0] == "call" and t[1].startswith(ST) and t[1][len(ST):] in BUILDERS:
            ops.append((t[1][len(ST):], t[2][1]))
            t = strip(t[2][0])
        # a transformer spelled as arithmetic on the raw word (`Self::from_raw(self.inner - COUNT + WEAK_COUNT)`, a State method a
        # change introduced, read inlined): constants that are multiples of a field's unit are that field's add / sub
        raw = self._raw_arith(t)
        if raw is not None:
            base, more = raw
            b2, ops2 = self.parse_state(base)
            ops.reverse()
            return b2, ops2 + more + ops
        ops.reverse()
        return t, ops

    def _raw_arith(self, t):
        """State::from_raw(((S.inner) +/- c1) +/- c2 ..) -> (S, [(builder, arg), ..]) or None"""
        t = strip(t)
        if not (isinstance(t, tuple) and t[0] == "call" and t[1] == ST + "from_raw" and t[2]):
            return None
        x = strip(t[2][0])
        more = []
        while isinstance(x, tuple) and x[0] == "bin" and x[1] in ("Add", "Sub") and isinstance(x[3], tuple) and x[3][0] == "c" \
                and isinstance(x[3][1], int):
            c = x[3][1]
            if c == 0:
                x = strip(x[2])        # `+ 0`: a token that is not due on this path
                continue
            if c != 0 and c % self.WEAK_COUNT == 0 and c // self.WEAK_COUNT < (1 << 29):
                if x[1] == "Sub":
                    return None       # no builder for it: a weak decrement by arithmetic stays unparsed (analysis error)
                more.append(("add_weak", ("c", c // self.WEAK_COUNT, "u32")))
            elif 0 < c < self.WEAK_COUNT and c % self.COUNT == 0:
                more.append(("add_strong" if x[1] == "Add" else "sub_strong", ("c", c // self.COUNT, "u32")))
            else:
                return None
            x = strip(x[2])
        if isinstance(x, tuple) and x[0] == "field" and x[1] in ("inner", "State.inner", "0") and \
                strip(t[2][0]) != x:
            more.reverse()
            return strip(x[2]), more
        return None

    def unraw(self, term):
        """`S.as_raw()` -> S ; else None."""
        t = strip(term)
        if isinstance(t, tuple) and t[0] == "call" and t[1] == ST + "as_raw":
            return strip(t[2][0])
        # the observed raw word itself (what `fetch_update` hands its closure and compares against): `State::from_raw(word)`
        if isinstance(t, tuple) and t[0] == "call" and t[1].startswith(ATOMIC_PREFIX) and t[1].endswith("::load"):
            return ("call", ST + "from_raw", (t,), None)
        if isinstance(t, tuple) and t[0] == "field" and t[1] in ("0", 0) and isinstance(t[2], tuple) and t[2][0] == "variant" and \
                t[2][1] == "Err" and isinstance(t[2][2], tuple) and t[2][2][0] == "call" and t[2][2][1].startswith(ATOMIC_PREFIX):
            return ("call", ST + "from_raw", (t,), None)
        return None

    def observation(self, sterm):
        """`State::from_raw(X)` -> X (the raw observed word), else None."""
        t = strip(sterm)
        if isinstance(t, tuple) and t[0] == "call" and t[1] == ST + "from_raw":
            return strip(t[2][0])
        return None

    def field_of(self, term):
        """accessor(chain(S)) -> (field, S_base, offsets, forced) where offsets is a list of
        (sign, term) adjustments on that field and forced is a constant the field was set to."""
        t = strip(term)
        if not (isinstance(t, tuple) and t[0] == "call" and t[1].startswith(ST) and t[1][len(ST):] in ACCESSORS):
            return None
        field = t[1][len(ST):]
        base, ops = self.parse_state(t[2][0])
        offs = []
        forced = None
        for (b, arg) in ops:
            if b == "sub_strong" and field == "strong":
                offs.append((-1, arg))
            elif b == "add_strong" and field == "strong":
                offs.append((+1, arg))
            elif b == "add_weak" and field == "weak":
                offs.append((+1, arg))
            elif b == "with_epoch" and field == "epoch":
                forced = arg
            elif b == "with_destructed" and field == "destructed":
                forced = arg
            elif b == "with_weaked" and field == "weaked":
                forced = arg
        return (field, base, offs, forced)

    def predicate(self, e):
        """cond event -> dict(S, field, rel, rhs, exp) or None. Relations are normalised for
        unsigned fields; rel in {'==','!=','<','<=','>','>='}."""
        if e.kind != "cond":
            return None
        t = e.term
        v = e.value
        if not isinstance(v, int):
            # `match old.strong() { 0 => .., _ => .. }`: the otherwise arm of a switch on a count field
            f = self.field_of(t)
            if f is not None and f[0] in ("strong", "weak") and isinstance(v, tuple) and v[0] == "not" and len(v[1]) == 1:
                return _pred(f, "!=", ("c", v[1][0], "u32"), e)
            return None
        f = self.field_of(t)
        if f is not None and f[0] in ("strong", "weak") and not e.data.get("is_bool"):
            return _pred(f, "==", ("c", v, "u32"), e)
        if f is not None and f[0] in ("destructed", "weaked"):
            return _pred(f, "==", ("c", v, "bool"), e)
        if isinstance(t, tuple) and t[0] == "bin" and t[1] in _REL:
            l, r = t[2], t[3]
            fl = self.field_of(l)
            fr = self.field_of(r)
            rel = _REL[t[1]]
            if fl is None and fr is not None:
                fl, r = fr, l
                rel = _FLIP[rel]
            elif fl is None:
                return None
            if v == 0:
                rel = _NEG[rel]
            return _pred(fl, rel, r, e)
        return None

    def predicates(self, path, upto=None, after=None):
        out = []
        for i, e in enumerate(path.events):
            if upto is not None and i >= upto:
                break
            if after is not None and i <= after:
                continue
            p = self.predicate(e)
            if p is not None:
                out.append(p)
        return out

    def cas_outcome(self, path, res_term, after_idx):
        """Was the CAS whose result is res_term taken as success ('ok') or failure ('err') on this
        path?  Looks at discriminant / is_ok / is_err / map conditions after the call."""
        for e in path.events[after_idx + 1:]:
            if e.kind != "cond":
                continue
            t = e.term
            v = e.value
            if t == ("disc", res_term) and isinstance(v, int):
                return "ok" if v == 0 else "err"
            if t == ("disc", res_term) and isinstance(v, tuple):
                # otherwise-branch of a two-variant enum
                return "err" if 0 in v[1] else "ok"
            if isinstance(t, tuple) and t[0] == "call" and norm(t[1]) in ("std::result::Result::is_ok",
                                                                         "std::result::Result::is_err"):
                if strip(t[2][0]) == res_term:
                    ok = (v == 1) == norm(t[1]).endswith("is_ok")
                    return "ok" if ok else "err"
            if isinstance(t, tuple) and t[0] == "is_ok" and t[1] == res_term:
                return "ok" if v == 1 else "err"
        return None

    def sites_on_path(self, path):
        """All accesses of RcInner.state on a path, classified.
        -> list of dict(kind, op, obj, idx, event, observed(S term or None), delta{field:(sign,term)},
                        sets{flag:bool}, stamp(term|None), outcome)"""
        out = []
        for i, e in enumerate(path.events):
            ae = self.atomic_event(e)
            if ae is None:
                continue
            op, obj = ae
            site = {"op": op, "obj": obj, "idx": i, "event": e, "observed": None, "delta": {}, "sets": {},
                    "stamp": None, "outcome": "ok", "kind": "rmw", "chain": []}
            if op == "load":
                site["kind"] = "load"
                site["observed"] = ("call", ST + "from_raw", (e.result,), None)
            elif op in ("fetch_add", "fetch_sub"):
                field, mult = self.amount(e.args[1])
                site["delta"][field] = (+1 if op == "fetch_add" else -1, mult)
                site["observed"] = ("call", ST + "from_raw", (e.result,), None)
            elif op in ("compare_exchange", "compare_exchange_weak"):
                cur = self.unraw(e.args[1])
                new = self.unraw(e.args[2])
                if cur is None or new is None:
                    raise AnalysisError("%s: CAS on the count word whose operands are not State::as_raw(..): %s"
                                        % (path.body.name, show(e.args[1])))
                base, ops = self.parse_state(new)
                cbase, cops = self.parse_state(cur)
                if cops or base != cbase:
                    raise AnalysisError("%s: CAS `new` is not a builder chain over `current` (%s vs %s)" % (
                        path.body.name, show(base), show(cbase)))
                site["observed"] = cbase
                site["chain"] = ops
                for (b, arg) in ops:
                    if b == "add_strong":
                        site["delta"]["strong"] = (+1, arg)
                    elif b == "sub_strong":
                        site["delta"]["strong"] = (-1, arg)
                    elif b == "add_weak":
                        site["delta"]["weak"] = (+1, arg)
                    elif b == "with_destructed":
                        site["sets"]["destructed"] = arg
                    elif b == "with_weaked":
                        site["sets"]["weaked"] = arg
                    elif b == "with_epoch":
                        site["stamp"] = arg
                site["outcome"] = self.cas_outcome(path, e.result, i)
                out.append(site)
                if site["outcome"] == "err":
                    # a failed CAS is also an observation: its Err payload is the current word
                    payload = ("field", "0", ("variant", "Err", e.result))
                    out.append({"op": "cas-observe", "obj": obj, "idx": i, "event": e, "delta": {}, "sets": {}, "stamp": None,
                                "outcome": "ok", "kind": "load", "chain": [],
                                "observed": ("call", ST + "from_raw", (payload,), None)})
                continue
            else:
                raise AnalysisError("%s: unclassifiable atomic op `%s` on the count word" % (path.body.name, op))
            out.append(site)
        # a CAS that is skipped because it would not change the word (`if new.as_raw() == old.as_raw() { break }`) counts as
        # performed: on the path that takes the equal edge, writing `new` over `old` and not writing are the same - the
        # transformer is the identity on this word (in particular a stamp that is "not written" is already there)
        extra = []
        for i, e in enumerate(path.events):
            if e.kind != "cond" or e.value != 1 or not (isinstance(e.term, tuple) and e.term[0] == "bin" and e.term[1] == "Eq"):
                continue
            a, b_ = self.unraw(e.term[2]), self.unraw(e.term[3])
            if a is None or b_ is None:
                continue
            for new, cur in ((a, b_), (b_, a)):
                base, ops = self.parse_state(new)
                cbase, cops = self.parse_state(cur)
                if cops or base != cbase or not ops:
                    continue
                src = [s_ for s_ in out if s_["observed"] == cbase and s_["idx"] < i]
                if not src:
                    continue
                site = {"op": "compare_exchange", "obj": src[-1]["obj"], "idx": i, "event": e, "observed": cbase, "delta": {},
                        "sets": {}, "stamp": None, "outcome": "ok", "kind": "rmw", "chain": ops, "virtual": True}
                for (bn, arg) in ops:
                    if bn == "add_strong":
                        site["delta"]["strong"] = (+1, arg)
                    elif bn == "sub_strong":
                        site["delta"]["strong"] = (-1, arg)
                    elif bn == "add_weak":
                        site["delta"]["weak"] = (+1, arg)
                    elif bn == "with_destructed":
                        site["sets"]["destructed"] = arg
                    elif bn == "with_weaked":
                        site["sets"]["weaked"] = arg
                    elif bn == "with_epoch":
                        site["stamp"] = arg
                extra.append(site)
                break
        if extra:
            out = sorted(out + extra, key=lambda s_: s_["idx"])
        return out


_REL = {"Eq": "==", "Ne": "!=", "Lt": "<", "Le": "<=", "Gt": ">", "Ge": ">="}
_FLIP = {"==": "==", "!=": "!=", "<": ">", "<=": ">=", ">": "<", ">=": "<="}
_NEG = {"==": "!=", "!=": "==", "<": ">=", "<=": ">", ">": "<=", ">=": "<"}


def _pred(f, rel, rhs, e):
    field, base, offs, forced = f
    rhs = _uncast(rhs)
    # normalise unsigned comparisons against constants 0 / 1
    if rhs[0] == "c" and isinstance(rhs[1], int) and not offs:
        c = rhs[1]
        if c == 0 and rel == ">":
            rel = "!="
        elif c == 0 and rel == "<=":
            rel = "=="
        elif c == 1 and rel == ">=":
            rel, rhs = "!=", ("c", 0, rhs[2])
        elif c == 1 and rel == "<":
            rel, rhs = "==", ("c", 0, rhs[2])
    # move offsets to the right-hand side: strong(S) - n == 0  =>  strong(S) == n
    if offs and rhs[0] == "c" and rhs[1] == 0 and len(offs) == 1 and rel in ("==", "!="):
        sign, n = offs[0]
        if sign == -1:
            rhs = _uncast(n)
            offs = []
    # ... and with a constant on both sides: strong(S) - n == c  =>  strong(S) == n + c
    if offs and len(offs) == 1 and rhs[0] == "c" and isinstance(rhs[1], int) and rel in ("==", "!="):
        sign, n = offs[0]
        n = _uncast(n)
        if isinstance(n, tuple) and n[0] == "c" and isinstance(n[1], int):
            rhs = ("c", rhs[1] - sign * n[1], rhs[2])
            offs = []
    return {"S": base, "field": field, "rel": rel, "rhs": rhs, "offs": offs, "forced": forced, "exp": e.exp,
            "event": e}


def _uncast(t):
    while isinstance(t, tuple) and t[0] == "cast" and t[1] in ("IntToInt",):
        t = t[2]
    return t


def _is_state_place(p, field):
    for e in p["proj"]:
        if isinstance(e, dict) and e.get("name") == field and e.get("adt") == RCINNER:
            return True
    return False


def _places_in_rvalue(rv):
    out = []

    def op(o):
        p = o.get("copy") or o.get("move")
        if p:
            out.append(p)
    k = rv["k"]
    if k in ("use", "cast", "repeat"):
        op(rv["op"])
    elif k == "binop":
        op(rv["l"])
        op(rv["r"])
    elif k == "unop":
        op(rv["x"])
    elif k == "aggregate":
        for f in rv["fields"]:
            op(f)
    elif k in ("ref", "rawptr", "discriminant", "copy_for_deref"):
        out.append(rv["place"])
    return out


def _op_local(o):
    p = o.get("copy") or o.get("move")
    if p is not None and not p["proj"]:
        return p["local"]
    return None


def is_zero(t):
    return isinstance(t, tuple) and t[0] == "c" and t[1] == 0


def const_of(t):
    t = _uncast(t)
    if isinstance(t, tuple) and t[0] == "c" and isinstance(t[1], int):
        return t[1]
    return None
