import argparse
import json
import os
import sys
import time
import traceback

from . import facts as facts_mod
from . import mir, cw, registry, report, props  # noqa: F401  (props fills the registry)
from .facts import AnalysisError


def analyse(prop, tier, repo, debug_assertions=True, facts_file=None):
    """Run the MIR rules of `prop` on one configuration -> (results, meta)."""
    spec = registry.PROPS[prop]
    f = facts_mod.load_facts(facts_file) if facts_file else facts_mod.build_facts(repo, debug_assertions)
    prog = mir.Program(f)
    ctx = cw.CW(prog)
    ctx.tier = tier
    errors = []
    results = registry.run_rules(ctx, spec["rules"], errors)
    meta = dict(f["meta"])
    meta["analysis_errors"] = errors
    return results, meta


def main(argv):
    ap = argparse.ArgumentParser()
    ap.add_argument("prop")
    ap.add_argument("--tier", default=os.environ.get("VERIF_TIER", "quick"))
    ap.add_argument("--replay")
    ap.add_argument("--repo", default=os.environ.get("CIRC_REPO", "/repo"))
    ap.add_argument("--facts")
    ap.add_argument("--no-witness", action="store_true")
    ap.add_argument("--no-selftest", action="store_true")
    a = ap.parse_args(argv)
    prop = a.prop
    tier = a.tier if a.tier in ("quick", "thorough") else "quick"
    if prop not in registry.PROPS:
        print("ANALYSIS-ERROR: property %s has no check" % prop)
        return 2
    if a.replay:
        with open(a.replay) as f:
            rp = json.load(f)
        print("replaying %s: re-analysing %s (the recorded violation was: %s)" % (
            a.replay, a.repo, rp.get("violation", {}).get("key")))
    spec = registry.PROPS[prop]
    t0 = time.time()
    try:
        results, meta = analyse(prop, tier, a.repo, True, a.facts)
        configs = [{"debug_assertions": True, "bodies": meta.get("bodies")}]
        # both build configurations on every run: a step moved into a `debug_assert!` or a `cfg!(debug_assertions)` arm
        # exists in the test suite's build and not in a release build
        if not a.facts:
            res2, meta2 = analyse(prop, tier, a.repo, False)
            meta["analysis_errors"] = meta.get("analysis_errors", []) + meta2.get("analysis_errors", [])
            configs.append({"debug_assertions": False, "bodies": meta2.get("bodies")})
            for r in res2:
                r.rule_config = "release"
                # merge: keep separate results but mark the configuration
                r.description += " [debug assertions off]"
            results = list(results) + list(res2)
        meta["configs"] = configs
        extra = {}
        # type-level witnesses
        if spec.get("witnesses") and not a.no_witness:
            from . import witness
            wr = witness.run(spec["witnesses"], a.repo)
            results = list(results) + list(wr)
        # pure-arithmetic engine / other extra engines
        for hook in spec.get("extra", []):
            hr = hook(a.repo, tier)
            if isinstance(hr, tuple):
                results = list(results) + list(hr)
            else:
                results = list(results) + [hr]
        if tier == "thorough" and spec.get("selftest") and not a.no_selftest and not a.facts:
            from . import selftest
            sr = selftest.run_for_property(prop, a.repo)
            results = list(results) + [sr]
    except AnalysisError as e:
        print("ANALYSIS-ERROR property=%s: %s" % (prop, e))
        return 2
    except Exception:
        traceback.print_exc()
        print("ANALYSIS-ERROR property=%s: internal error in the checker" % prop)
        return 2
    aerr = meta.get("analysis_errors", [])
    rc = report.finish(prop, spec["level"], tier, results, meta, t0, assumptions=spec.get("assumptions"),
                       not_decided=spec.get("not_decided"),
                       extra_cov={"analysis_errors": [{"rule": n, "text": x} for n, x in aerr]} if aerr else None)
    for (n, x) in aerr:
        print("ANALYSIS-ERROR property=%s rule=%s: %s" % (prop, n, x))
    if aerr and rc == 0:
        # some rule could not analyse the tree and no other rule found a violation: neither pass nor alarm
        rc = 2
    nv = sum(len(r.violations) for r in results)
    print("%s: %d rules, %d obligations, %d discharged, %d violation key(s) [%s, %.1fs]" % (
        prop, len(results), sum(r.obligations for r in results), sum(r.discharged for r in results), nv, tier,
        time.time() - t0))
    return rc
