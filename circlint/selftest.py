"""Self-test of the checker (DESIGN.md 3.6): apply one small patch to a scratch copy of /repo,
re-analyse, and require (a) for a *breaking* patch: the expected rule reports a violation that is
not a known finding; (b) for a *behaviour-preserving* patch: every rule stays silent.

Scratch copies live under $TMPDIR and are removed after each mutant."""
import json
import os
import shutil
import subprocess
import sys
import tempfile
import time
from concurrent.futures import ProcessPoolExecutor

from . import facts as facts_mod
from . import mir, cw, registry, report
from .facts import AnalysisError, VERIF

CORPUS = os.path.join(VERIF, "selftest", "corpus.json")


def load_corpus():
    with open(CORPUS) as f:
        return json.load(f)


def make_scratch(repo):
    d = tempfile.mkdtemp(prefix="circ-mut-")
    subprocess.run(["rsync", "-a", "--exclude", "target", "--exclude", ".git", repo.rstrip("/") + "/", d + "/"],
                   check=True)
    return d


def apply_edits(d, edits):
    for ed in edits:
        if "patch" in ed:
            pf = os.path.join(VERIF, ed["patch"])
            r = subprocess.run(["patch", "-p1", "-s", "-i", pf], cwd=d, capture_output=True, text=True)
            if r.returncode != 0:
                raise AnalysisError("selftest: patch %s does not apply: %s" % (ed["patch"], (r.stdout + r.stderr)[:300]))
            continue
        p = os.path.join(d, ed["file"])
        with open(p) as f:
            t = f.read()
        cnt = t.count(ed["old"])
        want = ed.get("count", 1)
        if cnt != want:
            raise AnalysisError("selftest: patch anchor found %d times (expected %d) in %s: %r" % (
                cnt, want, ed["file"], ed["old"][:60]))
        t = t.replace(ed["old"], ed["new"])
        with open(p, "w") as f:
            f.write(t)


def analyse_tree(repo, rules=None, debug_assertions=True, witnesses=False):
    """-> (dict rule -> [violation keys], dict rule -> analysis error text)"""
    f = facts_mod.build_facts(repo, debug_assertions)
    prog = mir.Program(f)
    ctx = cw.CW(prog)
    out = {}
    errs = {}
    known = {k["key"] for k in report.load_known() if k.get("status") == "known"}
    for name in sorted(rules or registry.RULES):
        try:
            rs = registry.run_rules(ctx, [name])
        except AnalysisError as e:
            errs[name] = str(e)
            continue
        for r in rs:
            ks = [v.key for v in r.violations if v.key not in known]
            if ks:
                out[name] = ks
    if witnesses:
        from . import witness
        try:
            for r in witness.run(list(witness.GROUPS), repo):
                ks = [v.key for v in r.violations]
                if ks:
                    out[r.rule] = ks
        except AnalysisError as e:
            errs["TY-WITNESS"] = str(e)[:600]
    return out, errs


def run_mutant(args):
    m, repo = args
    from . import props  # noqa: F401
    t0 = time.time()
    d = None
    try:
        d = make_scratch(repo)
        apply_edits(d, m["edits"])
        try:
            want_w = bool(m.get("witness")) or any(x.startswith("TY-") for x in m.get("expect", []))
            rules = None
            if m["kind"] == "break" and m.get("only_expected", True):
                rules = [x for x in m["expect"] if x in registry.RULES]
            viol, errs = analyse_tree(d, rules=rules, witnesses=want_w or m["kind"] == "benign",
                                      debug_assertions=m.get("config") != "release")
        except AnalysisError as e:
            return {"id": m["id"], "status": "analysis-error", "detail": str(e)[:400], "wall_s": time.time() - t0}
        return {"id": m["id"], "violations": viol, "errors": errs, "wall_s": round(time.time() - t0, 1)}
    except AnalysisError as e:
        return {"id": m["id"], "status": "analysis-error", "detail": str(e)[:400], "wall_s": time.time() - t0}
    finally:
        if d:
            shutil.rmtree(d, ignore_errors=True)


def judge(m, res):
    """-> (ok, text)"""
    if res.get("status") == "analysis-error":
        # does not compile / cannot be analysed
        if m["kind"] == "break":
            return (m.get("allow_error", False), "analysis error: " + res["detail"][:200])
        return (False, "analysis error on a behaviour-preserving edit: " + res["detail"][:200])
    viol = res["violations"]
    errs = res["errors"]
    if m["kind"] == "break":
        exp = m["expect"]
        hit = [r for r in exp if r in viol]
        if hit:
            return (True, "reported by %s" % hit)
        eh = [r for r in exp if r in errs]
        if eh and m.get("allow_error"):
            return (True, "analysis error (fail closed) in %s" % eh)
        return (False, "NOT reported by %s; fired: %s; errors: %s" % (exp, sorted(viol), sorted(errs)))
    else:
        if viol or errs:
            return (False, "false alarm: %s %s" % (viol, errs))
        return (True, "silent")


def run_corpus(repo, ids=None, props_filter=None, jobs=None):
    corpus = load_corpus()
    ms = [m for m in corpus["mutants"] if (ids is None or m["id"] in ids)
          and (props_filter is None or props_filter in m.get("properties", []))]
    jobs = jobs or min(16, max(1, len(ms)))
    with ProcessPoolExecutor(max_workers=jobs) as ex:
        results = list(ex.map(run_mutant, [(m, repo) for m in ms]))
    out = []
    for m, res in zip(ms, results):
        ok, txt = judge(m, res)
        out.append({"id": m["id"], "kind": m["kind"], "ok": ok, "text": txt, "wall_s": res.get("wall_s"),
                    "expect": m.get("expect"), "desc": m.get("desc")})
    return out


def run_for_property(prop, repo):
    """Thorough tier: run the corpus entries of one property; checker self-test failures are
    analysis errors (the checker is broken), never violations of the property."""
    r = report.RuleResult("SELFTEST", [prop], "checker self-test: breaking patches are reported by the expected rule, "
                          "behaviour-preserving edits stay silent (scratch copies, nothing executed)")
    res = run_corpus(repo, props_filter=prop)
    bad = []
    for x in res:
        r.instance("%s [%s]: %s" % (x["id"], x["kind"], x["text"][:100]), x["ok"])
        if not x["ok"]:
            bad.append(x)
    if bad:
        raise AnalysisError("checker self-test failed for %s: %s" % (prop, [(b["id"], b["text"]) for b in bad][:5]))
    return r


if __name__ == "__main__":
    from . import props  # noqa: F401
    ids = sys.argv[1:] or None
    t0 = time.time()
    res = run_corpus(os.environ.get("CIRC_REPO", "/repo"), ids=ids)
    nbad = 0
    for x in res:
        print("%-4s %-28s %-6s %s" % ("ok" if x["ok"] else "FAIL", x["id"], x["kind"], x["text"][:260]))
        nbad += 0 if x["ok"] else 1
    print("%d mutants, %d failed, %.1fs" % (len(res), nbad, time.time() - t0))
    sys.exit(1 if nbad else 0)
