"""CW-* rules: the count-word protocol (DESIGN.md section 4.1)."""
import re

from .facts import AnalysisError
from .report import RuleResult
from .sym import norm, show, strip, subterms, calls_in
from .cw import CW, ST, const_of, is_zero, _uncast

TRY_DESTRUCT = "utils::RcInner::<T>::try_destruct"
TRY_DEALLOC = "utils::RcInner::<T>::try_dealloc"
DISPOSE = "utils::dispose"
DGN = "utils::dispose_general_node"
DEC_STRONG = "utils::RcInner::<T>::decrement_strong"
DEC_WEAK = "utils::RcInner::<T>::decrement_weak"
INC_STRONG = "utils::RcInner::<T>::increment_strong"
INC_WEAK = "utils::RcInner::<T>::increment_weak"
DEALLOC = "utils::RcInner::<T>::dealloc"
ALLOC = "utils::RcInner::<T>::alloc"
DEFER = ("<ebr_impl::guard::Guard as utils::Deferable>::defer_with_inner",
         "<std::option::Option<&ebr_impl::guard::Guard> as utils::Deferable>::defer_with_inner",
         "utils::Deferable::defer_with_inner")
PTR_UNWRAP = {"ebr_impl::pointers::Tagged::deref", "ebr_impl::pointers::Tagged::deref_mut",
              "ebr_impl::pointers::Tagged::as_raw", "ebr_impl::pointers::Tagged::as_ref", "ebr_impl::pointers::Tagged::as_mut",
              "std::ptr::mut_ptr::as_ref", "std::ptr::mut_ptr::as_mut", "std::ptr::const_ptr::as_ref",
              "ebr_impl::pointers::Tagged::with_tag", "ebr_impl::pointers::Tagged::with_high_tag",
              "strong::with_timestamp",
              "std::convert::From::from", "<ebr_impl::pointers::Tagged<T> as std::convert::From<*mut T>>::from",
              "<ebr_impl::pointers::Tagged<T> as std::convert::From<*const T>>::from"}


def ptr_root(t):
    """Canonical root of a pointer-ish term: strips refs, derefs, loads, pointer casts,
    Option unwrapping of as_ref/as_mut and the Tagged accessors that keep the address."""
    while True:
        t = strip(t)
        if not isinstance(t, tuple):
            return t
        if t[0] == "call" and (norm(t[1]) in PTR_UNWRAP or norm(t[1]).endswith("::with_timestamp")) and t[2]:
            t = t[2][0]
            continue
        if t[0] == "field" and t[1] in ("0", 0) and isinstance(t[2], tuple) and t[2][0] == "variant":
            t = t[2][2]
            continue
        return t


def closure_name(term):
    t = term
    while isinstance(t, tuple) and t[0] == "ref":
        t = t[1]
    if isinstance(t, tuple) and t[0] == "agg" and isinstance(t[1], str) and t[1].startswith("closure:"):
        return t[1][len("closure:"):]
    return None


def deferred_callee(prog, cname):
    """The single function a deferred closure calls on its parameter."""
    b = prog.bodies.get(cname)
    if b is None:
        return None
    tg = []
    for bi, t, c in b.calls():
        if t["target"] is None:
            continue
        tg.append(c.target)
    if len(tg) == 1:
        return tg[0]
    return None


def handoffs(ctx, path, after_idx):
    """Attempt hand-offs after event index: [(kind, ptr_root, event)] with kind in
    {'defer:try_destruct','direct:dispose_general_node','direct:try_destruct', 'defer:<other>'}"""
    out = []
    for e in path.events[after_idx + 1:]:
        if e.kind != "call":
            continue
        if e.target in DEFER or (e.ntarget or "").endswith("Deferable>::defer_with_inner"):
            cn = closure_name(e.args[2]) if len(e.args) > 2 else None
            tgt = deferred_callee(ctx.prog, cn) if cn else None
            out.append(("defer:" + (tgt or "?"), ptr_root(e.args[1]), e))
        elif e.target == "ebr_impl::guard::Guard::defer_unchecked" and len(e.args) > 1:
            # the deferral primitive itself, seen because the wrapper around it is a helper introduced by a refactoring
            # (read inlined): `guard.defer_unchecked(move || f(ptr))` - evaluate the closure to find what runs on what
            rd = resolve_deferred(ctx, e.args[1])
            if rd is not None:
                out.append(("defer:" + rd[0], ptr_root(rd[1]), e))
        elif e.target in (DGN, TRY_DESTRUCT, DISPOSE):
            out.append(("direct:" + e.target, ptr_root(e.args[0]), e))
    return out


def resolve_deferred(ctx, clo):
    """`move || f(ptr)` (a closure value whose captures are known) -> (function finally called, its first argument)"""
    from .sym import Exec
    cb = ctx.ex._closure_body(clo)
    if cb is None or getattr(cb, "kind", None) != "closure":
        return None
    c0 = clo
    while isinstance(c0, tuple) and c0[0] == "ref":
        c0 = c0[1]
    found = set()
    try:
        paths = Exec(ctx.prog).paths(cb, args={1: c0})
    except AnalysisError:
        return None
    for p in paths:
        for e in p.events:
            if e.kind == "call" and e.target in ctx.prog.bodies and ctx.prog.bodies[e.target].kind != "closure" and e.args:
                found.add((e.target, e.args[0]))
    if len(found) == 1:
        return next(iter(found))
    return None


def ret_bool(ctx, path):
    """Evaluate a bool return term under the path's own conditions."""
    t = path.ret
    if t is None:
        return None
    neg = False
    while isinstance(t, tuple) and t[0] == "un" and t[1] == "Not":
        t = t[2]
        neg = not neg
    if isinstance(t, tuple) and t[0] == "c" and isinstance(t[1], int):
        return bool(t[1]) != neg
    for e in path.events:
        if e.kind == "cond" and e.term == t and isinstance(e.value, int):
            return bool(e.value) != neg
    return None


def split_on_return(ctx, path):
    """A bool-returning function whose return value is a (negated) State flag that no branch has
    tested (e.g. `return !old.destructed()` straight after a load) stands for two executions: yield one
    path per value with the corresponding condition appended."""
    from .sym import Event, Path
    rb = ret_bool(ctx, path)
    if rb is not None or path.ret is None:
        return [(path, rb)]
    t = path.ret
    neg = False
    while isinstance(t, tuple) and t[0] == "un" and t[1] == "Not":
        t = t[2]
        neg = not neg
    f = ctx.field_of(t)
    if f is None or f[0] not in ("destructed", "weaked"):
        return [(path, None)]
    out = []
    for v in (0, 1):
        ev = Event("cond", path.events[-1].bb if path.events else 0, (), path.body, term=t, value=v, exp=False,
                   span=None, is_bool=True)
        p2 = Path(path.body, list(path.events) + [ev], path.exit, ("c", int(bool(v) != neg), "bool"), path.blocks)
        p2.env = getattr(path, "env", None)
        out.append((p2, bool(v) != neg))
    return out


def first_obs_preds(ctx, path, site):
    """Predicates on the observed word of `site` anywhere on the path."""
    S = site["observed"]
    return [p for p in ctx.predicates(path) if p["S"] == S]


def has_pred(preds, field, rel, value=None, allow_exp=False):
    for p in preds:
        if p["exp"] and not allow_exp:
            continue
        if p["field"] == field and p["rel"] == rel:
            if value is None or const_of(p["rhs"]) == value or p["rhs"] == value:
                return p
    return None


# ------------------------------------------------------------------------------------------
def rule_sites(ctx):
    r = RuleResult("CW-SITES", ["C01", "C03", "C04", "C05", "C12"],
                   "every atomic access of RcInner.state is classified; none outside utils.rs")
    acc = ctx.scan_accesses()
    rmw = {(a.get("in"), a["bb"]) for a in acc if a["op"] != "load"}
    loads = {(a.get("in"), a["bb"]) for a in acc if a["op"] == "load"}
    for a in acc:
        r.functions.add(a["fn"])
        if not a["file"].endswith("utils.rs"):
            r.violate(a["fn"], "access:" + a["op"], "count word accessed outside utils.rs", a["loc"])
    # classify every access through the path reader (raises AnalysisError when unclassifiable)
    fns = sorted({a["fn"] for a in acc})
    table = []
    for f in fns:
        seen = set()
        for p in ctx.paths(f):
            r.paths += 1
            for s in ctx.sites_on_path(p):
                key = (s["event"].bb, s["event"].frame)
                if key in seen:
                    continue
                seen.add(key)
                desc = {"fn": f, "op": s["op"], "delta": {k: (v[0], show(v[1])) for k, v in s["delta"].items()},
                        "sets": {k: show(v) for k, v in s["sets"].items()},
                        "stamp": show(s["stamp"]) if s["stamp"] is not None else None, "loc": s["event"].loc()}
                table.append(desc)
                r.instance("%s@%s:%s" % (f, s["op"], s["event"].loc().split(":")[-1] if False else s["op"]), True, **desc)
    # initialisation: AtomicU64::new inside alloc
    ab = ctx.prog.body(ALLOC)
    init = [c for (_, _, c) in ab.calls() if norm(c.target or "") == "std::sync::atomic::Atomic::new"]
    if len(init) != 1:
        raise AnalysisError("CW-SITES: alloc does not initialise the count word exactly once")
    # with_destructed(false) / with_weaked(false) have no call sites (flags are never cleared)
    for name in ("with_destructed", "with_weaked"):
        for (b, bi, t, c) in ctx.prog.callers_of(ST + name):
            arg = t["args"][1]
            v = arg.get("const", {}).get("int")
            ok = (v == "1")
            r.instance("%s(%s) in %s" % (name, v, b.name), ok)
            if not ok:
                r.violate(b.name, name, "flag may be cleared (argument is not the constant true)", b.loc(bi))
    # the floor counts roles, not syntactic sites: a CAS loop shared by several functions through a helper (read inlined into
    # each of them) is one site per function that uses it
    role_rmw = {(d["fn"], d["loc"], d["op"], str(sorted(d["delta"].items())), str(sorted(d["sets"].items()))) for d in table
                if d["op"] != "load"}
    r.require(max(len(rmw), len(role_rmw)), 10, "RMW sites on the count word")
    r.notes.append("RMW sites=%d loads=%d init=1" % (len(rmw), len(loads)))
    ctx.site_table = table
    return r


# ------------------------------------------------------------------------------------------
def strong_adders(ctx):
    """Functions of RcInner whose paths contain a successful RMW with positive strong delta."""
    out = {}
    for a in ctx.scan_accesses():
        f = a["fn"]
        if f in out:
            continue
        for p in ctx.paths(f):
            for s in ctx.sites_on_path(p):
                d = s["delta"].get("strong")
                if d and d[0] > 0:
                    out[f] = True
    return sorted(out)


def upgrade_helpers(ctx):
    """RcInner methods returning bool that are called from Option-returning API functions of
    strong.rs / weak.rs (the `upgrade` role), whether or not they (still) add to the count."""
    out = set()
    for name, b0 in ctx.prog.bodies.items():
        b = ctx.prog.bodies.get(ctx.prog.home(name), b0)
        if not (b.file().endswith("weak.rs") or b.file().endswith("strong.rs")):
            continue
        if not b.locals[0]["ty"].startswith("std::option::Option<"):
            continue
        for (bi, t, c) in b0.calls():
            tg = c.target or ""
            if tg.startswith("utils::RcInner::<T>::") and tg in ctx.prog.bodies and \
                    ctx.prog.bodies[tg].locals[0]["ty"] == "bool":
                out.add(tg)
    return out


def inc_functions(ctx):
    return sorted(set(strong_adders(ctx)) | upgrade_helpers(ctx))


def weak_adders(ctx):
    out = {}
    for a in ctx.scan_accesses():
        f = a["fn"]
        for p in ctx.paths(f):
            for s in ctx.sites_on_path(p):
                d = s["delta"].get("weak")
                if d and d[0] > 0:
                    out[f] = True
    return sorted(out)


def _added(ctx, path, field):
    """(total constant added on `field` by successful RMWs, list of sites, symbolic?)"""
    total = 0
    sites = []
    sym = []
    for s in ctx.sites_on_path(path):
        d = s["delta"].get(field)
        if not d or s["outcome"] != "ok":
            continue
        c = const_of(d[1])
        if c is None:
            sym.append(d)
        else:
            total += d[0] * c
        sites.append(s)
    return total, sites, sym


def rule_token(ctx):
    r = RuleResult("CW-TOKEN", ["C01", "C05", "C02"],
                   "an increment that observes strong==0 (not destructed) adds share+1; with strong>0 adds share")
    fns = inc_functions(ctx)
    for f in fns:
        r.functions.add(f)
        by_class = {"zero": set(), "pos": set()}
        for p0 in ctx.paths2(f):
            r.paths += 1
            if p0.exit[0] != "return":
                # a retry path must not have added anything
                tot, sites, sym = _added(ctx, p0, "strong")
                if p0.exit[0] == "retry" and (tot or sym):
                    r.violate(f, "retry-path", "strong count changed on a path that retries", p0.body.loc(p0.exit[1]))
                continue
            for (p, rb) in split_on_return(ctx, p0):
                if p.ret is not None and p.ret != ("c", "()", "()") and rb is None:
                    raise AnalysisError("CW-TOKEN: cannot evaluate the return value of %s on a path" % f)
                if rb is False:
                    continue
                sites_all = ctx.sites_on_path(p)
                if not sites_all:
                    raise AnalysisError("CW-TOKEN: success path of %s without any access" % f)
                tot, sites, sym = _added(ctx, p, "strong")
                if sym:
                    raise AnalysisError("CW-TOKEN: symbolic strong increment in %s" % f)
                # the decision must be made on the word observed by the RMW that adds (for a CAS: the `current`
                # of the successful attempt, not a value seen by an earlier, failed one); without any add: on the
                # last observation
                first = sites[0] if sites else sites_all[-1]
                preds = first_obs_preds(ctx, p, first)
                z = has_pred(preds, "strong", "==", 0)
                nz = has_pred(preds, "strong", "!=", 0)
                if z and not has_pred(preds, "destructed", "==", 0):
                    r.violate(f, "from-zero", "increments from zero without checking DESTRUCTED on the same observation",
                              first["event"].loc())
                if z:
                    by_class["zero"].add(tot)
                elif nz:
                    by_class["pos"].add(tot)
                else:
                    r.violate(f, "undecided", "a success path adds %d without deciding whether the observed strong count "
                              "was zero (no token for a pending destruction attempt)" % tot, first["event"].loc())
        if r.violations and any(v.function == f for v in r.violations):
            continue
        if len(by_class["pos"]) > 1 or len(by_class["zero"]) > 1:
            r.violate(f, "inconsistent", "different amounts added on equivalent paths: %s" % by_class)
            continue
        if not by_class["zero"]:
            r.violate(f, "from-zero", "no path handles an observed strong count of zero")
            continue
        share = next(iter(by_class["pos"])) if by_class["pos"] else None
        zero = next(iter(by_class["zero"]))
        if share is None:
            raise AnalysisError("CW-TOKEN: %s has no strong>0 success path" % f)
        ok = (zero == share + 1)
        r.instance(f, ok, share=share, added_from_zero=zero)
        if not ok:
            r.violate(f, "from-zero", "adds %d when incrementing from zero but %d otherwise (expected share+1 = %d): "
                      "the pending destruction attempt is not accounted for" % (zero, share, share + 1))
    r.require(len(fns), 2, "strong-adding functions")
    return r


def rule_inc_fail_on_destructed(ctx):
    r = RuleResult("CW-INC-FAIL-ON-DESTRUCTED", ["C05"],
                   "strong-adding functions fail exactly when DESTRUCTED was observed; callers create an owner only on success")
    fns = inc_functions(ctx)
    for f in fns:
        r.functions.add(f)
        for (p, rb) in [x for p0 in ctx.paths2(f) if p0.exit[0] == "return" for x in split_on_return(ctx, p0)]:
            r.paths += 1
            if rb is None:
                raise AnalysisError("CW-INC-FAIL: cannot evaluate return of %s" % f)
            sites = ctx.sites_on_path(p)
            # the *last* observation decides (CAS loops re-observe)
            dz = None
            for s in sites:
                for q in first_obs_preds(ctx, p, s):
                    if q["field"] == "destructed" and not q["exp"]:
                        dz = const_of(q["rhs"])
            if dz is None:
                r.violate(f, "path", "returns %s without having tested DESTRUCTED" % rb, p.body.loc(p.blocks[-1][1]))
                continue
            ok = (rb is True and dz == 0) or (rb is False and dz == 1)
            r.instance("%s: destructed=%s -> %s" % (f, dz, rb), ok)
            if not ok:
                r.violate(f, "result", "returns %s on a path that observed destructed=%s" % (rb, dz))
    # callers outside utils.rs
    ncallers = 0
    for f in fns:
        for (b0, bi, t, c) in ctx.prog.callers_of(f):
            b = ctx.prog.body(ctx.prog.home(b0.name))
            if b.file().endswith("utils.rs"):
                continue
            out_ty = b.locals[0]["ty"]
            if not out_ty.startswith("std::option::Option<"):
                # result unused or not an Option-returning API (Rc::clone, counted): nothing to check here
                continue
            ncallers += 1
            r.functions.add(b.name)
            for p in ctx.paths(b.name):
                if p.exit[0] != "return":
                    continue
                r.paths += 1
                inc = [e for e in p.events if e.kind == "call" and e.target == f]
                ret = p.ret
                is_none = isinstance(ret, tuple) and ret[0] == "agg" and ret[2] == "None"
                is_some = isinstance(ret, tuple) and ret[0] == "agg" and ret[2] == "Some"
                if inc:
                    e = inc[0]
                    val = None
                    for q in p.events:
                        if q.kind == "cond" and q.term == e.result and isinstance(q.value, int):
                            val = q.value
                    if val is None:
                        r.violate(b.name, "unchecked", "result of %s is not tested before creating an owner" % f, e.loc())
                        continue
                    ok = (val == 1 and is_some) or (val == 0 and is_none)
                    if ok and is_some:
                        # the owner refers to the same pointer
                        ok = ptr_root(ret[3][0]) == ptr_root(e.args[0]) or \
                            ptr_root(_first_arg(ret[3][0])) == ptr_root(e.args[0])
                    r.instance("%s: %s=%s -> %s" % (b.name, f.split("::")[-1], val, "Some" if is_some else "None"), ok)
                    if not ok:
                        r.violate(b.name, "result", "returns %s when %s reported %s" % (
                            "Some" if is_some else "None", f.split("::")[-1], bool(val)), e.loc())
                else:
                    # no increment: must be the null short-circuit
                    nullc = [q for q in p.events if q.kind == "cond" and _is_null_test(q)]
                    ok = bool(nullc) and is_some
                    r.instance("%s: null -> Some(null)" % b.name, ok)
                    if not ok:
                        r.violate(b.name, "null", "path without increment is not the null short-circuit returning Some",
                                  b.loc(0))
    # an upgrade that reaches no strong-adding check on any path can never succeed for a live object (or hands out owners
    # without shares): not a lost anchor, a violation of "a call made while some strong owner exists always succeeds"
    for name, b in sorted(ctx.prog.bodies.items()):
        if b.kind == "closure" or not b.file().endswith("weak.rs") or not name.endswith("::upgrade") or \
                not b.locals[0]["ty"].startswith("std::option::Option<"):
            continue
        reach_inc = False
        for p in ctx.paths(name):
            if any(e.kind == "call" and (e.target in fns or (e.target or "").startswith("utils::RcInner::<T>::") and
                                        ctx.prog.bodies.get(e.target) is not None and
                                        ctx.prog.bodies[e.target].locals[0]["ty"] == "bool") for e in p.events):
                reach_inc = True
        r.instance("%s reaches a check that can grant a share" % name, reach_inc)
        if not reach_inc:
            ncallers += 1       # (the function is there: the floor below is not what failed)
            r.violate(name, "never-succeeds", "no path of this upgrade reaches the count-word check that grants a share: it "
                      "fails for every non-null pointer although a strong owner exists (or it creates owners without shares)",
                      b.loc(0))
    r.require(ncallers, 2, "Option-returning callers of strong-adding functions")
    return r


def rule_window_fresh(ctx):
    """4-bit stamps only mean something relative to a window `Modular::new(current epoch + 1)`.  The cascade re-pins while
    it runs (every 128 nodes, and in the recursion into earlier children), so the global epoch can advance by any amount
    inside one frame: a window built before such a point is stale, and a stamp newer than it wraps around and is read as
    ancient (F17)."""
    r = RuleResult("CW-WINDOW-FRESH", ["C02", "C12"],
                   "every Modular::max / Modular::le of the cascade uses a window built from a global_epoch() read made after "
                   "the last point of the path at which the thread may have been re-pinned (recursive call, repin)")
    prog = ctx.prog
    from .sym import Exec
    REPIN = ("ebr_impl::internal::Local::repin_without_collect", "ebr_impl::internal::Local::repin_unless_foreign_guards",
             "ebr_impl::internal::Local::repin", DGN)
    n = 0
    seen = set()
    b = prog.body(DGN)
    r.functions.add(DGN)
    for p in Exec(prog, unroll=2).paths(b):
        r.paths += 1
        for i, e in enumerate(p.events):
            if e.kind != "call" or norm(e.target or "") not in ("utils::Modular::max", "utils::Modular::le"):
                continue
            ge = calls_in(e.args[0], "ebr_impl::default::global_epoch")
            lastpin = max([k for k, q in enumerate(p.events[:i]) if q.kind == "call" and q.target in REPIN] or [-1])
            reads = [k for k, q in enumerate(p.events[:i]) if q.kind == "call" and q.result in ge]
            fresh = bool(reads) and max(reads) > lastpin
            key = (e.bb, norm(e.target), fresh)
            if key in seen:
                continue
            seen.add(key)
            n += 1
            r.instance("%s at %s: window read after the last re-pin point" % (norm(e.target).split("::")[-1], e.loc()), fresh)
            if not fresh:
                r.violate(DGN, "stale-window:" + norm(e.target).split("::")[-1], "the stamps are compared in a window built from "
                          "an epoch read made before %s: the thread may have been re-pinned since and the global epoch may "
                          "have advanced by any amount, so a recent stamp wraps around and is read as ancient"
                          % (p.events[lastpin].target.split("::")[-1] if lastpin >= 0 else "?"), e.loc())
    r.require(n, 2, "modular comparisons in the cascade")
    return r


def rule_count_overflow(ctx):
    """The strong and the weak count are 29-bit fields of one word, right below each other and below the WEAKED and
    DESTRUCTED bits.  Handles can be leaked in safe code (mem::forget), so an increment that never looks at the value it
    increments can carry into the neighbouring field: 2^29 leaked Weaks (1024 per weak_many call) set DESTRUCTED on a live
    object (F19; std's Arc aborts at isize::MAX for the same reason)."""
    r = RuleResult("CW-COUNT-OVERFLOW", ["C01", "C03", "C05"],
                   "every function that adds to a count field bounds the value it increments (saturates, fails or aborts) "
                   "before the field can carry into its neighbour")
    fns = sorted(set(strong_adders(ctx)) | set(weak_adders(ctx)))
    n = 0
    for f in fns:
        r.functions.add(f)
        fields = set()
        bounded = set()
        for p in ctx.paths2(f):
            if p.exit[0] == "diverge":
                continue
            r.paths += 1
            for s in ctx.sites_on_path(p):
                for fld in ("strong", "weak"):
                    d = s["delta"].get(fld)
                    if not d or d[0] <= 0 or s["outcome"] != "ok":
                        continue
                    # an increment made only from an observed zero (the token) cannot carry
                    if any(q["S"] == s["observed"] and q["field"] == fld and q["rel"] == "==" and const_of(q["rhs"]) == 0
                           for q in ctx.predicates(p)) and const_of(d[1]) is not None and const_of(d[1]) <= 2:
                        continue
                    fields.add(fld)
                    for q in ctx.predicates(p):
                        if q["field"] == fld and q["rel"] in ("<", "<=", ">", ">=") and (const_of(q["rhs"]) or 0) >= (1 << 16):
                            bounded.add(fld)
        for fld in sorted(fields):
            n += 1
            ok = fld in bounded
            r.instance("%s bounds the %s count it increments" % (f.split("::")[-1], fld), ok)
            if not ok:
                r.violate(f, "unbounded:" + fld, "adds to the %s count without comparing the observed count with a bound: with "
                          "2^29 leaked handles (safe code: mem::forget; 1024 at a time through weak_many / new_many) the "
                          "field carries into its neighbour (weak -> WEAKED/DESTRUCTED, strong -> weak)" % fld,
                          ctx.prog.body(f).loc(0))
    r.require(n, 3, "incrementing functions")
    return r


def rule_cascade_foreign_guard(ctx):
    """pop_edges and Drop of the node under destruction are user code that has just run in this pass.  They can read the
    node's own links *now* - later than any reader that reached the node through the data structure - under a guard of
    their own that outlives the call (parked in a thread-local, leaked).  No stamp records such a load, so the same-pass
    destruction of a child would have to be conditional on no such guard being alive on the thread (F18)."""
    r = RuleResult("CW-CASCADE-FOREIGN-GUARD", ["C02"],
                   "the same-pass destruction of a child is gated by a test that no guard other than the collection's own is "
                   "alive on the thread")
    prog = ctx.prog
    b = prog.body(DGN)
    r.functions.add(DGN)
    n = 0
    seen = set()
    for p in ctx.paths(DGN):
        rec = [(i, e) for i, e in enumerate(p.events) if e.kind == "call" and e.target == DGN]
        for (i, e) in rec:
            if e.bb in seen:
                continue
            seen.add(e.bb)
            n += 1
            gated = False
            for q in p.events[:i]:
                if q.kind != "cond":
                    continue
                for x in subterms(q.term):
                    if x[0] == "call" and norm(x[1]) == "std::cell::Cell::get" and \
                            ("guard_count" in show(x[2][0]) or any(y[0] == "tlsval" for y in subterms(x[2][0]))):
                        gated = True
                    if x[0] == "call" and (x[1] or "").startswith("ebr_impl::internal::Local::") and \
                            prog.bodies.get(x[1]) is not None and prog.bodies[x[1]].locals[0]["ty"] == "bool":
                        gated = True
            r.instance("recursive disposal of a child is gated by the live-guard count", gated)
            if not gated:
                r.violate(DGN, "ungated-recursion", "a child whose count hits zero is destructed in the same pass without testing "
                          "whether a guard other than the collection's own is alive on the thread: pop_edges / Drop of the "
                          "parent have just run and may have loaded a Snapshot of that child from the parent's own link under a "
                          "guard they kept (parked, leaked); no stamp records such a load", e.loc())
    r.require(n, 1, "recursive disposal sites")
    return r


def rule_upgrade_trace(ctx):
    """A Snapshot handed out through a weak pointer did not come through a link of an owner, so no link stamp and no
    owner's decrement stamp says that somebody may be looking at the object *now*.  If the check that grants it leaves no
    trace on the count word, an owner that is itself being destructed takes the object with it in the same cascade pass
    (all three merged stamps are old) while the critical section that upgraded is still active (F12)."""
    r = RuleResult("CW-UPGRADE-TRACE", ["C02", "C05"],
                   "the check behind WeakSnapshot::upgrade leaves a trace on the count word on every granting path: the "
                   "token from zero, or the current epoch as stamp")
    prog = ctx.prog
    helpers = set()
    for name, b0 in prog.bodies.items():
        b = prog.bodies.get(prog.home(name), b0)
        if not b.locals[0]["ty"].startswith("std::option::Option<strong::Snapshot<"):
            continue
        # (called, or handed to a combinator as a function item: `.map_or(true, RcInner::is_not_destructed)`)
        for tg in [c.target or "" for (bi, t_, c) in b0.calls()] + [path for (bi, path) in b0.fn_refs()]:
            if tg.startswith("utils::RcInner::<T>::") and tg in prog.bodies and prog.bodies[tg].locals[0]["ty"] == "bool":
                helpers.add(tg)
    n = 0
    for f in sorted(helpers):
        r.functions.add(f)
        for (p, rb) in [x for p0 in ctx.paths2(f) if p0.exit[0] == "return" for x in split_on_return(ctx, p0)]:
            r.paths += 1
            if rb is not True:
                continue
            n += 1
            sites = [s for s in ctx.sites_on_path(p) if s["kind"] == "rmw" and s["outcome"] == "ok"]
            token = any(s["delta"].get("strong", (0,))[0] > 0 for s in sites)
            stamped = False
            for s in sites:
                st = s.get("stamp")
                if st is None:
                    continue
                v = strip(_uncast(st))
                if isinstance(v, tuple) and v[0] == "call" and v[1] == "ebr_impl::default::global_epoch":
                    stamped = True
            ok = token or stamped
            r.instance("%s grants: %s" % (f.split("::")[-1], "token from zero" if token else "stamps the current epoch" if stamped
                                           else "no trace"), ok)
            if not ok:
                r.violate(f, "no-trace", "grants a Snapshot (returns true) without adding a token or stamping the current epoch "
                          "on the count word: if the object's only owner is a node whose destruction is already pending, the "
                          "cascade merges three old stamps and destructs the object in the same pass, inside the critical "
                          "section that upgraded", p.body.loc(p.blocks[-1][1]))
    r.require(n, 1, "granting paths of snapshot-granting checks")
    return r


def _first_arg(t):
    if isinstance(t, tuple) and t[0] == "call" and t[2]:
        return t[2][0]
    if isinstance(t, tuple) and t[0] == "agg" and t[3]:
        return t[3][0]
    return t


def _is_null_test(q):
    t = q.term
    if isinstance(t, tuple) and t[0] == "disc":
        inner = t[1]
        if isinstance(inner, tuple) and inner[0] == "call" and norm(inner[1]) in (
                "std::ptr::mut_ptr::as_ref", "std::ptr::mut_ptr::as_mut", "std::ptr::const_ptr::as_ref",
                "ebr_impl::pointers::Tagged::as_ref", "ebr_impl::pointers::Tagged::as_mut"):
            # (inside Tagged, BIT-DELEGATION packed-null-test shows that the test behind them is the one on the untagged address)
            return True
    if isinstance(t, tuple) and t[0] == "call" and norm(t[1]).endswith("::is_null"):
        return True
    return False


# ------------------------------------------------------------------------------------------
PROT_STRONG = {"strong::Rc": "Rc (a strong owner: count cannot be zero)",
               "strong::Snapshot": "Snapshot (pending attempt was deferred after the caller pinned)",
               "strong::AtomicRc": "AtomicRc (a strong owner)"}
PROT_WEAK = {"strong::Rc": "Rc (strong side holds the implicit weak share)",
             "strong::Snapshot": "Snapshot", "weak::Weak": "Weak (a weak owner)",
             "weak::WeakSnapshot": "WeakSnapshot (try_dealloc deferred after the caller pinned)",
             "weak::AtomicWeak": "AtomicWeak"}


def _split_fields(ctx, f):
    """fields on which some path of f performs >= 2 successful positive RMWs."""
    out = set()
    for p in ctx.paths(f):
        for field in ("strong", "weak"):
            n = 0
            for s in ctx.sites_on_path(p):
                d = s["delta"].get(field)
                if d and d[0] > 0 and s["outcome"] == "ok":
                    n += 1
            if n >= 2:
                out.add(field)
    return out


def _receiver_class(prog, b, argterm):
    """ADT of the handle whose `ptr` the receiver derives from."""
    root = ptr_root(argterm)
    # expect field 'ptr' of (deref of) a parameter / local of handle type
    t = root
    if isinstance(t, tuple) and t[0] == "field" and t[1] == "ptr":
        base = strip(t[2])
        if isinstance(base, tuple) and base[0] == "arg":
            ty = b.locals[base[1]]
            return ty.get("adt"), show(root)
        if isinstance(base, tuple) and base[0] == "agg":
            return base[1], show(root)
        if isinstance(base, tuple) and base[0] == "call":
            # e.g. Weak::from_raw(self.ptr) / Rc::from_raw(self.ptr): follow its argument
            return _receiver_class(prog, b, base[2][0]) if base[2] else (None, show(root))
    if isinstance(t, tuple) and t[0] == "arg":
        return b.locals[t[1]].get("adt"), show(root)
    if isinstance(t, tuple) and t[0] == "call" and norm(t[1]) in ("strong::Rc::into_raw", "weak::Weak::into_raw") and t[2]:
        # the word of a handle that was just given up (`let ptr = self.into_raw()`): the handle's class
        x = strip(t[2][0])
        while isinstance(x, tuple) and x[0] in ("ref", "deref", "load"):
            x = strip(x[1])
        if isinstance(x, tuple) and x[0] == "arg":
            return b.locals[x[1]].get("adt"), show(root)
    return None, show(root)


def rule_split_inc(ctx):
    r = RuleResult("CW-SPLIT-INC-PROTECTED", ["C01", "C05", "C03"],
                   "a from-zero increment made of several RMWs is only called through a handle that excludes a "
                   "concurrent run of the pending attempt")
    cands = {}
    adders = set(strong_adders(ctx)) | set(weak_adders(ctx))
    for f in adders:
        sf = _split_fields(ctx, f)
        if sf:
            cands[f] = sf
    n = 0

    def outside_callers(f, seen):
        """call sites outside utils.rs reaching f, through RcInner wrappers inside utils.rs"""
        out = []
        for (b, bi, t, c) in ctx.prog.callers_of(f):
            if b.file().endswith("utils.rs"):
                if b.name.startswith("utils::RcInner::<T>::") and b.name not in seen and b.kind != "closure" \
                        and b.name not in (TRY_DESTRUCT, TRY_DEALLOC, DEC_STRONG, DEC_WEAK):
                    seen.add(b.name)
                    out.extend(outside_callers(b.name, seen))
            else:
                out.append((b, bi))
        return out
    allsites = set()
    for f in adders | set(inc_functions(ctx)):
        for (b, bi) in outside_callers(f, {f}):
            for rn in ctx.prog.path_roots(b.name):
                allsites.add((rn, b.name, bi))
    nall = len(allsites)
    for f, fields in sorted(cands.items()):
        r.functions.add(f)
        # transitive callers through thin wrappers whose receiver is their own self.ptr
        work = [(f, None)]
        seen = set()
        while work:
            (g, _) = work.pop()
            for (b, bi, t, c) in ctx.prog.callers_of(g):
                if (b.name, bi) in seen:
                    continue
                seen.add((b.name, bi))
                if b.file().endswith("utils.rs"):
                    if b.name.startswith("utils::RcInner::<T>::") and b.kind != "closure" \
                            and b.name not in (TRY_DESTRUCT, TRY_DEALLOC, DEC_STRONG, DEC_WEAK):
                        work.append((b.name, None))   # a wrapper inside utils.rs: its callers inherit the obligation
                    continue
                # a site inside a closure or a helper introduced by a refactoring is judged where it is read into: the
                # receiver is then what the real caller passes (`Rc::with_new_count(self.ptr)`)
                for rootname in ctx.prog.path_roots(b.name):
                    rb_ = ctx.prog.body(rootname)
                    for p in ctx.paths(rootname):
                        ev = [e for e in p.events if e.kind == "call" and e.target == g and e.bb == bi and e.body is b]
                        if not ev:
                            continue
                        cls, shown = _receiver_class(ctx.prog, rb_, ev[0].args[0])
                        n += 1
                        for field in fields:
                            table = PROT_STRONG if field == "strong" else PROT_WEAK
                            ok = cls in table
                            r.instance("%s -> %s [%s via %s]" % (rootname, f.split("::")[-1], field, cls), ok,
                                       receiver=shown, why=table.get(cls))
                            if not ok:
                                r.violate(rootname, "call:" + f.split("::")[-1],
                                          "calls the non-atomic (two-RMW) %s increment through a `%s` handle, which does not "
                                          "prevent the pending destruction attempt from running between the two RMWs"
                                          % (field, cls), ev[0].loc())
                        break
    # token-less adders: a function outside utils.rs that adds to a count through a helper read inlined, with no from-zero
    # token on any path (`RcInner::increment_weak_owned`: "the original keeps its share, the count cannot be zero"). That is
    # sound only for receivers whose handle excludes a zero count - and for every handle the crate itself passes to it
    # (S-C03-7: WeakSnapshot::counted duplicating a borrowed `ManuallyDrop<Weak>` view of its pointer)
    NONZERO = {"strong": {"strong::Rc": "a strong owner", "strong::AtomicRc": "a strong owner"},
               "weak": {"strong::Rc": "the strong side holds the implicit weak share", "strong::Snapshot": "the object is alive: "
                        "the implicit weak share", "weak::Weak": "a weak owner", "weak::AtomicWeak": "a weak owner",
                        "strong::AtomicRc": "a strong owner"}}
    prog = ctx.prog
    for name, b in sorted(prog.bodies.items()):
        if name.startswith("utils::") or b.kind == "closure" or "::test" in name or name in prog.auto_inline():
            continue
        if not any((c.target or "") in prog.auto_inline() for (_, _, c) in b.calls()):
            continue
        tokenless = {}
        for p in ctx.paths(name):
            if p.exit[0] == "diverge":
                continue
            sites = [s_ for s_ in ctx.sites_on_path(p) if s_["outcome"] == "ok"]
            for side in ("strong", "weak"):
                adds = [s_ for s_ in sites if s_["delta"].get(side, (0,))[0] > 0]
                if not adds:
                    continue
                # (a test the code itself makes - not a debug assertion - of the observed count against zero)
                tok = [q for q in ctx.predicates(p) if q["field"] == side and q["rel"] == "==" and const_of(q["rhs"]) == 0
                       and not q["exp"] and p.exit[0] != "diverge" and len(adds) >= 2 and q["S"] in [a["observed"] for a in adds]]
                ent = tokenless.setdefault(side, {"tok": False, "site": adds[0]})
                if tok:
                    ent["tok"] = True
        for side, ent in tokenless.items():
            if ent["tok"]:
                continue
            s0 = ent["site"]
            cls, shown = _receiver_class(prog, b, s0["obj"])
            okc = cls in NONZERO[side]
            n += 1
            r.instance("%s adds to the %s count with no from-zero token: its receiver `%s` excludes a zero count" % (name, side, cls), okc)
            if not okc:
                r.violate(name, "tokenless:" + side, "adds to the %s count without the from-zero token through a `%s` handle, under "
                          "which the count may be zero with a release attempt pending: the attempt takes the new share for its token "
                          "and the next one frees the object under it" % (side, cls), s0["event"].loc())
            for (cb, cbi, ct, cc) in prog.callers_of(name):
                if "::test" in cb.name:
                    continue
                for rootname in prog.path_roots(cb.name):
                    rb_ = prog.body(rootname)
                    for p in ctx.paths(rootname):
                        ev = [e for e in p.events if e.kind == "call" and e.target == name and e.bb == cbi and e.body is cb]
                        if not ev:
                            continue
                        ccls, cshown = _receiver_class(prog, rb_, _view_of(ev[0].args[0]))
                        okk = ccls in NONZERO[side]
                        n += 1
                        r.instance("%s passes a `%s` to %s (token-less %s increment)" % (rootname, ccls, name, side), okk)
                        if not okk:
                            r.violate(rootname, "tokenless-call:" + side, "hands `%s` (a `%s`) to %s, which adds to the %s count "
                                      "without the from-zero token: under such a handle the count may be zero with a release "
                                      "attempt pending" % (cshown[:50], ccls, name, side), ev[0].loc())
                        break
    r.notes.append("split-increment functions: %s" % {k: sorted(v) for k, v in cands.items()})
    r.require(nall, 5, "call sites of count-adding functions outside utils.rs")
    return r


def _view_of(t):
    """`&ManuallyDrop::new(Weak::from_raw(x))` / `&*md` -> `Weak::from_raw(x)`: what a borrowed view is a view of"""
    t = strip(t)
    while isinstance(t, tuple):
        if t[0] in ("ref", "deref", "load"):
            t = strip(t[1])
        elif t[0] == "call" and (norm(t[1]) in ("std::mem::ManuallyDrop::new", "std::ops::Deref::deref", "weak::Weak::from_raw",
                                                "strong::Rc::from_raw")
                                 or norm(t[1]).endswith("ManuallyDrop<T> as std::ops::Deref>::deref")) and t[2]:
            t = strip(t[2][0])
        else:
            break
    return t


# ------------------------------------------------------------------------------------------
def rule_zero_defers(ctx):
    r = RuleResult("CW-ZERO-DEFERS", ["C01", "C04"],
                   "a strong decrement hands off exactly one destruction attempt iff it observed strong == amount")
    nsites = set()
    decided = set()
    undecided_loc = {}
    fns = sorted({a["fn"] for a in ctx.scan_accesses() if a["op"] != "load"} | {DEC_STRONG, DGN})
    for f in fns:
        r.functions.add(f)
        for p in (ctx.paths(f) if f == DGN else ctx.paths2(f)):
            r.paths += 1
            sites = [s for s in ctx.sites_on_path(p) if s["delta"].get("strong", (0,))[0] < 0]
            for s in sites:
                nsites.add((f, s["event"].bb))
                if s["outcome"] != "ok":
                    if s["outcome"] is None:
                        raise AnalysisError("CW-ZERO-DEFERS: CAS outcome untested in %s" % f)
                    continue
                if p.exit[0] == "diverge":
                    continue
                amount = _uncast(s["delta"]["strong"][1])
                preds = [q for q in ctx.predicates(p, after=s["idx"]) if q["S"] == s["observed"] and q["field"] == "strong"]
                hit = None
                for q in preds:
                    if q["exp"]:
                        continue
                    if q["offs"]:
                        continue        # a comparison the reader could not bring to the form strong(S) == x
                    if q["rhs"] == amount or const_of(q["rhs"]) == const_of(amount) is not None:
                        if q["rel"] == "==":
                            hit = True
                        elif q["rel"] == "!=":
                            hit = False
                objroot = ptr_root(s["obj"])
                hs = [h for h in handoffs(ctx, p, s["idx"]) if h[1] == objroot]
                if hit is not None:
                    decided.add((f, s["event"].bb))
                else:
                    undecided_loc[(f, s["event"].bb)] = s["event"].loc()
                if p.exit[0] == "retry" and hit is None:
                    # loop back edge taken before the decision (for-loop over children): judged on
                    # the continuation paths - unless an attempt was already handed off
                    if hs:
                        r.instance("%s: undecided -> %d hand-off(s) %s" % (f.split("::")[-1], len(hs), [h[0] for h in hs]),
                                   False)
                        r.violate(f, "handoff-undecided", "a destruction attempt (%s) is handed off without having decided "
                                  "that the count hit zero: the attempt consumes a share it does not own (the object is "
                                  "destructed while still referenced)" % ", ".join(h[0] for h in hs), s["event"].loc())
                    continue
                if hit is None:
                    r.violate(f, "site", "after a successful strong decrement the path does not decide whether the "
                              "count hit zero", s["event"].loc())
                    continue
                good = [h for h in hs if h[0] in ("defer:" + TRY_DESTRUCT, "direct:" + DGN)]
                ok = (len(hs) == 1 and len(good) == 1) if hit else (len(hs) == 0)
                r.instance("%s: hit_zero=%s -> %d hand-off(s) %s" % (f.split("::")[-1], hit, len(hs),
                                                                     [h[0] for h in hs]), ok)
                if not ok:
                    if hit and not hs:
                        what = "count hit zero but no destruction attempt is handed off (leak)"
                    elif hit:
                        what = "count hit zero but the hand-off is %s" % [h[0] for h in hs]
                    else:
                        what = "a destruction attempt is handed off although the count did not hit zero"
                    r.violate(f, "handoff", what, s["event"].loc())
    # a site that every path leaves by a loop back edge without ever deciding is not "judged on the continuation": nothing
    # decides it at all (the test was removed)
    for key in sorted(nsites - decided):
        if key in undecided_loc:
            r.instance("%s: the decrement is followed by a zero test on some path" % key[0].split("::")[-1], False)
            r.violate(key[0], "never-decided", "no path decides whether this strong decrement hit zero: a child whose count "
                      "reaches zero is neither destructed nor handed on (it is never destructed)", undecided_loc[key])
    # hand-off after the mark: an object this path has marked DESTRUCTED must be destructed by this path. Handing it to a fresh
    # attempt only works if the attempt goes on with a word that is already marked - not if it returns (hardening against
    # stale attempts) or asserts `!destructed` (debug builds): then nobody ever destructs it
    att = _attempt_on_marked(ctx)
    for f in fns:
        for p in (ctx.paths(f) if f == DGN else ctx.paths2(f)):
            if p.exit[0] == "diverge":
                continue
            for s in ctx.sites_on_path(p):
                if s["outcome"] != "ok" or const_of(s["sets"].get("destructed", ("c", None, ""))) != 1:
                    continue
                objroot = ptr_root(s["obj"])
                hs = [h for h in handoffs(ctx, p, s["idx"]) if h[1] == objroot and h[0] == "defer:" + TRY_DESTRUCT]
                for h in hs:
                    ok = att == "proceeds"
                    r.instance("%s: marked DESTRUCTED, then handed to a deferred try_destruct, which %s on a marked word"
                               % (f.split("::")[-1], att), ok)
                    if not ok:
                        r.violate(f, "handoff-after-mark", "the object is marked DESTRUCTED and then handed to a deferred "
                                  "try_destruct, which %s when it finds the mark: nobody destructs the object (and what it "
                                  "owns) any more" % ("returns at once" if att == "ignores" else "panics (debug assertion)"),
                                  h[2].loc())
    r.require(len(nsites), 2, "strong-decrementing sites")
    return r


def _attempt_on_marked(ctx):
    """What does try_destruct do with a word that is already marked DESTRUCTED: 'ignores' (an explicit test returns without
    disposing), 'asserts' (a debug assertion on !destructed panics), 'proceeds' (no test: its CAS re-marks, then dispose)."""
    res = "proceeds"
    for p in ctx.paths2(TRY_DESTRUCT):
        gone = [q for q in ctx.predicates(p) if q["field"] == "destructed" and q["rel"] == "==" and const_of(q["rhs"]) == 1]
        if not gone:
            continue
        disp = [e for e in p.events if e.kind == "call" and e.target in (DISPOSE, DGN)]
        if p.exit[0] == "diverge":
            res = "asserts"
        elif not disp and res != "asserts":
            res = "ignores"
    return res


def rule_attempt_recheck(ctx):
    r = RuleResult("CW-ATTEMPT-RECHECK", ["C01"],
                   "the deferred attempt re-reads the word; with strong>0 it consumes the token and does not destruct")
    f = TRY_DESTRUCT
    r.functions.add(f)
    n = 0
    for p in ctx.paths2(f):
        r.paths += 1
        if p.exit[0] == "diverge":
            continue
        sites = ctx.sites_on_path(p)
        if not sites or sites[0]["op"] != "load":
            raise AnalysisError("CW-ATTEMPT-RECHECK: try_destruct does not start by reading the word")
        last_obs = None
        for s in sites:
            last_obs = s
        decs = [e for e in p.events if e.kind == "call" and e.target == DEC_STRONG]
        disp = [e for e in p.events if e.kind == "call" and e.target in (DISPOSE, DGN)]
        okcas = [s for s in sites if s["sets"].get("destructed") is not None and s["outcome"] == "ok"]
        allp = ctx.predicates(p)
        pos = [q for q in allp if q["field"] == "strong" and q["rel"] == "!=" and const_of(q["rhs"]) == 0 and not q["exp"]]
        zero = [q for q in allp if q["field"] == "strong" and q["rel"] == "==" and const_of(q["rhs"]) == 0 and not q["exp"]]
        gone = [q for q in allp if q["field"] == "destructed" and q["rel"] == "==" and const_of(q["rhs"]) == 1 and not q["exp"]]
        if gone and (not pos and not zero or (p.exit[0] == "return" and not okcas and not decs and not disp)):
            # a stale attempt that finds the object already marked DESTRUCTED and does nothing: hardening. An attempt exists only
            # for an unmarked object (CW-ZERO-DEFERS `handoff-after-mark` asks exactly that of every hand-off), so the arm is dead
            ok = not decs and not disp and not okcas and p.exit[0] == "return"
            r.instance("already DESTRUCTED -> the stale attempt does nothing", ok)
            if not ok:
                r.violate(f, "destructed", "an attempt that finds the object already marked DESTRUCTED must not touch it "
                          "(found decrements=%d dispose=%d cas=%d)" % (len(decs), len(disp), len(okcas)),
                          p.body.loc(p.blocks[-1][1]))
            continue
        if pos:
            n += 1
            ok = (len(decs) == 1 and const_of(decs[0].args[1]) == 1 and not disp and not okcas
                  and ptr_root(decs[0].args[0]) == ("arg", 1, p.body.local_name(1)))
            r.instance("strong>0 -> decrement_strong(ptr,1) only", ok)
            if not ok:
                r.violate(f, "strong>0", "with strong>0 the attempt must consume exactly its token "
                          "(decrement_strong(ptr, 1)) and must not destruct; found decrements=%d dispose=%d cas=%d"
                          % (len(decs), len(disp), len(okcas)), p.body.loc(p.blocks[-1][1]))
        elif zero:
            n += 1
            if p.exit[0] == "retry":
                ok = not disp and not decs
            else:
                ok = len(okcas) == 1 and len(disp) == 1 and not decs
            r.instance("strong==0 -> CAS(DESTRUCTED) then dispose [%s]" % p.exit[0], ok)
            if not ok:
                r.violate(f, "strong==0", "with strong==0 the attempt must set DESTRUCTED by CAS and dispose once",
                          p.body.loc(p.blocks[-1][1]))
        else:
            r.violate(f, "undecided", "a path of the attempt does not re-check the strong count",
                      p.body.loc(p.blocks[-1][1]))
    r.require(n, 2, "path classes")
    return r


# ------------------------------------------------------------------------------------------
DESTRUCT_EVENTS = ("strong::RcObject::pop_edges", "std::mem::ManuallyDrop::drop")


def _depth_class(t):
    t = _uncast(t)
    c = const_of(t)
    if c is not None:
        return "zero" if c == 0 else "nonzero"
    if isinstance(t, tuple) and t[0] == "bin" and t[1] == "Add":
        for x in (t[2], t[3]):
            cx = const_of(x)
            if cx is not None and cx > 0:
                return "nonzero"   # unsigned + positive constant (overflow is checked / unreachable)
    return "any"


def _path_consistent_with_arg(ctx, p, argidx, cls):
    """Filter callee paths by a Zero/NonZero context for the unsigned integer parameter argidx: every comparison of the
    parameter with a constant that the path took must be possible for a value of that class (`depth == 0`, `depth > 0`,
    `depth >= 1`, `0 < depth`, ... are the same test)."""
    if cls == "any":
        return True
    import operator
    OPS = {"Eq": operator.eq, "Ne": operator.ne, "Lt": operator.lt, "Le": operator.le, "Gt": operator.gt, "Ge": operator.ge}
    FLIP = {"Eq": "Eq", "Ne": "Ne", "Lt": "Gt", "Le": "Ge", "Gt": "Lt", "Ge": "Le"}
    for e in p.events:
        if e.kind != "cond" or not isinstance(e.value, int) or e.value not in (0, 1):
            continue
        t = e.term
        if not (isinstance(t, tuple) and t[0] == "bin" and t[1] in OPS):
            continue
        op, c = None, None
        a, b = _uncast(t[2]), _uncast(t[3])
        if isinstance(a, tuple) and a[0] == "arg" and a[1] == argidx and const_of(b) is not None:
            op, c = t[1], const_of(b)
        elif isinstance(b, tuple) and b[0] == "arg" and b[1] == argidx and const_of(a) is not None:
            op, c = FLIP[t[1]], const_of(a)
        if op is None:
            continue
        taken = bool(e.value)
        if cls == "zero":
            possible = OPS[op](0, c) == taken
        else:
            # values >= 1: the comparison with c can come out `taken` for some value >= 1?
            samples = {1, max(1, c - 1), max(1, c), c + 1, c + 2, 1 << 40}
            possible = any(OPS[op](v, c) == taken for v in samples)
        if not possible:
            return False
    return True


def _is_deferred_closure(prog, cname):
    for ob in prog.bodies.values():
        for (obi, ot, oc) in ob.calls():
            if cname in oc.closure_args() and norm(oc.target or "").endswith("defer_with_inner"):
                return True
    return False


def rule_destruct_once(ctx):
    r = RuleResult("CW-DESTRUCT-ONCE", ["C04", "C05"],
                   "every destruct event is preceded by a successful CAS on the same object that sets DESTRUCTED "
                   "having observed strong == 0")
    prog = ctx.prog
    nevents = 0

    def gate_on_path(p, objroot, upto):
        for s in ctx.sites_on_path(p):
            if s["idx"] >= upto:
                break
            if ptr_root(s["obj"]) != objroot:
                continue
            if s["outcome"] == "ok" and const_of(s["sets"].get("destructed", ("c", None, ""))) == 1:
                preds = [q for q in ctx.predicates(p, upto=s["idx"]) if q["S"] == s["observed"]]
                if has_pred(preds, "strong", "==", 0):
                    return s
        return None

    done = set()

    def check_callers(f, param_idx, ctxclass, chain, depth_param):
        """Obligation: at every call site of f, the object passed as param_idx has been gated."""
        memo = (f, param_idx, ctxclass, tuple(chain))
        if memo in done:
            return
        done.add(memo)
        callers = prog.callers_of(f)
        if not callers:
            raise AnalysisError("CW-DESTRUCT-ONCE: %s has no callers" % f)
        for (b, bi, t, c) in callers:
            r.functions.add(b.name)
            # a closure handed to defer_with_inner is an *entry point* of a destruction attempt: nothing has been
            # established about its object when it starts
            if b.kind == "closure" and _is_deferred_closure(prog, b.name):
                for p in ctx.ex.paths(b):
                    for i, e in enumerate(p.events):
                        if e.kind != "call" or e.target != f or p.exit[0] == "diverge":
                            continue
                        objroot = ptr_root(e.args[param_idx - 1])
                        if depth_param is not None:
                            cls = _depth_class(e.args[depth_param - 1])
                            if ctxclass != "any" and cls != "any" and cls != ctxclass:
                                continue
                        g = gate_on_path(p, objroot, i)
                        label = "deferred %s -> %s" % (b.name.split("::")[-2] + "::" + b.name.split("::")[-1], " -> ".join(chain))
                        r.instance(label, g is not None)
                        if g is None:
                            r.violate(prog.home(b.name), "deferred-call:%s" % f.split("::")[-1],
                                      "a deferred closure reaches %s of an object that no CAS has marked DESTRUCTED after "
                                      "observing strong==0 (deferred work must go through try_destruct, which re-checks and "
                                      "marks)" % chain[-1], e.loc())
                continue
            # closures run by higher-order models are reached through their root function
            site_seen = set()
            for (root, p) in [(prog.body(rn), p) for rn in prog.path_roots(b.name) for p in ctx.paths(rn)]:
                for i, e in enumerate(p.events):
                    if e.kind != "call" or e.target != f or e.bb != bi or (e.body is not b):
                        continue
                    if p.exit[0] == "diverge":
                        continue
                    sig = (tuple(x.bb for x in p.events[:i] if x.kind == "call" and ctx.atomic_event(x)),
                           tuple((show(x.term), x.value) for x in p.events[:i] if x.kind == "cond" and ctx.predicate(x)))
                    if sig in site_seen:
                        continue
                    site_seen.add(sig)
                    if depth_param is not None:
                        cls = _depth_class(e.args[depth_param - 1])
                        if ctxclass != "any" and cls != "any" and cls != ctxclass:
                            continue   # this call site does not produce the context under scrutiny
                        if cls == "any":
                            cls = ctxclass
                    objroot = ptr_root(e.args[param_idx - 1])
                    g = gate_on_path(p, objroot, i)
                    label = "%s -> %s" % (root.name.split("::")[-1], " -> ".join(chain))
                    if g is not None:
                        r.instance(label + " [gated by CAS at %s]" % g["event"].loc(), True)
                        continue
                    # not gated here: if the object is a parameter of the caller, move up
                    if isinstance(objroot, tuple) and objroot[0] == "arg" and root.name != f:
                        check_callers(root.name, objroot[1], "any", [root.name.split("::")[-1]] + chain, None)
                        continue
                    r.instance(label, False)
                    r.violate(root.name, "call:%s(depth=%s)" % (f.split("::")[-1], _depth_class(e.args[depth_param - 1]) if depth_param else "-"),
                              "reaches %s of an object that was never marked DESTRUCTED by a CAS observing strong==0 "
                              "(a concurrent upgrade can still succeed, and the object can be destructed twice)"
                              % chain[-1], e.loc())

    for fname, b in prog.bodies.items():
        evs = [(bi, t, c) for (bi, t, c) in b.calls() if norm(c.target or "") in DESTRUCT_EVENTS]
        if not evs:
            continue
        if not fname.startswith("utils::"):
            for (bi, t, c) in evs:
                r.violate(fname, "event", "destruct event outside utils.rs", b.loc(bi))
            continue
        r.functions.add(fname)
        # which parameter is the object, and is there an integer `depth` parameter?
        depth_param = None
        for i in range(1, b.arg_count + 1):
            if b.local_name(i) == "depth":
                depth_param = i
        for p in ctx.paths(fname):
            r.paths += 1
            for i, e in enumerate(p.events):
                if e.kind != "call" or norm(e.target or "") not in DESTRUCT_EVENTS:
                    continue
                nevents += 1
                objroot = ptr_root(e.args[0])
                # data_mut(rc) wrapper
                if isinstance(objroot, tuple) and objroot[0] == "call" and norm(objroot[1]).endswith("::data_mut"):
                    objroot = ptr_root(objroot[2][0])
                if isinstance(objroot, tuple) and objroot[0] == "field" and objroot[1] == "storage":
                    objroot = ptr_root(objroot[2])
                if gate_on_path(p, objroot, i) is not None:
                    r.instance("%s: %s gated locally" % (fname, e.ntarget.split("::")[-1]), True)
                    continue
                if not (isinstance(objroot, tuple) and objroot[0] == "arg"):
                    r.violate(fname, "event", "destruct event on an object that is neither gated nor a parameter",
                              e.loc())
                    continue
                # context classes for depth on this path
                classes = ["any"]
                if depth_param is not None:
                    classes = [c for c in ("zero", "nonzero") if _path_consistent_with_arg(ctx, p, depth_param, c)]
                for cls in classes:
                    check_callers(fname, objroot[1], cls, [e.ntarget.split("::")[-1]], depth_param)
    r.require(nevents, 2, "destruct events on paths")
    return r


def rule_destruct_order(ctx):
    r = RuleResult("CW-DESTRUCT-ORDER", ["C04"],
                   "pop_edges -> ManuallyDrop::drop -> exactly one of decrement_weak (WEAKED) / dealloc; object unused after")
    f = DGN
    r.functions.add(f)
    n = 0
    for p in ctx.paths(f):
        r.paths += 1
        idx = {k: [] for k in ("pop", "drop", "decw", "dealloc")}
        for i, e in enumerate(p.events):
            if e.kind != "call":
                continue
            nt = norm(e.target or "")
            if nt == "strong::RcObject::pop_edges":
                idx["pop"].append(i)
            elif nt == "std::mem::ManuallyDrop::drop":
                idx["drop"].append(i)
            elif e.target == DEC_WEAK:
                idx["decw"].append(i)
            elif e.target == DEALLOC:
                idx["dealloc"].append(i)
        if not (idx["pop"] or idx["drop"] or idx["dealloc"]):
            if idx["decw"]:
                r.violate(f, "path", "decrement_weak without destruction", p.events[idx["decw"][0]].loc())
            elif p.exit[0] == "return":
                # a path that does not destruct its node must dispose of it otherwise: hand the attempt on (the deferral at
                # the depth cap or under the stamp test) or, revived, give the token back - never just return: the count is
                # zero and nobody else will come for it
                me = ("arg", 1, p.body.local_name(1))
                hs = [h for h in handoffs(ctx, p, -1) if h[1] == me]
                back = [e for e in p.events if e.kind == "call" and e.target == DEC_STRONG and ptr_root(e.args[0]) == me]
                # (a null pointer is no node)
                def _says_null(q):
                    if q.kind != "cond" or not _is_null_test(q):
                        return False
                    isdisc = isinstance(q.term, tuple) and q.term[0] == "disc"
                    if isdisc:      # Option<&T> of as_ref/as_mut: None (0), or "not Some"
                        return q.value == 0 or (isinstance(q.value, tuple) and q.value[0] == "not" and 1 in q.value[1])
                    return q.value == 1
                isnull = any(_says_null(q) for q in p.events)
                if isnull:
                    continue
                # ... and what it is handed to is a destruction attempt: try_destruct, deferred (mutation sweep 3: try_dealloc
                # at the depth cap frees the block of a node that was never destructed, with everything below it)
                wrong = [h for h in hs if h[0] != "defer:" + TRY_DESTRUCT]
                if wrong:
                    r.instance("a node that is not destructed now is handed to a deferred try_destruct", False)
                    r.violate(f, "handoff-kind", "a node whose destruction is put off is handed to %s instead of a deferred "
                              "try_destruct (it is freed without being destructed, or destructed without its grace period)"
                              % [h[0] for h in wrong], wrong[0][2].loc())
                    continue
                okp = bool(hs) or bool(back)
                r.instance("a path that does not destruct its node hands it on (%s)" % (
                    [h[0].split("::")[-1] for h in hs] or ("token given back" if back else "nothing")), okp)
                if not okp:
                    r.violate(f, "silent-return", "the cascade returns without destructing its node, deferring its destruction "
                              "or giving a token back: the node's count is zero and no attempt is pending - it is never "
                              "destructed (chains beyond the depth cap leak their tail)", p.body.loc(p.blocks[-1][1]))
            continue
        if p.exit[0] == "diverge":
            continue
        n += 1
        ok = len(idx["pop"]) == 1 and len(idx["drop"]) == 1 and (len(idx["decw"]) + len(idx["dealloc"]) == 1)
        what = None
        if ok:
            rel = (idx["decw"] + idx["dealloc"])[0]
            ok = idx["pop"][0] < idx["drop"][0] < rel
            if not ok:
                what = "order is not pop_edges < ManuallyDrop::drop < release"
            else:
                # release choice follows a fresh read of WEAKED
                objroot = ptr_root(p.events[rel].args[0])
                weaked = [q for q in ctx.predicates(p, upto=rel, after=idx["drop"][0]) if q["field"] == "weaked"]
                if not weaked:
                    ok = False
                    what = "release is not decided by a read of WEAKED made after the payload was dropped"
                else:
                    w = const_of(weaked[-1]["rhs"])
                    if (w == 1) != bool(idx["decw"]):
                        ok = False
                        what = "WEAKED=%s but released with %s" % (w, "decrement_weak" if idx["decw"] else "dealloc")
                # no use of the object after release
                if ok:
                    for e in p.events[rel + 1:]:
                        if e.kind == "call":
                            for a in e.args:
                                if ptr_root(a) == objroot and e.target not in ():
                                    ok = False
                                    what = "object used after its release (%s)" % e.ntarget
                        if e.kind == "store" and ptr_root(e.place) == objroot:
                            ok = False
                            what = "object written after its release"
        else:
            what = "expected one pop_edges, one ManuallyDrop::drop and one release; found %s" % {
                k: len(v) for k, v in idx.items()}
        r.instance("immediate branch path (%s)" % p.exit[0], ok)
        if not ok:
            anchor = (idx["pop"] or idx["drop"] or idx["dealloc"] or idx["decw"])[0]
            r.violate(f, "immediate-branch", what, p.events[anchor].loc())
    r.require(n, 2, "immediate-branch paths")
    return r


# ------------------------------------------------------------------------------------------
def rule_weak_protocol(ctx):
    r = RuleResult("CW-WEAK-PROTOCOL", ["C03", "C04"],
                   "weak==1 decrement defers try_dealloc; try_dealloc re-checks; first increment sets WEAKED; "
                   "dealloc called only from try_dealloc / dispose")
    prog = ctx.prog
    n = 0
    # (1) decrement_weak
    f = DEC_WEAK
    r.functions.add(f)
    for p in ctx.paths(f):
        if p.exit[0] != "return":
            continue
        r.paths += 1
        sites = [s for s in ctx.sites_on_path(p) if s["delta"].get("weak", (0,))[0] < 0]
        if len(sites) != 1 or const_of(sites[0]["delta"]["weak"][1]) != 1:
            r.violate(f, "site", "expected exactly one weak decrement by 1 per call")
            continue
        s = sites[0]
        preds = [q for q in ctx.predicates(p, after=s["idx"]) if q["S"] == s["observed"] and q["field"] == "weak" and not q["exp"]]
        last = None
        for q in preds:
            if const_of(q["rhs"]) == 1:
                last = q["rel"] == "=="
        hsx = [h for h in handoffs(ctx, p, s["idx"]) if h[0].startswith("defer:")]
        hs = [h[2] for h in hsx]
        tg = [h[0][len("defer:"):] for h in hsx]
        if last is None:
            r.violate(f, "undecided", "does not decide whether the weak count hit zero", s["event"].loc())
            continue
        ok = (tg == [TRY_DEALLOC] and hsx[0][1] == ptr_root(s["obj"])) if last else (not hs)
        n += 1
        r.instance("decrement_weak: was_last=%s -> defers %s" % (last, tg), ok)
        if not ok:
            r.violate(f, "handoff", "weak count %s but deferred %s" % ("hit zero" if last else "did not hit zero", tg),
                      s["event"].loc())
    # (2) try_dealloc
    f = TRY_DEALLOC
    r.functions.add(f)
    for p in ctx.paths(f):
        if p.exit[0] != "return":
            continue
        r.paths += 1
        preds = [q for q in ctx.predicates(p) if q["field"] == "weak" and not q["exp"]]
        decs = [e for e in p.events if e.kind == "call" and e.target == DEC_WEAK]
        frees = [e for e in p.events if e.kind == "call" and e.target == DEALLOC]
        pos = any(q["rel"] == "!=" and const_of(q["rhs"]) == 0 for q in preds)
        zero = any(q["rel"] == "==" and const_of(q["rhs"]) == 0 for q in preds)
        if pos:
            ok = len(decs) == 1 and not frees
        elif zero:
            ok = len(frees) == 1 and not decs
        else:
            ok = False
        n += 1
        r.instance("try_dealloc: weak%s -> dec=%d free=%d" % (">0" if pos else "==0" if zero else "?", len(decs), len(frees)), ok)
        if not ok:
            r.violate(f, "recheck", "try_dealloc must consume the token when weak>0 and free only when weak==0",
                      p.body.loc(p.blocks[-1][1]))
    # (3) increment_weak: the CAS that first adds also sets WEAKED; the split path adds n (+1 from zero)
    f = INC_WEAK
    r.functions.add(f)
    for p in ctx.paths(f):
        if p.exit[0] != "return":
            continue
        r.paths += 1
        sites = [s for s in ctx.sites_on_path(p) if s["delta"].get("weak") and s["outcome"] == "ok"]
        if not sites:
            r.violate(f, "path", "returns without adding a weak share", p.body.loc(p.blocks[-1][1]))
            continue
        first_site = ctx.sites_on_path(p)[0]
        preds = ctx.predicates(p)
        wk = [q for q in preds if q["field"] == "weaked" and not q["exp"]]
        if not wk:
            r.violate(f, "undecided", "does not test WEAKED")
            continue
        weaked = const_of(wk[-1]["rhs"])
        n += 1
        if weaked == 0:
            s = sites[0]
            # (a second add of one unit under `weak == 0` of the word that CAS observed is the from-zero token of the other
            #  arm, applied here as well: a dead path - the strong side's implicit share keeps weak >= 1 until WEAKED is set -
            #  and harmless)
            extra = sites[1:]
            extra_ok = not extra or (len(extra) == 1 and extra[0]["delta"]["weak"][0] > 0 and const_of(extra[0]["delta"]["weak"][1]) == 1
                                     and any(q["S"] == s["observed"] and q["field"] == "weak" and q["rel"] == "==" and
                                             const_of(q["rhs"]) == 0 for q in preds))
            ok = (extra_ok and s["op"].startswith("compare_exchange")
                  and const_of(s["sets"].get("weaked", ("c", None, ""))) == 1
                  and s["delta"]["weak"][1] == ("arg", 2, "count") and s["delta"]["weak"][0] > 0)
            r.instance("increment_weak: first share sets WEAKED in the same CAS", ok)
            if not ok:
                r.violate(f, "first", "the first weak share must be added by the CAS that sets WEAKED", s["event"].loc())
        else:
            s = sites[0]
            zero = [q for q in preds if q["S"] == s["observed"] and q["field"] == "weak" and not q["exp"]]
            z = None
            for q in zero:
                if const_of(q["rhs"]) == 0:
                    z = q["rel"] == "=="
            # (signed: a fetch_sub where the token is due takes a share instead of adding one)
            extra = sum(x["delta"]["weak"][0] * (const_of(x["delta"]["weak"][1]) or 0) for x in sites[1:])
            ok = _uncast(s["delta"]["weak"][1]) == ("arg", 2, "count") and s["delta"]["weak"][0] > 0 and z is not None and \
                extra == (1 if z else 0) and len(sites) == (2 if z else 1)
            r.instance("increment_weak: weaked, from_zero=%s -> +count%s" % (z, "+1" if extra else ""), ok)
            if not ok:
                r.violate(f, "token", "from zero the weak increment must add count+1 (token for the pending try_dealloc), "
                          "otherwise count", s["event"].loc())
    # (4) who calls dealloc
    callers = sorted({prog.home(b.name) for (b, bi, t, c) in prog.callers_of(DEALLOC)})
    ok = callers == sorted([TRY_DEALLOC, DGN])
    r.instance("dealloc callers = %s" % callers, ok)
    n += 1
    if not ok:
        for c in callers:
            if c not in (TRY_DEALLOC, DGN):
                r.violate(c, "call:dealloc", "RcInner::dealloc may only be called from try_dealloc and the dispose cascade")
    # (5) WEAKED is set by whatever adds the first weak share - in every function that adds one, not only increment_weak: the
    #     destruction frees the block on the spot when it finds the flag clear (S-C03-8: `Rc::into_weak` moving one unit from the
    #     strong to the weak count in one CAS, without the flag)
    cand = {a["fn"] for a in ctx.scan_accesses() if a["op"] != "load"}
    cand |= {nm for nm, b in prog.bodies.items() if not nm.startswith("utils::") and b.kind != "closure" and "::test" not in nm
             and nm not in prog.auto_inline() and any((c.target or "") in prog.auto_inline() for (_, _, c) in b.calls())}
    for f in sorted(cand):
        try:
            fpaths = ctx.paths(f)
        except AnalysisError:
            continue
        seen_sites = set()
        for p in fpaths:
            if p.exit[0] == "diverge":
                continue
            sites = [s_ for s_ in ctx.sites_on_path(p) if s_["outcome"] == "ok"]
            preds = ctx.predicates(p)
            flagged = False      # WEAKED known set on this path so far (the flag is never cleared: CW-SITES)
            for s_ in sites:
                d = s_["delta"].get("weak")
                sets = const_of(s_["sets"].get("weaked", ("c", None, ""))) == 1
                seen_true = any(q["field"] == "weaked" and q["rel"] == "==" and const_of(q["rhs"]) == 1 and not q["exp"]
                                for q in preds)
                if d and d[0] > 0:
                    okw = sets or flagged or seen_true
                    key = (f, s_["event"].body.name, s_["event"].bb, okw)
                    if key not in seen_sites:
                        seen_sites.add(key)
                        n += 1
                        r.instance("%s: a weak share is added with WEAKED set (by this RMW, an earlier one, or observed)" % f.split("::")[-1], okw)
                        if not okw:
                            r.violate(f, "weaked", "adds a weak share without WEAKED being set (not by this RMW, not observed set before): "
                                      "when the object is destructed the cascade finds the flag clear and frees the block on the spot, "
                                      "under the weak handle", s_["event"].loc())
                if sets or (d and d[0] > 0 and (sets or seen_true)):
                    flagged = True
    r.require(n, 8, "weak protocol instances")
    return r


# ------------------------------------------------------------------------------------------
def rule_deferred_only(ctx):
    r = RuleResult("CW-DEFERRED-ONLY", ["C01", "C02", "C03", "C13"],
                   "try_destruct/try_dealloc run only as deferred closures; dispose only from try_destruct; "
                   "unprotected() only inside ebr_impl")
    prog = ctx.prog
    n = 0
    for target, floor in ((TRY_DESTRUCT, 3), (TRY_DEALLOC, 1)):
        callers = prog.callers_of(target)
        for (b, bi, t, c) in callers:
            n += 1
            ok = False
            why = "called directly from %s" % b.name
            if b.kind == "closure":
                # the closure must be passed as F to defer_with_inner
                uses = []
                for ob in prog.bodies.values():
                    for (obi, ot, oc) in ob.calls():
                        if b.name in oc.closure_args():
                            uses.append((ob, oc))
                ok = bool(uses) and all((oc.target in DEFER or norm(oc.target or "").endswith("defer_with_inner"))
                                        for (_, oc) in uses)
                why = "closure passed to %s" % sorted({oc.target for (_, oc) in uses})
            r.instance("%s <- %s" % (target.split("::")[-1], b.name), ok, why=why)
            if not ok:
                r.violate(b.name, "call:" + target.split("::")[-1],
                          "%s must only run as an EBR-deferred closure; %s" % (target.split("::")[-1], why), b.loc(bi))
        if len(callers) < 1:
            raise AnalysisError("CW-DEFERRED-ONLY: %s has no callers (anchor lost?)" % target)
    for (b, bi, t, c) in prog.callers_of(DISPOSE):
        n += 1
        ok = prog.home(b.name) == TRY_DESTRUCT
        r.instance("dispose <- %s" % b.name, ok)
        if not ok:
            r.violate(b.name, "call:dispose", "dispose may only be called from try_destruct", b.loc(bi))
    for (b, bi, t, c) in prog.callers_of(DGN):
        n += 1
        ok = prog.home(b.name) in (DGN, DISPOSE)
        r.instance("dispose_general_node <- %s" % b.name, ok)
        if not ok:
            r.violate(b.name, "call:dispose_general_node", "dispose_general_node may only be called from dispose and itself",
                      b.loc(bi))
    # defer_with_inner(Guard) reaches Guard::defer_unchecked -> Local::defer
    chain = [("<ebr_impl::guard::Guard as utils::Deferable>::defer_with_inner", "ebr_impl::guard::Guard::defer_unchecked"),
             ("ebr_impl::guard::Guard::defer_unchecked", "ebr_impl::internal::Local::defer")]
    if chain[0][0] not in prog.bodies:
        # the trait-based wrapper is gone (refactored into a helper that is read inlined): the chain starts at the
        # primitive; that closures reach it is what the hand-off rules see at the call sites
        chain = chain[1:]
        n += 1
    for (a, bname) in chain:
        body = prog.body(a)
        tg = [c.target for (_, _, c) in body.calls()]
        ok = bname in tg
        n += 1
        r.instance("%s calls %s" % (a, bname), ok)
        if not ok:
            r.violate(a, "chain", "does not forward to %s (deferred work would not go through EBR)" % bname)
    # the immediate-call arm of defer_unchecked exists only for a null `local`
    du = prog.body("ebr_impl::guard::Guard::defer_unchecked")
    for p in ctx.ex.paths(du):
        if p.exit[0] != "return":
            continue
        direct = [e for e in p.events if e.kind == "call" and "FnOnce" in (e.target or "") and "call_once" in (e.target or "")]
        deferred = [e for e in p.events if e.kind == "call" and e.target == "ebr_impl::internal::Local::defer"]
        nullc = [e for e in p.events if e.kind == "cond" and _is_null_test(e)]
        if direct and not deferred:
            isnull = any(isinstance(e.value, tuple) or e.value == 0 for e in nullc)
            ok = bool(nullc) and isnull
            n += 1
            r.instance("defer_unchecked runs f() immediately only when local is null", ok)
            if not ok:
                r.violate(du.name, "immediate", "runs the closure immediately on a path where the guard is a real one")
        elif deferred and direct:
            r.violate(du.name, "both", "both defers and runs the closure")
    # unprotected(): only inside ebr_impl, not re-exported
    ups = prog.callers_of("ebr_impl::guard::unprotected")
    for (b, bi, t, c) in ups:
        ok = prog.home(b.name).startswith("ebr_impl::") or prog.home(b.name).startswith("<ebr_impl::")
        n += 1
        r.instance("unprotected() <- %s" % prog.home(b.name), ok)
        if not ok:
            r.violate(b.name, "call:unprotected", "unprotected() guard used by the reference-counting layer", b.loc(bi))
    pub = [x["name"] for x in prog.items["root_public"]]
    ok = "unprotected" not in pub
    r.instance("unprotected not exported from the crate root", ok)
    if not ok:
        r.violate("lib.rs", "export", "unprotected() is part of the public API")
    r.require(len(ups), 4, "uses of unprotected()")
    return r


# ------------------------------------------------------------------------------------------
def _guard_pinned_at(ctx, p, idx):
    """Is there evidence on path p that the thread is pinned at event idx: a &Guard parameter,
    an Option<&Guard> known Some, or a live cs() result (not yet dropped)."""
    b = p.body
    for i in range(1, b.arg_count + 1):
        ty = b.locals[i]["ty"]
        if ty.startswith("&") and "ebr_impl::guard::Guard" in ty and "Option" not in ty:
            return "parameter `%s: &Guard`" % b.local_name(i)
        # a context struct a refactoring introduced that carries the guard (`cascade: &Cascade<'_>` with `guard: &'a Guard`): the
        # reference it holds keeps the guard borrowed, i.e. alive, for as long as the struct exists
        base = re.sub(r"^&(?:'\w+ )?(?:mut )?", "", ty)
        base = re.sub(r"<.*$", "", base)
        if ty.startswith("&") and ctx.prog.is_new_type(base):
            for a in ctx.prog.items.get("adts", []):
                if a["path"] == base:
                    for v in a.get("variants", []):
                        for fl in v.get("fields", []):
                            if fl["ty"].startswith("&") and "ebr_impl::guard::Guard" in fl["ty"] and "Option" not in fl["ty"]:
                                return "parameter `%s` carries `%s: &Guard`" % (b.local_name(i), fl["name"])
    live = None
    for i, e in enumerate(p.events):
        if i >= idx:
            break
        if e.kind == "cond" and isinstance(e.term, tuple) and e.term[0] == "disc":
            a = e.term[1]
            if isinstance(a, tuple) and a[0] == "arg" and "Option<&ebr_impl::guard::Guard>" in b.locals[a[1]]["ty"]:
                if e.value == 1:
                    live = "Option<&Guard> parameter known Some"
        if e.kind == "call" and e.target == "ebr_impl::default::cs":
            live = ("cs", e.result)
        if e.kind == "drop" and isinstance(live, tuple) and e.value == live[1]:
            live = None
    if isinstance(live, tuple):
        return "live cs() guard"
    return live


def rule_stamp(ctx):
    r = RuleResult("CW-STAMP-ON-DEC", ["C02"], "every strong-decrementing transformer carries an epoch stamp")
    r2 = RuleResult("CW-STAMP-PINNED", ["C02"],
                    "a global_epoch() value that becomes a count-word stamp is read while pinned and stays pinned "
                    "until the RMW that publishes it")
    seen = set()
    nreads = set()
    for f in (DEC_STRONG, DGN):
        r.functions.add(f)
        r2.functions.add(f)
        for p in ctx.paths(f):
            r.paths += 1
            for s in ctx.sites_on_path(p):
                if s["delta"].get("strong", (0,))[0] >= 0:
                    continue
                key = (f, s["event"].bb)
                if s["stamp"] is None:
                    if key not in seen:
                        r.instance("%s: decrement without stamp" % f, False)
                    seen.add(key)
                    r.violate(f, "site", "strong decrement does not write an epoch stamp (with_epoch missing)",
                              s["event"].loc())
                    continue
                if key not in seen:
                    r.instance("%s: decrement stamps with %s" % (f.split("::")[-1], show(s["stamp"])[:80]), True)
                seen.add(key)
                # the stamp must depend on a global_epoch() read in this activation (directly, or through
                # Modular::new(curr+1) for the cascade merge)
                ge = calls_in(s["stamp"], "ebr_impl::default::global_epoch")
                if not ge:
                    r.violate(f, "stamp-source", "the stamp does not derive from a global_epoch() read in this activation",
                              s["event"].loc())
                    continue
                # allowed forms: the epoch read itself, or a Modular::max merge
                stv = _uncast(strip(s["stamp"]))
                direct = isinstance(stv, tuple) and stv[0] == "call" and norm(stv[1]) == "ebr_impl::default::global_epoch"
                merged = isinstance(stv, tuple) and stv[0] == "call" and norm(stv[1]) == "utils::Modular::max"
                if not (direct or merged):
                    r.violate(f, "stamp-form", "the stamp written is neither the global epoch just read nor a Modular::max "
                              "merge of stamps (%s)" % re.sub(r"#\d+", "", show(stv))[:90], s["event"].loc())
                for g in ge:
                    # locate the read event
                    gi = None
                    for i, e in enumerate(p.events):
                        if e.kind == "call" and e.result == g:
                            gi = i
                    if gi is None:
                        continue
                    nreads.add((f, p.events[gi].bb))
                    why = _guard_pinned_at(ctx, p, gi)
                    still = _guard_pinned_at(ctx, p, s["idx"]) if why else None
                    ok = bool(why) and bool(still)
                    r2.instance("%s: epoch read at %s [%s]" % (f.split("::")[-1], p.events[gi].loc(), why or "UNPINNED"), ok)
                    if not ok:
                        r2.violate(f, "epoch-read",
                                   "global_epoch() is read while the thread may be unpinned and the value is later "
                                   "written as the count-word stamp: the stamp can be arbitrarily stale and overwrites a "
                                   "newer one", p.events[gi].loc())
    # stamps written by sites that do not decrement (the upgrade check, F12): the epoch must equally be read while
    # pinned; there the critical section is the caller's, witnessed by the guard-bound handle the call is made through
    GUARD_BOUND = {"weak::WeakSnapshot": "WeakSnapshot<'g> (the caller's guard is alive)",
                   "strong::Snapshot": "Snapshot<'g> (the caller's guard is alive)"}
    for f in sorted({a["fn"] for a in ctx.scan_accesses() if a["op"] != "load"} - {DEC_STRONG, DGN}):
        done = set()
        for p in ctx.paths2(f):
            for s in ctx.sites_on_path(p):
                if s["kind"] != "rmw" or s["stamp"] is None or s["delta"].get("strong", (0,))[0] < 0:
                    continue
                for g in calls_in(s["stamp"], "ebr_impl::default::global_epoch"):
                    gi = [i for i, e in enumerate(p.events) if e.kind == "call" and e.result == g]
                    if not gi or (f, p.events[gi[0]].bb) in done:
                        continue
                    done.add((f, p.events[gi[0]].bb))
                    nreads.add((f, p.events[gi[0]].bb))
                    r2.functions.add(f)
                    why = _guard_pinned_at(ctx, p, gi[0])
                    if not why:
                        classes = set()
                        for (b, bi, t_, c_) in ctx.prog.callers_of(f):
                            for rn in ctx.prog.path_roots(b.name):
                                rb_ = ctx.prog.body(rn)
                                for q in ctx.paths(rn):
                                    ev = [e for e in q.events if e.kind == "call" and e.target == f and e.bb == bi and e.body is b]
                                    if ev:
                                        classes.add(_receiver_class(ctx.prog, rb_, ev[0].args[0])[0])
                                        break
                        if classes and classes <= set(GUARD_BOUND):
                            why = "called only through " + ", ".join(sorted(GUARD_BOUND[c][:16] for c in classes))
                    ok = bool(why)
                    r2.instance("%s: epoch read at %s [%s]" % (f.split("::")[-1], p.events[gi[0]].loc(), why or "UNPINNED"), ok)
                    if not ok:
                        r2.violate(f, "epoch-read", "global_epoch() is read while the thread may be unpinned and the value is "
                                   "later written as the count-word stamp: the stamp can be arbitrarily stale and overwrites "
                                   "a newer one", p.events[gi[0]].loc())
    r.require(len(seen), 2, "strong-decrementing sites")
    r2.require(len(nreads), 2, "epoch reads feeding stamps")
    return r, r2


# ------------------------------------------------------------------------------------------
def rule_cascade(ctx):
    rm = RuleResult("CW-CASCADE-MERGE", ["C02"],
                    "the stamp written to a child is Modular::max of parent stamp, link stamp and the child's own stamp")
    rd = RuleResult("CW-CASCADE-DECISION", ["C02", "C06", "C12"],
                    "a non-root is reclaimed immediately only under Modular::le(own stamp, curr - K), K >= 2; "
                    "the other arm defers try_destruct")
    f = DGN
    prog = ctx.prog
    EW = prog.const_value("utils::EPOCH_WIDTH")
    HW = prog.const_value("ebr_impl::pointers::HIGH_TAG_WIDTH")
    ok = EW == HW
    rd.instance("EPOCH_WIDTH == HIGH_TAG_WIDTH (%d, %d)" % (EW, HW), ok)
    if not ok:
        rd.violate("utils", "const", "EPOCH_WIDTH != HIGH_TAG_WIDTH: link stamps and count-word stamps use different windows")
    merges = 0
    decisions = 0
    seen_dec = set()
    for p in ctx.paths(f):
        rm.paths += 1
        own = None   # State observed for the node itself
        for s in ctx.sites_on_path(p):
            if s["op"] == "load" and ptr_root(s["obj"]) == ("arg", 1, p.body.local_name(1)) and own is None:
                own = s["observed"]
        for s in ctx.sites_on_path(p):
            if s["delta"].get("strong", (0,))[0] < 0 and s["stamp"] is not None:
                st = s["stamp"]
                mx = calls_in(st, "utils::Modular::max")
                if not mx:
                    rm.violate(f, "merge", "child stamp is not a Modular::max merge", s["event"].loc())
                    continue
                m = mx[0]
                srcs = strip(m[2][1])
                elems = list(srcs[3]) if isinstance(srcs, tuple) and srcs[0] == "agg" else None
                if elems is None:
                    raise AnalysisError("CW-CASCADE-MERGE: the merged stamps are not an array literal")
                kinds = []
                for el in elems:
                    x = _uncast(strip(el))
                    k = "other"
                    if isinstance(x, tuple) and x[0] == "call":
                        if x[1] == ST + "epoch" and ctx.parse_state(x[2][0])[0] == own:
                            k = "parent stamp"
                        elif x[1] == ST + "epoch" and ctx.parse_state(x[2][0])[0] == s["observed"]:
                            k = "child stamp"
                        elif norm(x[1]) == "ebr_impl::pointers::Tagged::high_tag" and ptr_root(x[2][0]) == ptr_root(s["obj"]):
                            k = "link stamp"
                        elif norm(x[1]) == "ebr_impl::default::global_epoch":
                            k = "current epoch"
                    kinds.append(k)
                merges += 1
                # safety (C02): every source is merged, or replaced by the current epoch (the most recent possible)
                need = {src: (src in kinds or "current epoch" in kinds) for src in ("parent stamp", "link stamp", "child stamp")}
                okm = all(need.values())
                rm.instance("child stamp = max(%s)" % ", ".join(kinds), okm)
                for k, v in need.items():
                    if not v:
                        rm.violate(f, "merge", "the merged child stamp does not include the %s" % k, s["event"].loc())
                # precision (C06): nothing but the three stamps is merged
                imprecise = [k for k in kinds if k not in ("parent stamp", "link stamp", "child stamp")]
                ctx.__dict__.setdefault("_merge_precision", []).append((kinds, imprecise, s["event"].loc()))
                # window of the Modular used
                mod = strip(m[2][0])
                _check_window(ctx, rm, f, mod, p, s["event"])
        # decision: paths that reach pop_edges with depth != 0
        pops = [i for i, e in enumerate(p.events) if e.kind == "call" and norm(e.target or "") == "strong::RcObject::pop_edges"]
        defers = [h for h in handoffs(ctx, p, -1) if h[1] == ("arg", 1, p.body.local_name(1))]
        if not _path_consistent_with_arg(ctx, p, 2, "nonzero"):
            continue
        les = [e for e in p.events if e.kind == "cond" and isinstance(e.term, tuple) and e.term[0] == "call"
               and norm(e.term[1]) == "utils::Modular::le"]
        capped = any(e.kind == "cond" and isinstance(e.term, tuple) and e.term[0] == "bin" and e.term[1] in ("Ge", "Gt")
                     and e.term[2] == ("arg", 2, "depth") and e.value == 1 and (const_of(e.term[3]) or 0) >= 2
                     for e in p.events)
        if pops:
            decisions += 1
            good = None
            for e in les:
                if e.value != 1:
                    continue
                a, b2 = e.term[2][1], e.term[2][2]
                a_ok = any(x[0] == "call" and x[1] == ST + "epoch" and ctx.parse_state(x[2][0])[0] == own for x in subterms(a))
                k = _threshold(b2)
                mod = strip(e.term[2][0])
                if a_ok and k is not None:
                    good = k
                    _check_window(ctx, rd, f, mod, p, e)
            okd = good is not None and good >= 2
            rd.instance("non-root immediate reclamation guarded by le(own stamp, curr - %s)" % good, okd)
            if good is None:
                rd.violate(f, "decision", "a non-root node is reclaimed immediately without the modular age test on its "
                           "own stamp against the current epoch", p.events[pops[0]].loc())
            elif good < 2:
                rd.violate(f, "decision", "age threshold %d < 2: a reader pinned one epoch behind can still hold the node" % good,
                           p.events[pops[0]].loc())
        elif p.exit[0] == "return" and les and not capped and any(e.value == 1 for e in les):
            # age test passed but no destruction: only legal as "revived by an upgrade": strong>0 observed on
            # the node itself, token consumed by exactly one decrement_strong(node, 1)
            decisions += 1
            own_preds = [q for q in ctx.predicates(p) if q["field"] == "strong" and q["rel"] == "!=" and
                         const_of(q["rhs"]) == 0 and not q["exp"]]
            decs = [e for e in p.events if e.kind == "call" and e.target == DEC_STRONG
                    and ptr_root(e.args[0]) == ("arg", 1, p.body.local_name(1))]
            okd = bool(own_preds) and len(decs) == 1 and const_of(decs[0].args[1]) == 1 and not defers
            rd.instance("revived non-root: strong>0 -> consume token, no destruction", okd)
            if not okd:
                rd.violate(f, "revived-arm", "a non-root node passes the age test but is neither destructed nor is its "
                           "token consumed by exactly one decrement_strong(node, 1)", les[0].loc())
        elif p.exit[0] == "return" and les and not capped:
            # the arm that does not reclaim must defer try_destruct on this node
            decisions += 1
            okd = len(defers) == 1 and defers[0][0] == "defer:" + TRY_DESTRUCT
            rd.instance("too-recent arm defers try_destruct", okd)
            if not okd:
                rd.violate(f, "defer-arm", "a non-root node that is too recent is neither reclaimed nor handed to a "
                           "deferred try_destruct (found %s)" % [d[0] for d in defers], les[0].loc())
    rm.functions.add(f)
    rd.functions.add(f)
    rm.require(merges, 1, "cascade decrement sites")
    rd.require(decisions, 2, "decision paths")
    return rm, rd


def _threshold(t):
    """`curr_epoch as isize - K` -> K (normalising > / >= is done by Modular::le being <=)."""
    t = _uncast(t)
    if isinstance(t, tuple) and t[0] == "bin" and t[1] == "Sub":
        k = const_of(t[3])
        if k is not None and calls_in(t[2], "ebr_impl::default::global_epoch"):
            return k
    return None


def _check_window(ctx, r, f, mod, p, ev):
    """Modular::new(curr + 1) with curr a global_epoch() read of this activation."""
    if not (isinstance(mod, tuple) and mod[0] == "call" and norm(mod[1]) == "utils::Modular::new"):
        r.violate(f, "window", "modular space is not built by Modular::new in this activation", ev.loc())
        return
    a = _uncast(mod[2][0])
    ok = (isinstance(a, tuple) and a[0] == "bin" and a[1] == "Add" and const_of(a[3]) == 1
          and bool(calls_in(a[2], "ebr_impl::default::global_epoch")))
    if not ok:
        r.violate(f, "window", "window top is not `current epoch + 1` (%s)" % show(a), ev.loc())


# ------------------------------------------------------------------------------------------
def rule_alloc_range(ctx):
    r = RuleResult("CW-ALLOC-RANGE", ["C10", "C04"],
                   "the count argument of RcInner::alloc lies in [1, 2^STRONG_WIDTH - 1]")
    prog = ctx.prog
    maxv = (1 << ctx.STRONG_WIDTH) - 1
    sites = prog.callers_of(ALLOC)
    for (b, bi, t, c) in sites:
        r.functions.add(b.name)
        for p in ctx.paths(b.name):
            ev = [e for e in p.events if e.kind == "call" and e.target == ALLOC and e.bb == bi]
            if not ev:
                continue
            e = ev[0]
            a = e.args[1]
            cv = const_of(a)
            if cv is not None:
                ok = 1 <= cv <= maxv
                r.instance("%s: alloc(_, %d)" % (b.name, cv), ok)
                if not ok:
                    r.violate(b.name, "count", "constant count %d out of range" % cv, e.loc())
                break
            inner = _uncast(a)
            trunc = a != inner and isinstance(a, tuple) and a[0] == "cast" and a[3] == "u32" and _wider(b, inner)
            # guards on the value on this path
            lo_guard = hi_guard = False
            for q in p.events[:p.events.index(e)]:
                if q.kind != "cond" or not isinstance(q.term, tuple) or q.term[0] != "bin":
                    continue
                op, l, rr = q.term[1], _uncast(q.term[2]), _uncast(q.term[3])
                if l == inner and const_of(rr) is not None:
                    cc = const_of(rr)
                    tv = q.value == 1
                    if (op in ("Gt", "Ne") and cc == 0 and tv) or (op == "Ge" and cc >= 1 and tv) or \
                            (op == "Eq" and cc == 0 and not tv):
                        lo_guard = True
                    if (op in ("Le",) and cc <= maxv and tv) or (op == "Lt" and cc <= maxv + 1 and tv) or \
                            (op == "Gt" and cc <= maxv and not tv) or (op == "Ge" and cc <= maxv + 1 and not tv):
                        hi_guard = True
            name = show(inner)
            r.instance("%s: alloc(_, %s) lower-bounded=%s upper-bounded=%s" % (b.name, name, lo_guard, hi_guard),
                       lo_guard and hi_guard)
            if not lo_guard:
                r.violate(b.name, "count=" + name, "may be 0: the object starts with strong == 0 and no pending "
                          "destruction attempt, so it is never destructed", e.loc())
            if not hi_guard:
                r.violate(b.name, "count=" + name, "may exceed 2^%d-1%s: the initial value overflows the strong field"
                          % (ctx.STRONG_WIDTH, " (and is truncated by `as u32` first)" if trunc else ""), e.loc())
            break
    r.require(len(sites), 3, "alloc call sites")
    return r


def _wider(b, t):
    if isinstance(t, tuple) and t[0] == "arg":
        return b.locals[t[1]]["ty"] in ("usize", "u64", "u128", "isize", "i64")
    if isinstance(t, tuple) and t[0] == "param_const":
        return True
    return True


# ------------------------------------------------------------------------------------------
def rule_dec_nonzero(ctx):
    r = RuleResult("CW-DEC-NONZERO", ["C01", "C04", "C10"],
                   "every call of decrement_strong releases at least one share: with amount 0 the test `observed == amount` "
                   "hands off a destruction attempt for which no token exists")
    prog = ctx.prog
    sites = prog.callers_of(DEC_STRONG)
    n = 0
    # a site inside a closure or a refactoring helper is judged on the paths of every function it is read into
    for (b, bi, rootname) in [(b, bi, rn) for (b, bi, t, c) in sites for rn in prog.path_roots(b.name)]:
        root = prog.body(rootname)
        r.functions.add(root.name)
        done = False
        for p in ctx.paths(root.name):
            ev = [e for e in p.events if e.kind == "call" and e.target == DEC_STRONG and e.bb == bi and e.body is b]
            if not ev:
                continue
            e = ev[0]
            a = _uncast(e.args[1])
            cv = const_of(a)
            if cv is not None:
                ok = cv >= 1
            else:
                ok = False
                for q in p.events[:p.events.index(e)]:
                    if q.kind != "cond" or not isinstance(q.term, tuple) or q.term[0] != "bin":
                        continue
                    op, l, rr = q.term[1], _uncast(q.term[2]), _uncast(q.term[3])
                    if _same_value(l, a) and const_of(rr) is not None:
                        cc, tv = const_of(rr), q.value == 1
                        if (op in ("Gt", "Ne") and cc == 0 and tv) or (op == "Ge" and cc >= 1 and tv) or \
                                (op == "Eq" and cc == 0 and not tv) or (op == "Le" and cc == 0 and not tv) or \
                                (op == "Lt" and cc == 1 and not tv):
                            ok = True
            if not done:
                n += 1
                done = True
            r.instance("%s: decrement_strong(_, %s) amount >= 1" % (root.name, show(a)[:40]), ok)
            if not ok:
                r.violate(root.name, "amount=" + re.sub(r"@m\d+|#\d+", "", show(a))[:50],
                          "decrement_strong may be called with amount 0: on an object whose count is already 0 this defers a "
                          "second try_destruct (double destruction)", e.loc())
    r.require(n, 5, "decrement_strong call sites")
    return r


def _same_value(a, b):
    """Same integer value up to memory version of a frozen-by-&mut-borrow field read."""
    def canon(t):
        t = _uncast(t)
        if isinstance(t, tuple) and t[0] == "load":
            t = t[1]
        return t
    return canon(a) == canon(b)


STAMP_SOURCES = (ST + "epoch", "ebr_impl::pointers::Tagged::<T>::high_tag")
STAMP_CONSUMERS = (ST + "with_epoch", "utils::Modular::<WIDTH>::max", "utils::Modular::<WIDTH>::le",
                   "ebr_impl::pointers::Tagged::<T>::with_high_tag")


def _state_objs(ctx, term):
    """the objects whose count word a term was computed from"""
    return {show(x[2]) for x in subterms(term) if x[0] == "field" and x[1] == ctx.state_field}


def _is_stamp(t):
    t = _uncast(strip(t))
    return isinstance(t, tuple) and t[0] == "call" and t[1] in STAMP_SOURCES


def rule_stamp_modular(ctx):
    r = RuleResult("CW-STAMP-MODULAR", ["C02", "C12"],
                   "4-bit epoch stamps (State::epoch, Tagged::high_tag) wrap every 16 epochs: they are consumed only by "
                   "Modular::{max, le} or copied into with_epoch / with_high_tag, never by plain integer arithmetic or ordering")
    prog = ctx.prog
    n = 0
    users = set()
    for src in STAMP_SOURCES:
        for (b, bi, t, c) in prog.callers_of(src):
            users.update(prog.path_roots(b.name))
    for f in sorted(users):
        r.functions.add(f)
        seen = set()
        for p in ctx.paths(f):
            for e in p.events:
                terms = []
                if e.kind == "cond":
                    if e.exp:
                        continue
                    terms = [e.term]
                elif e.kind == "call":
                    if e.span and e.span.get("exp"):
                        continue
                    # a direct stamp argument to a non-modular consumer
                    for a in e.args:
                        parts = [a]
                        sa = strip(a)
                        if isinstance(sa, tuple) and sa[0] == "agg":
                            parts = list(sa[3])
                        for x in parts:
                            if _is_stamp(x):
                                key = (e.bb, e.frame, "arg")
                                if key in seen:
                                    continue
                                seen.add(key)
                                n += 1
                                ok = e.target in STAMP_CONSUMERS
                                r.instance("%s: stamp consumed by %s" % (f.split("::")[-1], (e.ntarget or "?").split("::")[-1]), ok)
                                if not ok:
                                    r.violate(f, "consumer:" + (e.ntarget or "?"), "a wrapping epoch stamp is passed to `%s`, "
                                              "which does not interpret it in the modular window" % e.ntarget, e.loc())
                    terms = list(e.args)
                elif e.kind == "store":
                    terms = [e.value]
                for t in terms:
                    for x in subterms(t):
                        if x[0] == "bin" and x[1] not in ("BitAnd", "BitOr", "Shl", "Shr") and (_is_stamp(x[2]) or _is_stamp(x[3])):
                            key = (e.bb, e.frame, x[1])
                            if key in seen:
                                continue
                            seen.add(key)
                            n += 1
                            r.instance("%s: stamp used in integer %s" % (f, x[1]), False)
                            r.violate(f, "arith:" + x[1], "plain integer `%s` on a wrapping 4-bit epoch stamp (it is only "
                                      "meaningful inside the modular window: use Modular::max / Modular::le)" % x[1], e.loc())
    # The modular comparison errs to "too recent" (ages beyond a wrap look young), and its verdict is about the epoch
    # read then, not about the epoch at which the cascade will look.  "Too recent" is the harmless answer only where
    # it makes the cascade defer; a branch on the verdict that decides whether an access gets *recorded* (one side
    # writes a stamp, the other does not) turns the harmless error into a missing stamp.
    MODC = ("utils::Modular::<WIDTH>::max", "utils::Modular::<WIDTH>::le")
    WRITERS = (ST + "with_epoch", "ebr_impl::pointers::Tagged::<T>::with_high_tag")
    for f in sorted(users):
        sides, directed = {}, set()
        for p in ctx.paths(f):
            for i, e in enumerate(p.events):
                if e.kind != "cond" or e.exp:
                    continue
                if not any(x[0] == "call" and x[1] in MODC for x in subterms(e.term)):
                    continue
                if isinstance(e.term, tuple) and e.term[0] == "call" and e.term[1] == MODC[1]:
                    directed.add((e.body.name, e.bb))
                # (a write to the word the verdict was about: in the cascade the verdict is on the node and the
                #  stamps written afterwards are its children's)
                vobj = _state_objs(ctx, e.term)
                writes = any(x.kind == "call" and x.target in WRITERS and
                             (not vobj or not _state_objs(ctx, x.args[0]) or vobj & _state_objs(ctx, x.args[0]))
                             for x in p.events[i + 1:])
                sides.setdefault((e.body.name, e.bb), {}).setdefault(e.value, set()).add(writes)
                r.paths += 1
        for key, sd in sorted(sides.items()):
            n += 1
            ws = {v: s for v, s in sd.items()}
            always = [v for v, s in ws.items() if s == {True}]
            never = [v for v, s in ws.items() if True not in s]
            ok = not (always and never)
            if not ok and key in directed:
                # `le(stamp, limit)`: false is the `recent` verdict; writing a stamp only on that side (and deferring)
                # is the cascade's own legitimate shape
                ok = 0 not in never
            r.instance("%s: modular verdict does not select whether a stamp is written" % f.split("::")[-1], ok)
            if not ok:
                r.violate(f, "verdict-selects-stamp", "a branch on a Modular::max/le verdict decides whether a stamp is written: "
                          "the window errs to `too recent` (an age of 18 looks like 2) and is evaluated at the epoch read here, "
                          "while the cascade evaluates the stamp later - skipping the write on `recent` leaves a stamp that is "
                          "old enough one epoch on, although the access just made is not", ctx.prog.body(key[0]).loc(key[1]))
    r.require(n, 2, "stamp uses")
    return r
