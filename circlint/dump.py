import sys
from . import facts, mir
if __name__ == "__main__":
    f = facts.load_facts(sys.argv[1]) if sys.argv[1].endswith(".json") else facts.build_facts()
    p = mir.Program(f)
    for pat in sys.argv[2:]:
        for n, b in p.bodies.items():
            if pat in n:
                print(b.pretty())
                print()
