"""Engine D: type-level witnesses. Compiles /verif/witness's doc-tests against the repository
(`cargo +nightly test --doc`): `compile_fail,E0xxx` blocks must fail with exactly that error,
their `no_run` twins must compile. Nothing is executed (twins are no_run)."""
import os
import re
import shutil
import subprocess
import tempfile

from .facts import AnalysisError, VERIF
from .report import RuleResult

WDIR = os.path.join(VERIF, "witness")

GROUPS = {
    "TY-SNAPSHOT-GUARD": (["C02"], "a Snapshot / WeakSnapshot / &T obtained under a guard cannot be used after the guard "
                          "is dropped or moved", ["SnapshotGuardLoad", "SnapshotGuardCas", "SnapshotGuardRc",
                                                  "SnapshotGuardUpgrade", "SnapshotGuardWeakLoad", "SnapshotGuardRef"]),
    "TY-REACTIVATE-MUT": (["C02", "C16"], "no snapshot survives reactivate / reactivate_after (&mut self)",
                          ["ReactivateMut", "ReactivateAfterMut"]),
    "TY-GUARD-NOT-SEND": (["C16"], "Guard is neither Send nor Sync", ["GuardNotSend", "GuardNotSync", "GuardRefNotSend"]),
    "TY-WEAK-NO-DEREF": (["C05", "C03"], "Weak / WeakSnapshot offer no dereference",
                         ["WeakNoDeref", "WeakSnapshotNoDeref", "WeakNoUnsafeDeref"]),
    "TY-REF-BORROW": (["C01"], "a reference obtained through an Rc (as_ref, deref, as_mut) is a borrow of that Rc: it cannot be "
                      "used after the Rc is dropped, and a mutable one needs the Rc exclusively",
                      ["RcRefBorrow", "RcDerefBorrow", "RcAsMutExclusive"]),
    "TY-TAKE-MUT": (["C08"], "AtomicRc::take needs exclusive access", ["TakeMut"]),
    "TY-PRIVATE": (["C01", "C08", "C09", "C13"], "links, from_raw/into_raw and unprotected() are not reachable from outside",
                   ["LinkPrivate", "WeakLinkPrivate", "IntoRawPrivate", "UnprotectedPrivate"]),
}

_cache = {}


def _run_cargo(repo):
    key = os.path.realpath(repo)
    if key in _cache:
        return _cache[key]
    tmp = None
    try:
        if key == "/repo":
            wd = WDIR
            shutil.copy(os.path.join(repo, "Cargo.lock"), os.path.join(wd, "Cargo.lock"))
            target = os.path.join(wd, "target")
        else:
            tmp = tempfile.mkdtemp(prefix="circ-witness-")
            wd = os.path.join(tmp, "w")
            shutil.copytree(WDIR, wd, ignore=shutil.ignore_patterns("target"))
            with open(os.path.join(wd, "Cargo.toml")) as f:
                t = f.read()
            with open(os.path.join(wd, "Cargo.toml"), "w") as f:
                f.write(t.replace('path = "/repo"', 'path = "%s"' % key))
            shutil.copy(os.path.join(repo, "Cargo.lock"), os.path.join(wd, "Cargo.lock"))
            target = os.path.join(tmp, "target")
        env = dict(os.environ, CARGO_NET_OFFLINE="true", CARGO_TARGET_DIR=target)
        env.pop("RUSTC_WORKSPACE_WRAPPER", None)
        env.pop("RUSTFLAGS", None)
        r = subprocess.run(["cargo", "+nightly", "test", "--doc", "--offline"], cwd=wd, env=env, capture_output=True,
                           text=True)
        out = r.stdout + "\n" + r.stderr
        res = {}
        for m in re.finditer(r"^test src/lib\.rs - (\w+) \(line \d+\)( - compile fail| - compile)? \.\.\. (\w+)", out, re.M):
            res[m.group(1)] = m.group(3)
        if not res:
            raise AnalysisError("witness crate did not build against %s:\n%s" % (repo, out[-3000:]))
        _cache[key] = (res, out)
        return _cache[key]
    finally:
        if tmp:
            shutil.rmtree(tmp, ignore_errors=True)


def run(groups, repo):
    res, out = _run_cargo(repo)
    results = []
    for g in groups:
        props, desc, items = GROUPS[g]
        r = RuleResult(g, props, desc + " [compile_fail witness + compiling twin]")
        for it in items:
            w, t = "W" + it, "T" + it
            if w not in res or t not in res:
                raise AnalysisError("witness %s/%s missing from the doc-test run" % (w, t))
            if res[t] != "ok":
                # the twin no longer compiles: the API changed under the witness -> cannot judge
                raise AnalysisError("twin %s does not compile any more: the witness %s proves nothing (API changed?)" % (t, w))
            ok = res[w] == "ok"
            r.instance("%s does not type-check (twin %s compiles)" % (w, t), ok)
            r.functions.add("witness::" + w)
            if not ok:
                r.violate("witness::" + w, it, "a program that must be rejected by the type system now compiles "
                          "(or fails with a different error): " + desc, "witness/src/lib.rs")
        r.require(len(items), len(items), "witnesses")
        results.append(r)
    return results
