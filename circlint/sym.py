"""Path-wise symbolic reading of MIR (Engine B core).

For one function this enumerates the acyclic normal-control-flow paths (loops are cut at
their back edge: the path ends with exit ('retry', header)), and along each path rebuilds
every value as a *term* over parameters, constants, call results and atomic-operation
results. Nothing is executed: calls are uninterpreted symbols. The outcome per path is a
list of events (conditions taken, calls made, stores, drops) on which the rules reason.

Terms are nested tuples:
  ('c', int|str, ty)            constant
  ('fn', path)                  function item
  ('arg', i, name)              i-th parameter of the analysed function
  ('call', target, args, uid)   result of a call; uid is None for calls known to be pure
  ('bin', op, l, r) ('un', op, x) ('cast', kind, x, ty)
  ('field', name, base) ('variant', name, base) ('deref', x) ('ref', x) ('disc', x)
  ('load', place_term, memver)  read through a pointer/reference
  ('agg', name, variant, fields)  struct/tuple/closure/array literal
  ('tls', path) ('unk', why, uid) ('index', base, i) ('param_const', name)
"""
import itertools
import re

from .facts import AnalysisError
from .mir import Callee, const_int, op_const, op_place

MAX_PATHS = 60000


def norm(name):
    """Strip generic argument lists `::<...>` from a def path."""
    if name is None:
        return None
    out = []
    depth = 0
    i = 0
    n = len(name)
    while i < n:
        if name.startswith("::<", i) and depth == 0:
            depth = 1
            i += 3
            while i < n and depth > 0:
                if name[i] == "<":
                    depth += 1
                elif name[i] == ">" and name[i - 1] != "-":
                    depth -= 1
                i += 1
            continue
        out.append(name[i])
        i += 1
    return "".join(out)


# external functions that are pure functions of their argument *values* (for references:
# of the referenced value as snapshotted at the call)
PURE_EXTERNAL = {
    "std::result::Result::is_ok", "std::result::Result::is_err",
    "std::option::Option::is_some", "std::option::Option::is_none",
    "std::ptr::mut_ptr::is_null", "std::ptr::const_ptr::is_null",
    "std::ptr::mut_ptr::as_ref", "std::ptr::mut_ptr::as_mut", "std::ptr::const_ptr::as_ref",
    "std::ptr::mut_ptr::cast", "std::ptr::const_ptr::cast", "std::ptr::const_ptr::cast_mut",
    "std::ptr::null", "std::ptr::null_mut",
    "std::mem::size_of", "std::mem::align_of",
    "core::num::<impl usize>::trailing_zeros", "core::num::<impl usize>::wrapping_sub",
    "core::num::<impl usize>::wrapping_add", "core::num::<impl usize>::checked_add",
    "core::num::<impl isize>::max",
    "std::option::Option::unwrap", "std::option::Option::expect",
    "std::cmp::PartialEq::eq", "std::cmp::PartialEq::ne",
    "std::marker::PhantomData",
    "std::convert::From::from", "std::convert::Into::into",
    "std::mem::ManuallyDrop::new", "std::mem::MaybeUninit::uninit", "std::mem::MaybeUninit::new",
    "std::ops::Deref::deref",
    "std::clone::Clone::clone",
}

# fields of these ADTs are named `Adt.field` in terms (the EBR rules tell Global.epoch from Local.epoch)
QUALIFIED_ADTS = {"ebr_impl::internal::Global", "ebr_impl::internal::Local", "ebr_impl::internal::SealedBag",
                  "ebr_impl::sync::queue::Queue", "ebr_impl::sync::queue::Node", "ebr_impl::sync::list::Entry",
                  "ebr_impl::sync::list::List", "ebr_impl::sync::list::Iter", "ebr_impl::guard::Guard",
                  "ebr_impl::collector::LocalHandle", "ebr_impl::collector::Collector"}

_uid = itertools.count(1)


def fresh():
    return next(_uid)


class Event:
    __slots__ = ("kind", "bb", "frame", "data", "body")

    def __init__(self, kind, bb, frame, body, **data):
        self.kind = kind
        self.bb = bb
        self.frame = frame
        self.body = body
        self.data = data

    def __getattr__(self, k):
        try:
            return self.data[k]
        except KeyError:
            raise AttributeError(k)

    def loc(self):
        sp = self.data.get("span")
        if sp:
            return "%s:%d" % (sp["file"], sp["line"])
        return self.body.loc(self.bb)

    def __repr__(self):
        if self.kind == "cond":
            return "cond[%s == %s]" % (show(self.term), self.value)
        if self.kind == "call":
            return "call[%s(%s)]" % (self.target, ", ".join(show(a) for a in self.args))
        if self.kind == "store":
            return "store[%s := %s]" % (show(self.place), show(self.value))
        if self.kind == "drop":
            return "drop[%s: %s]" % (show(self.place), self.ty)
        if self.kind in ("enter", "leave"):
            return "%s[%s]" % (self.kind, self.target)
        if self.kind == "bb":
            return "bb%d" % self.bb
        if self.kind == "agg":
            return "agg[%s]" % show(self.value)
        return "%s[%s]" % (self.kind, self.data)


class Path:
    __slots__ = ("events", "exit", "ret", "blocks", "body", "env")

    def __init__(self, body, events, exit, ret, blocks):
        self.body = body
        self.events = events
        self.exit = exit
        self.ret = ret
        self.blocks = blocks

    def conds(self, include_expansion=True):
        return [e for e in self.events if e.kind == "cond" and (include_expansion or not e.exp)]

    def calls(self, pred=None):
        out = []
        for e in self.events:
            if e.kind == "call" and (pred is None or pred(e)):
                out.append(e)
        return out

    def calls_to(self, *names):
        return [e for e in self.events if e.kind == "call" and e.ntarget in names]

    def describe(self):
        return " ; ".join(repr(e) for e in self.events) + " => " + str(self.exit)


def show(t, depth=0):
    if not isinstance(t, tuple):
        return str(t)
    if depth > 12:
        return "..."
    k = t[0]
    d = depth + 1
    if k == "c":
        return str(t[1])
    if k == "fn":
        return "fn " + t[1]
    if k == "arg":
        return t[2] or ("arg%d" % t[1])
    if k == "call":
        nm = t[1].split("::")
        short = "::".join(nm[-2:]) if len(nm) > 1 else t[1]
        return "%s(%s)%s" % (short, ", ".join(show(a, d) for a in t[2]), "" if t[3] is None else "#%d" % t[3])
    if k == "bin":
        return "(%s %s %s)" % (show(t[2], d), t[1], show(t[3], d))
    if k == "un":
        return "%s(%s)" % (t[1], show(t[2], d))
    if k == "cast":
        return "(%s as %s)" % (show(t[2], d), t[3])
    if k == "field":
        return "%s.%s" % (show(t[2], d), t[1])
    if k == "variant":
        return "(%s as %s)" % (show(t[2], d), t[1])
    if k == "deref":
        return "*%s" % show(t[1], d)
    if k == "ref":
        return "&%s" % show(t[1], d)
    if k == "local":
        return t[3] or "_%d" % t[2]
    if k == "disc":
        return "disc(%s)" % show(t[1], d)
    if k == "load":
        return "%s@m%d" % (show(t[1], d), t[2])
    if k == "agg":
        return "%s%s{%s}" % (t[1], ("::" + t[2]) if t[2] else "", ", ".join(show(f, d) for f in t[3]))
    if k == "unk":
        return "?%s#%d" % (t[1], t[2])
    if k == "tls":
        return "tls(%s)" % t[1]
    if k == "param_const":
        return t[1]
    if k == "index":
        return "%s[%s]" % (show(t[1], d), show(t[2], d))
    return str(t)


def subterms(t):
    """Pre-order iteration over all subterms."""
    stack = [t]
    while stack:
        x = stack.pop()
        if not isinstance(x, tuple):
            continue
        yield x
        k = x[0]
        if k == "call":
            stack.extend(x[2])
        elif k == "agg":
            stack.extend(x[3])
        elif k in ("bin",):
            stack.extend(x[2:4])
        elif k in ("un", "field", "variant", "cast"):
            stack.append(x[2])
        elif k in ("deref", "ref", "disc", "load"):
            stack.append(x[1])
        elif k == "index":
            stack.extend(x[1:3])


def calls_in(t, *names):
    """All call subterms whose normalised target is in names."""
    return [x for x in subterms(t) if x[0] == "call" and norm(x[1]) in names]


def strip(t):
    """Strip references, derefs, loads and pointer casts: the underlying value/place."""
    while isinstance(t, tuple):
        if t[0] in ("ref", "deref"):
            t = t[1]
        elif t[0] == "load":
            t = t[1]
        elif t[0] == "cast" and t[1] in ("PtrToPtr", "Transmute", "PointerCoercion"):
            t = t[2]
        else:
            break
    return t


_UNSIGNED = ("usize", "u8", "u16", "u32", "u64", "u128")


def _unsigned_zero_test(key):
    """('bin', op, a, b) with an unsigned constant 0 / 1 on one side -> (('bin','Eq', x, 0), same_polarity) or None"""
    op, a, b = key[1], key[2], key[3]

    def cst(t):
        return t[1] if isinstance(t, tuple) and t[0] == "c" and isinstance(t[1], int) and str(t[2]) in _UNSIGNED else None
    flip = {"Gt": "Lt", "Lt": "Gt", "Ge": "Le", "Le": "Ge"}
    if cst(a) is not None and cst(b) is None:
        op, a, b = flip[op], b, a
    c = cst(b)
    if c is None:
        return None
    zero = ("c", 0, b[2])
    if (op, c) in (("Gt", 0), ("Ge", 1)):        # x > 0, x >= 1  <=>  x != 0
        return (("bin", "Eq", a, zero), False)
    if (op, c) in (("Lt", 1), ("Le", 0)):        # x < 1, x <= 0  <=>  x == 0
        return (("bin", "Eq", a, zero), True)
    return None


class Exec:
    """Symbolic path enumerator for one root body (with inlining of directly called closures
    and of the functions named in `inline`)."""

    def __init__(self, prog, inline=(), models=True, max_paths=MAX_PATHS, pure=None, unroll=1, all_cfg_arms=False):
        self.prog = prog
        self.unroll = unroll
        # also read the arm of an `if cfg!(..)` that is dead in this build (another architecture's code)
        self.all_cfg_arms = all_cfg_arms
        self.inline = set(inline) | set(prog.auto_inline())
        self.models = models
        self.max_paths = max_paths
        self.npaths = 0
        self.pure = pure if pure is not None else prog_purity(prog)
        self.frozen = frozen_fields(prog)

    stats = {"paths": 0, "functions": set(), "samples": []}

    # -------------------------------------------------------------- public
    def paths(self, body, args=None):
        out = self._paths(body, args)
        Exec.stats["paths"] += len(out)
        Exec.stats["functions"].add(body.name)
        if len(Exec.stats["samples"]) < 6 and out:
            pa = out[len(out) // 2]
            evs = [repr(e)[:160] for e in pa.events if e.kind != "bb"][:8]
            Exec.stats["samples"].append({"function": body.name, "paths": len(out), "example_exit": str(pa.exit),
                                          "example_events": evs})
        return out

    def _paths(self, body, args=None):
        if args is None:
            args = {}
            for i in range(1, body.arg_count + 1):
                args[i] = ("arg", i, body.local_name(i))
        self.npaths = 0
        out = []
        st = _State(dict(args), 0, [], {}, ())
        helpers = self.prog.auto_inline()
        for (st2, exit, ret) in self._run(body, st, 0, frozenset(), ()):
            if exit[0] == "retry-inner" and exit[1] in helpers:
                # the loop lives in a helper introduced by refactoring: it is this function's loop
                last = st2.trace[-1][1] if st2.trace else 0
                exit = ("retry", last, exit[1])
            pa = Path(body, st2.events, exit, ret, st2.trace)
            pa.env = st2.env
            out.append(pa)
        return out

    # -------------------------------------------------------------- core
    def _run(self, body, st, bb, onpath, frame):
        """Generator of (state, exit, ret_term) for all paths from block bb."""
        while True:
            if self.unroll <= 1:
                if bb in onpath:
                    self._count()
                    yield (st, ("retry", bb), None)
                    return
                onpath = onpath | {bb}
            else:
                n = sum(1 for x in onpath if x[0] == bb)
                if n >= self.unroll:
                    self._count()
                    yield (st, ("retry", bb), None)
                    return
                onpath = onpath | {(bb, n)}
            st.trace = st.trace + ((body.name, bb),) if not frame else st.trace
            st.events.append(Event("bb", bb, frame, body))
            blk = body.blocks[bb]
            for si, stmt in enumerate(blk["stmts"]):
                self._stmt(body, st, bb, si, stmt, frame)
            t = blk["term"]
            k = t["k"]
            if k == "goto":
                bb = t["target"]
                continue
            if k == "return":
                self._count()
                yield (st, ("return",), st.env.get(0, ("c", "()", "()")))
                return
            if k in ("unreachable", "resume", "terminate"):
                self._count()
                yield (st, ("diverge",), None)
                return
            if k == "assert":
                # pointer / overflow / bounds checks: the failing edge panics; fall through.
                bb = t["target"]
                continue
            if k == "drop":
                pl = self._place_term(body, st, t["place"], addr=True)
                val = self._read_place(body, st, t["place"])
                # scopeguard model: dropping the guard runs its closure
                sg = val if isinstance(val, tuple) and val[0] == "call" and norm(val[1]) in (
                    "scopeguard::guard",) else None
                if sg is not None and self.models:
                    clos = sg[2][1] if len(sg[2]) > 1 else None
                    cbody = self._closure_body(clos)
                    if cbody is not None:
                        st.events.append(Event("scopeguard_drop", bb, frame, body, closure=cbody.name,
                                               span=t.get("span")))
                        conts = list(self._inline(cbody, st, [("ref", clos), sg[2][0]], frame, bb, body,
                                                  untuple=False))
                        for (st3, ex, _ret) in conts:
                            if ex[0] != "return":
                                yield (st3, ex, None)
                                continue
                            for r in self._run(body, st3, t["target"], onpath, frame):
                                yield r
                        return
                st.events.append(Event("drop", bb, frame, body, place=pl, value=val, ty=t["ty"],
                                       adt=t.get("adt"), span=t.get("span")))
                # a value (or Option of a value) of a type introduced by a refactoring that has its own Drop impl (an RAII
                # witness replacing a scope guard): dropping it runs that impl
                db = self._new_drop_impl(t["ty"])
                if db is not None and self.models and len(frame) < 6 and db.name not in frame:
                    inner_ty, optional = db._for
                    cases = [(st, val)]
                    if optional:
                        if isinstance(val, tuple) and val[0] == "agg" and val[2] in ("Some", "None"):
                            cases = [(st, val[3][0])] if val[2] == "Some" else []
                            none_case = [st] if val[2] == "None" else []
                        else:
                            cases, none_case = [], []
                            for (s2, is_some, payload) in _opt_cases(st, val, bb, frame, body, t.get("span")):
                                if is_some:
                                    cases.append((s2, payload))
                                else:
                                    none_case.append(s2)
                        for s2 in none_case:
                            for r in self._run(body, s2, t["target"], onpath, frame):
                                yield r
                    for (s2, v) in cases:
                        s2.events.append(Event("enter", bb, frame, body, target=db.name, ntarget=norm(db.name), args=[("ref", v)],
                                               span=t.get("span")))
                        for (st3, ex, _ret) in self._inline(db, s2, [("ref", v)], frame, bb, body, untuple=False):
                            if ex[0] != "return":
                                yield (st3, ex if ex[0] == "diverge" else ("retry-inner", db.name), None)
                                continue
                            st3.events.append(Event("leave", bb, frame, body, target=db.name, ntarget=norm(db.name), ret=_ret,
                                                    span=t.get("span")))
                            for r in self._run(body, st3, t["target"], onpath, frame):
                                yield r
                    return
                bb = t["target"]
                continue
            if k == "switch":
                d = self._operand(body, st, t["discr"])
                succs = self._switch_succs(body, st, t, d)
                if len(succs) == 1:
                    (tgt, val) = succs[0]
                    if val is not None:
                        self._record_cond(body, st, bb, frame, d, val, t)
                    bb = tgt
                    continue
                first = True
                for (tgt, val) in succs:
                    st2 = st.fork()
                    self._record_cond(body, st2, bb, frame, d, val, t)
                    for r in self._run(body, st2, tgt, onpath, frame):
                        yield r
                return
            if k == "call":
                for r in self._call(body, st, bb, t, onpath, frame):
                    yield r
                return
            raise AnalysisError("unmodelled terminator %s in %s bb%d" % (k, body.name, bb))

    def _count(self):
        self.npaths += 1
        if self.npaths > self.max_paths:
            raise AnalysisError("path cap exceeded (%d)" % self.max_paths)

    # -------------------------------------------------------------- switch
    def _switch_succs(self, body, st, t, d):
        """-> list of (target, value) where value is an int, or ('not', [ints]) for otherwise."""
        vals = [(int(v), bb) for v, bb in t["targets"]]
        if isinstance(d, tuple) and d[0] == "c" and isinstance(d[1], int):
            if self.all_cfg_arms and (t.get("span") or {}).get("mac") == "cfg":
                return [(bb, None) for _, bb in vals] + [(t["otherwise"], None)]
            for v, bb in vals:
                if v == d[1]:
                    return [(bb, None)]
            return [(t["otherwise"], None)]
        is_bool = self._is_bool(d, body, t)
        key = d
        neg = False
        if is_bool:
            while isinstance(key, tuple) and key[0] == "un" and key[1] == "Not":
                key = key[2]
                neg = not neg
        known = st.known.get(key)
        if known is None and is_bool:
            rv = _range_eval(st, key)
            if rv is not None:
                known = rv
        if known is None and is_bool:
            # `r.is_ok()` after the variant of r was decided (by a match, a `?`, a map) - and the other way round
            vt = _variant_test(key)
            if vt is not None:
                dk = st.known.get(("disc", vt[0]))
                if isinstance(dk, int):
                    known = 1 if dk == vt[1] else 0
        cands = []
        for v, bb in vals:
            cands.append((bb, v))
        excluded = [v for v, _ in vals]
        other_val = ("not", tuple(excluded))
        if is_bool and len(vals) == 1:
            other_val = 1 - vals[0][0]
        cands.append((t["otherwise"], other_val))
        # unreachable otherwise target?
        ob = body.blocks[t["otherwise"]]
        if ob["term"]["k"] == "unreachable" and not ob["stmts"]:
            cands = cands[:-1]
        if known is not None:
            out = []
            for (bb, v) in cands:
                vv = v
                if is_bool and neg and isinstance(v, int):
                    vv = 1 - v
                if _consistent(known, vv):
                    out.append((bb, v))
            if len(out) >= 1:
                return out if len(out) > 1 else [(out[0][0], out[0][1])]
        return cands

    def _is_bool(self, d, body, t):
        p = op_place(t["discr"])
        if p is not None:
            return p["ty"] == "bool"
        c = op_const(t["discr"])
        return c is not None and c["ty"] == "bool"

    def _record_cond(self, body, st, bb, frame, d, val, t):
        key = d
        v = val
        if self._is_bool(d, body, t) and isinstance(v, int):
            while isinstance(key, tuple) and key[0] == "un" and key[1] == "Not":
                key = key[2]
                v = 1 - v
        # unsigned comparisons with the ends of the range are (in)equalities: `x > 0`, `x >= 1`, `0 < x` are `x != 0`;
        # `x < 1`, `x <= 0` are `x == 0` - conditions are reported in the one form `x == 0` taken / not taken
        if isinstance(key, tuple) and key[0] == "bin" and key[1] in ("Gt", "Ge", "Lt", "Le") and isinstance(v, int) and v in (0, 1):
            nk = _unsigned_zero_test(key)
            if nk is not None:
                st.known[key] = v
                key, v = nk[0], (v if nk[1] else 1 - v)
        st.known[key] = v
        if isinstance(v, int):
            _range_update(st, key, v)
            vt = _variant_test(key)
            if vt is not None and ("disc", vt[0]) not in st.known and v in (0, 1):
                # two-variant enums: the test decides the discriminant either way
                st.known[("disc", vt[0])] = vt[1] if v == 1 else 1 - vt[1]
        if isinstance(key, tuple) and key[0] == "bin" and key[1] in ("Eq", "Ne") and isinstance(v, int) and v in (0, 1):
            twin = ("bin", "Ne" if key[1] == "Eq" else "Eq", key[2], key[3])
            st.known[twin] = 1 - v
            if key[1] == "Ne":
                # conditions are reported in one form: `x != c` taken is `x == c` not taken
                key, v = twin, 1 - v
        sp = t.get("span") or {}
        st.events.append(Event("cond", bb, frame, body, term=key, value=v, exp=bool(sp.get("exp")), span=sp,
                               is_bool=self._is_bool(d, body, t)))

    # -------------------------------------------------------------- statements
    def _stmt(self, body, st, bb, si, stmt, frame):
        k = stmt["k"]
        if k == "assign":
            val = self._rvalue(body, st, stmt["rv"], bb)
            rv = stmt["rv"]
            if rv["k"] == "aggregate" and rv.get("agg") == "adt" and not rv["adt"].startswith("std::") \
                    and not rv["adt"].startswith("core::") and not rv["adt"].startswith("atomic::"):
                st.events.append(Event("agg", bb, frame, body, adt=rv["adt"], value=val, span=stmt.get("span")))
            self._write_place(body, st, stmt["place"], val, bb, frame, stmt.get("span"))
        elif k == "set_discriminant":
            pass
        elif k == "intrinsic":
            pass

    def _write_place(self, body, st, place, val, bb, frame, span):
        if not place["proj"]:
            st.env[place["local"]] = val
            return
        has_deref = any(e == "deref" for e in place["proj"])
        if not has_deref:
            # partial update of a local aggregate: record as functional update
            base = st.env.get(place["local"], ("unk", "uninit", fresh()))
            path = tuple(self._proj_key(e) for e in place["proj"])
            st.env[place["local"]] = ("upd", base, path, val)
            return
        pt = self._place_term(body, st, place, addr=True)
        st.memver += 1
        st.events.append(Event("store", bb, frame, body, place=pt, value=val, span=span))
        if place["proj"][-1] == "deref":
            # `*r = v` where r is a reference to a local whose value was snapshotted (a closure's captured `&mut x`): later reads
            # through r in this frame see v, and the frame that owns x gets it back when the closure returns (_inline)
            pre = place["proj"][:-1]
            ptr = self._place_term(body, st, {"local": place["local"], "proj": pre}) if pre else st.env.get(place["local"])
            if isinstance(ptr, tuple) and ptr[0] == "ref" and len(ptr) > 2 and isinstance(ptr[2], tuple) and ptr[2][0] == "local":
                st.env[("wt", ptr[2][1])] = val

    def _proj_key(self, e):
        if e == "deref":
            return "deref"
        if "field" in e:
            return ("field", e.get("name", e["field"]))
        if "downcast" in e:
            return ("variant", e.get("name"))
        return ("other", str(e))

    def _place_term(self, body, st, place, addr=False, want_mem=False):
        """Term denoting the place. With want_mem=True returns (term, in_memory) where in_memory
        says that the place is reached through a pointer that did not simplify to a local
        value (so reads of it depend on the memory version)."""
        l = place["local"]
        proj = place["proj"]
        if not proj:
            t = ("local", body.name, l, body.local_name(l))
            return (t, False) if want_mem else t
        base = st.env.get(l)
        if base is None:
            base = ("unk", "uninit:_%d" % l, fresh())
            st.env[l] = base
        cur = base
        mem = False
        for e in proj:
            if e == "deref":
                if isinstance(cur, tuple) and cur[0] == "ref" and len(cur) > 2:
                    # reference to a local whose value was snapshotted (or was since written through this reference)
                    wt = ("wt", cur[2][1]) if isinstance(cur[2], tuple) and cur[2][0] == "local" else None
                    cur = st.env[wt] if wt in st.env else cur[1]
                elif isinstance(cur, tuple) and cur[0] == "ref":
                    cur = cur[1]          # &place : the place itself
                    mem = mem or _mentions_deref_path(cur)
                else:
                    cur = ("deref", cur)
                    mem = True
            elif "field" in e:
                fname = e.get("name", e["field"])
                adt = e.get("adt")
                if adt in QUALIFIED_ADTS:
                    fname = "%s.%s" % (adt.split("::")[-1], fname)
                elif adt and isinstance(cur, tuple) and cur[0] == "field" and isinstance(cur[1], str) and "." in cur[1] \
                        and adt.startswith(("ebr_impl::", "utils::", "strong::", "weak::")) and self.prog.is_new_type(adt):
                    # a sub-struct a refactoring introduced inside one of the named structs (`self.flags.collecting`):
                    # its fields are read as the outer struct's (`Local.collecting`)
                    fname = "%s.%s" % (cur[1].split(".")[0], fname)
                    cur = cur[2]
                cur = _field(fname, cur)
            elif "downcast" in e:
                cur = ("variant", e.get("name"), cur)
            elif "index" in e:
                ix = st.env.get(e["index"], ("unk", "idx", fresh()))
                if isinstance(cur, tuple) and cur[0] == "agg" and cur[1] == "array" and isinstance(ix, tuple) and ix[0] == "c" \
                        and isinstance(ix[1], int) and 0 <= ix[1] < len(cur[3]):
                    cur = cur[3][ix[1]]
                else:
                    cur = ("index", cur, ix)
            elif "const_index" in e:
                cur = ("index", cur, ("c", e["const_index"], "usize"))
            else:
                cur = ("field", str(list(e.keys())[0]), cur)
        return (cur, mem) if want_mem else cur

    def _read_place(self, body, st, place):
        l = place["local"]
        proj = place["proj"]
        base = st.env.get(l)
        if base is None:
            base = ("unk", "uninit:_%d" % l, fresh())
            st.env[l] = base
        if not proj:
            return base
        t, mem = self._place_term(body, st, place, want_mem=True)
        if mem:
            last = proj[-1]
            if isinstance(last, dict) and "field" in last and (last.get("adt"), last.get("name")) in self.frozen:
                # a field that is never assigned nor mutably borrowed anywhere in the crate: reading it
                # through the same pointer always yields the same value
                return t
            return ("load", t, st.memver)
        return t

    def _operand(self, body, st, op):
        if "copy" in op:
            return self._read_place(body, st, op["copy"])
        if "move" in op:
            return self._read_place(body, st, op["move"])
        c = op.get("const")
        if c is not None:
            if "fn" in c:
                return ("fn", c.get("resolved") or c["fn"])
            if "int" in c:
                return ("c", int(c["int"]), c["ty"])
            if "param" in c:
                bound = st.env.get(("cparam", c["param"]))
                if bound is not None:
                    return bound
                return ("param_const", c["param"])
            if "static" in c:
                # the address of a named static
                return ("c", "static %s: %s" % (c["static"], c["display"]), c["ty"])
            if "uneval" in c:
                pc = self.prog.consts.get(c["uneval"])
                if pc is not None and "int" in pc:
                    return ("c", int(pc["int"]), c["ty"])
                if pc is not None and "ints" in pc:
                    # a small lookup table
                    return ("agg", "array", None, tuple(("c", int(x), pc.get("elem_ty", "int")) for x in pc["ints"]), None, ())
                v = self._generic_const(st, c)
                if v is not None:
                    return v
                # an associated const of a trait, used through a type parameter that the inlined call binds
                # (`<C as Counter>::UNIT` with C = StrongCounter): the impl's evaluated value
                ua = c.get("uneval_args") or []
                if ua and ua[0].get("k") == "ty":
                    selfty = subst_ty(ua[0]["ty"], st.env)
                    nm = c["uneval"].split("::")
                    if len(nm) >= 2:
                        key = "<%s as %s>::%s" % (selfty, "::".join(nm[:-1]), nm[-1])
                        pc2 = self.prog.consts.get(key)
                        if pc2 is not None and "int" in pc2:
                            return ("c", int(pc2["int"]), c["ty"])
                return ("c", c["display"], c["ty"])
            return ("c", c["display"], c["ty"])
        return ("unk", "operand", fresh())

    def _generic_const(self, st, c):
        """an associated const of a generic type (`Len::<N>::AS_COUNT`) cannot be evaluated before monomorphisation;
        its initializer is a body like any other: read it with the generic arguments of the use bound.  Only
        initializers with exactly one returning path and no events of their own (pure arithmetic/casts) are read."""
        cb = self.prog.bodies.get(c["uneval"])
        if cb is None or cb.kind != "const" or c.get("promoted"):
            return None
        env = {}
        gens = [g for g in sorted(cb.j.get("generics", []), key=lambda g: g.get("index", 0)) if g.get("kind") != "lifetime"]
        cargs = c.get("uneval_args") or []
        if len(gens) != len(cargs):
            return None
        for g, a in zip(gens, cargs):
            if g.get("kind") == "type" and a.get("k") == "ty":
                env[("tparam", g["name"])] = subst_ty(a["ty"], st.env)
            if g.get("kind") == "const" and a.get("k") == "const":
                if "int" in a:
                    env[("cparam", g["name"])] = ("c", int(a["int"]), "const")
                elif ("cparam", a.get("display")) in st.env:
                    env[("cparam", g["name"])] = st.env[("cparam", a.get("display"))]
                elif a.get("display") != g["name"]:
                    env[("cparam", g["name"])] = ("param_const", a.get("display"))
        st2 = st.fork()
        st2.env_stack = None
        st2.env = env
        n0 = len(st2.events)
        rets = []
        try:
            for (st3, ex, ret) in self._run(cb, st2, 0, frozenset(), ("const", cb.name)):
                if ex[0] == "return":
                    rets.append((st3, ret))
        except AnalysisError:
            return None
        if len(rets) != 1:
            return None
        st3, ret = rets[0]
        if any(e.kind not in ("bb", "cond") for e in st3.events[n0:]):
            return None
        return ret

    def _rvalue(self, body, st, rv, bb):
        k = rv["k"]
        if k == "use":
            return self._operand(body, st, rv["op"])
        if k in ("ref", "rawptr"):
            p = rv["place"]
            if not p["proj"]:
                # reference to a local: snapshot its current value (sufficient for shared refs
                # passed to pure callees; &mut locals are havocked at the call)
                return ("ref", st.env.get(p["local"], ("local", body.name, p["local"], body.local_name(p["local"]))),
                        ("local", p["local"]) )
            if p["proj"] == ["deref"]:
                # reborrow `&*q` / `&mut *q`: the same pointer value
                q = st.env.get(p["local"])
                if isinstance(q, tuple) and q[0] == "ref":
                    return q
            return ("ref", self._place_term(body, st, p, addr=True))
        if k == "cast":
            x = self._operand(body, st, rv["op"])
            return ("cast", rv["kind"].split("(")[0], x, rv["ty"])
        if k == "binop":
            l = self._operand(body, st, rv["l"])
            r = self._operand(body, st, rv["r"])
            op = rv["op"]
            return _binop(op, l, r)
        if k == "unop":
            x = self._operand(body, st, rv["x"])
            if rv["op"] == "Not" and isinstance(x, tuple) and x[0] == "c" and isinstance(x[1], int) and x[2] == "bool":
                return ("c", 1 - x[1], "bool")
            return ("un", rv["op"], x)
        if k == "discriminant":
            v = self._read_place(body, st, rv["place"])
            if isinstance(v, tuple) and v[0] == "agg" and len(v) > 4 and v[4] is not None:
                return ("c", v[4], "isize")
            if isinstance(v, tuple) and v[0] == "erropt":
                # `r.err()` is Some (1) exactly when r is Err (1): the same discriminant, the same question
                return ("disc", v[1])
            return ("disc", v)
        if k == "aggregate":
            fields = tuple(self._operand(body, st, f) for f in rv["fields"])
            agg = rv["agg"]
            if agg == "adt":
                return ("agg", rv["adt"], rv.get("variant"), fields, rv.get("variant_idx"), tuple(rv.get("field_names", ())))
            if agg == "closure":
                return ("agg", "closure:" + rv["closure"], None, fields, None, ())
            return ("agg", agg, None, fields, None, ())
        if k == "copy_for_deref":
            return self._read_place(body, st, rv["place"])
        if k == "tls_ref":
            return ("tls", rv["def"])
        if k == "repeat":
            return ("agg", "repeat", None, (self._operand(body, st, rv["op"]), ("c", rv["n"], "usize")), None, ())
        return ("unk", "rvalue:" + rv.get("debug", k)[:40], fresh())

    def _new_drop_impl(self, ty):
        """Drop impl body of a *new* local type (not part of the baseline vocabulary) for a dropped value of type `ty` or
        `Option<ty>`; None otherwise"""
        cache = self.__dict__.setdefault("_drop_cache", {})
        if ty in cache:
            return cache[ty]
        res = None
        inner, optional = ty, False
        if ty.startswith("std::option::Option<") and ty.endswith(">"):
            inner, optional = ty[len("std::option::Option<"):-1], True
        base = re.sub(r"<.*$", "", inner)
        helpers = self.prog.auto_inline()
        for n, b in self.prog.bodies.items():
            if b.j.get("impl_trait") == "std::ops::Drop" and b.name.endswith("::drop") and \
                    re.sub(r"<.*$", "", b.j.get("impl_self") or "") == base and base and \
                    not base.startswith(("std::", "core::", "alloc::")) and self.prog.is_new_type(base):
                res = b
                res._for = (inner, optional)
                break
        cache[ty] = res
        return res

    # -------------------------------------------------------------- calls
    def _closure_body(self, term):
        t = term
        while isinstance(t, tuple) and t[0] == "ref":
            t = t[1]
        if isinstance(t, tuple) and t[0] == "agg" and isinstance(t[1], str) and t[1].startswith("closure:"):
            return self.prog.bodies.get(t[1][len("closure:"):])
        if isinstance(t, tuple) and t[0] == "fn" and isinstance(t[1], str):
            return _FnShim(t[1], self.prog.bodies.get(t[1]))
        return None

    def _call(self, body, st, bb, t, onpath, frame):
        c = Callee(t)
        args = [self._operand(body, st, a) for a in t["args"]]
        target = c.target
        if frame and c.full and (target is None or target not in self.prog.bodies) and "<Self as " in c.full or \
                (frame and c.full and target not in self.prog.bodies and re.search(r"<[A-Z]\w* as ", c.full or "")):
            # inside an inlined generic (a trait's provided method, a function generic over an implementor): the type
            # parameter is bound by the call that was inlined, which selects the impl
            full = subst_ty(c.full, st.env)
            full = re.sub(r"::<[^<>]*>$", "", full)
            for cand in (full, re.sub(r"<([\w:]+) as ([\w:]+)<.*>>::", r"<\1 as \2<T>>::", full)):
                if cand in self.prog.bodies:
                    target = cand
                    break
        nt = norm(target) if target else None
        if c.is_ptr:
            fterm = self._operand(body, st, t["func"])
            target = "<fnptr>"
            nt = "<fnptr>"
        else:
            fterm = None
        span = t.get("span")

        def cont(st2, result):
            dest = t["dest"]
            if t["target"] is None:
                self._count()
                yield (st2, ("diverge",), None)
                return
            self._write_place(body, st2, dest, result, bb, frame, span)
            for r in self._run(body, st2, t["target"], onpath, frame):
                yield r

        # -- direct call of a local closure / inlined function
        callee_body = None
        is_closure_call = False
        if target and target in self.prog.bodies:
            cb = self.prog.bodies[target]
            if cb.kind == "closure":
                callee_body = cb
                is_closure_call = True
            elif nt in self.inline or target in self.inline:
                callee_body = cb
        if callee_body is not None and len(frame) < 6 and callee_body.name not in frame:
            st.events.append(Event("enter", bb, frame, body, target=target, ntarget=nt, args=args, span=span))
            for (st3, ex, ret) in self._inline(callee_body, st, args, frame, bb, body, untuple=is_closure_call, callee=c):
                if ex[0] != "return":
                    yield (st3, ex if ex[0] == "diverge" else ("retry-inner", callee_body.name), None)
                    continue
                st3.events.append(Event("leave", bb, frame, body, target=target, ntarget=nt, ret=ret, span=span))
                for r in cont(st3, ret):
                    yield r
            return

        # -- a call through a closure value or fn item held in a variable/parameter (`f(x)` where f: impl Fn..)
        if nt in ("std::ops::FnOnce::call_once", "std::ops::FnMut::call_mut", "std::ops::Fn::call") and args:
            dyn_cb = self._closure_body(args[0])
            if dyn_cb is not None and len(frame) < 8 and (dyn_cb.name not in frame or isinstance(dyn_cb, _FnShim)):
                st.events.append(Event("enter", bb, frame, body, target=dyn_cb.name, ntarget=norm(dyn_cb.name), args=args, span=span))
                for (st3, ex, ret) in self._inline(dyn_cb, st, args, frame, bb, body, untuple=True):
                    if ex[0] != "return":
                        yield (st3, ex if ex[0] == "diverge" else ("retry-inner", dyn_cb.name), None)
                        continue
                    st3.events.append(Event("leave", bb, frame, body, target=dyn_cb.name, ntarget=norm(dyn_cb.name), ret=ret, span=span))
                    for r in cont(st3, ret):
                        yield r
                return
        # -- integer conversions: `u64::from(x: u32)` is the widening cast; `u32::from(b: bool)` decides b
        mfrom = re.search(r"<impl std::convert::From<(\w+)> for ([ui](?:8|16|32|64|128|size))>::from$", target or "")
        if mfrom and args:
            if mfrom.group(1) == "bool":
                key, neg = args[0], False
                while isinstance(key, tuple) and key[0] == "un" and key[1] == "Not":
                    key, neg = key[2], not neg
                if isinstance(key, tuple) and key[0] == "c" and isinstance(key[1], int):
                    for r in cont(st, ("c", int(bool(key[1]) != neg), mfrom.group(2))):
                        yield r
                    return
                kn = st.known.get(key)
                if kn is None:
                    kn = _range_eval(st, key)
                for v in (1, 0):
                    if kn is not None and isinstance(kn, int) and kn != v:
                        continue
                    s2 = st.fork()
                    s2.known[key] = v
                    _range_update(s2, key, v)
                    s2.events.append(Event("cond", bb, frame, body, term=key, value=v, exp=False, span=span, is_bool=True))
                    for r in cont(s2, ("c", int(bool(v) != neg), mfrom.group(2))):
                        yield r
                return
            if re.match(r"^[ui](8|16|32|64|128|size)$", mfrom.group(1)):
                for r in cont(st, ("cast", "IntToInt", args[0], mfrom.group(2))):
                    yield r
                return
        # -- higher-order models
        if self.models:
            mk = nt
            if nt and nt.endswith(" as std::iter::Iterator>::any"):
                mk = "std::iter::Iterator::any"
            elif nt and nt.endswith(" as std::iter::Iterator>::all"):
                mk = "std::iter::Iterator::all"
            elif nt and nt.endswith(" as std::iter::Iterator>::for_each"):
                mk = "std::iter::Iterator::for_each"
            elif nt and nt.endswith(" as std::iter::Iterator>::find_map"):
                mk = "std::iter::Iterator::find_map"
            elif nt and nt.endswith(" as std::iter::Iterator>::next") and nt.startswith(("<std::iter::Map<", "<std::iter::Filter<")):
                mk = "chain::next"      # a `for` loop over `inner.filter(p).map(f)`: the adaptors applied to the inner item
            elif nt and nt.endswith(" as std::ops::Try>::branch"):
                mk = "std::ops::Try::branch"
            elif nt and nt.endswith(">::from_residual") and " as std::ops::FromResidual<" in nt:
                mk = "std::ops::FromResidual::from_residual"
            m = HIGHER_ORDER.get(mk)
            if m is not None:
                handled = False
                for r in m(self, body, st, bb, t, c, args, frame, cont, target, nt, span):
                    handled = True
                    yield r
                if handled:
                    return

        # -- Result/Option projections are rewritten to payload terms so that `r.ok().unwrap()`, `r.unwrap()`,
        #    `match r { Ok(x) => .. }` all denote the same value
        proj = _project(nt, args)
        if proj is not None:
            st.events.append(Event("call", bb, frame, body, target=target, ntarget=nt, args=args, result=proj, callee=c,
                                   span=span, fterm=None, pure=True))
            for r in cont(st, proj):
                yield r
            return
        # -- opaque call
        pure = (nt in PURE_EXTERNAL) or (target in self.pure) or (nt in self.pure)
        uid = None if pure else fresh()
        res = ("call", target, tuple(args), uid)
        if pure and any(isinstance(a, tuple) and a[0] == "ref" and len(a) > 2 for a in args):
            # the result of a pure function of `&x` depends on the value of x, not on which local holds it: `old.weaked()` and
            # `prev.weaked()` with `prev = old` are the same term (and a test of the one decides the other)
            res = ("call", target, tuple((a[0], a[1]) if isinstance(a, tuple) and a[0] == "ref" and len(a) > 2 and
                                         isinstance(a[2], tuple) and a[2][0] == "local" else a for a in args), uid)
        if pure and not args and frame and c is not None:
            # a function of its type arguments alone (`size_of::<P>()`) inside an inlined generic helper: two instantiations of the
            # helper (`with_payload::<F>` and `with_payload::<Box<F>>`) must not produce the same term, or a test made for the one
            # would be taken as decided for the other
            tp_ = {k[1]: v for k, v in st.env.items() if isinstance(k, tuple) and k[0] == "tparam"}
            try:
                tas = c.type_args()
            except Exception:
                tas = []
            if tp_ and tas:
                inst = tuple(re.sub(r"\b([A-Z][A-Za-z0-9_]*)\b(?!::|<)", lambda m: str(tp_.get(m.group(1), m.group(1))), a_["ty"])
                             for a_ in tas)
                if any(x != a_["ty"] for x, a_ in zip(inst, tas)):
                    res = ("call", target, (("ty", inst),), uid)
        inv = INVERSE_PAIRS.get(target)
        if inv is not None and pure and len(args) == 1 and isinstance(args[0], tuple) and args[0][0] == "call" and \
                args[0][1] == inv and args[0][3] is None and len(args[0][2]) == 1:
            res = args[0][2][0]      # from_raw(as_raw(s)) = s
        mut_args = []
        for i, a in enumerate(t["args"]):
            p = op_place(a)
            if p is not None:
                ty = p["ty"]
                if ty.startswith("&mut") or ty.startswith("*mut"):
                    mut_args.append(i)
        ev = Event("call", bb, frame, body, target=target, ntarget=nt, args=args, result=res, callee=c, span=span,
                   fterm=fterm, pure=pure)
        if frame:
            tp = {k[1]: v for k, v in st.env.items() if isinstance(k, tuple) and k[0] == "tparam"}
            if tp:
                ev.data["tparams"] = tp
        st.events.append(ev)
        if not pure:
            st.memver += 1
            # &mut local passed: havoc that local
            for i in mut_args:
                a = args[i]
                if isinstance(a, tuple) and a[0] == "ref" and len(a) > 2 and isinstance(a[2], tuple) and a[2][0] == "local":
                    st.env[a[2][1]] = ("unk", "mutated-by:%s" % (nt or "?"), fresh())
        for r in cont(st, res):
            yield r

    def _inline(self, cbody, st, args, frame, bb, caller, untuple, callee=None):
        if isinstance(cbody, _FnShim):
            # a fn item used as a callable value: a direct call with the (untupled) arguments
            tup = args[1] if untuple and len(args) > 1 else None
            if untuple:
                real = list(tup[3]) if isinstance(tup, tuple) and tup[0] == "agg" and tup[1] == "tuple" else []
            else:
                real = list(args[1:])
            target = cbody.name
            nt = norm(target)
            rb = cbody.real
            if rb is not None and (target in self.inline or nt in self.inline) and len(frame) < 8 and target not in frame:
                st.events.append(Event("enter", bb, frame, caller, target=target, ntarget=nt, args=real, span=None))
                for (st3, ex, ret) in self._inline(rb, st, real, frame, bb, caller, untuple=False):
                    if ex[0] == "return":
                        st3.events.append(Event("leave", bb, frame, caller, target=target, ntarget=nt, ret=ret, span=None))
                    yield (st3, ex, ret)
                return
            proj = _project(nt, real)
            st2 = st.fork()
            if proj is not None:
                st2.events.append(Event("call", bb, frame, caller, target=target, ntarget=nt, args=real, result=proj,
                                        callee=_FakeCallee(target), span=None, fterm=None, pure=True))
                yield (st2, ("return",), proj)
                return
            pure = (nt in PURE_EXTERNAL) or (target in self.pure) or (nt in self.pure)
            res = ("call", target, tuple(real), None if pure else fresh())
            st2.events.append(Event("call", bb, frame, caller, target=target, ntarget=nt, args=real, result=res,
                                    callee=_FakeCallee(target), span=None, fterm=None, pure=pure))
            if not pure:
                st2.memver += 1
            yield (st2, ("return",), res)
            return
        env = {}
        if untuple:
            # rust-call ABI: (closure_self, (a, b, ..)) -> _1 = self, _2.. = tuple fields
            env[1] = args[0] if args else ("unk", "self", fresh())
            tup = args[1] if len(args) > 1 else None
            n = cbody.arg_count - 1
            for i in range(n):
                if isinstance(tup, tuple) and tup[0] == "agg" and tup[1] == "tuple" and i < len(tup[3]):
                    env[2 + i] = tup[3][i]
                else:
                    env[2 + i] = ("field", i, tup) if tup is not None else ("unk", "arg", fresh())
            # closures taking self by value/ref: if body expects a non-ref closure (FnOnce) but
            # we have a ref, deref it
            selfty = cbody.local_ty(1)
            a0 = env[1]
            if not selfty.startswith("&") and isinstance(a0, tuple) and a0[0] == "ref":
                env[1] = a0[1]
            elif selfty.startswith("&") and not (isinstance(a0, tuple) and a0[0] == "ref"):
                env[1] = ("ref", a0)
        else:
            for i in range(cbody.arg_count):
                env[i + 1] = args[i] if i < len(args) else ("unk", "arg", fresh())
            if cbody.kind == "closure" and cbody.arg_count >= 1:
                selfty = cbody.local_ty(1)
                a0 = env[1]
                if not selfty.startswith("&") and isinstance(a0, tuple) and a0[0] == "ref":
                    env[1] = a0[1]
        # const generic parameters: a closure sees its parent's, a function those of the call (`cas::<false>`)
        if cbody.kind == "closure":
            for k, v in st.env.items():
                if isinstance(k, tuple) and k[0] != "wt":
                    env[k] = v
        elif callee is not None:
            gens = [g for g in sorted(cbody.j.get("generics", []), key=lambda g: g.get("index", 0))
                    if g.get("kind") != "lifetime"]
            cargs = getattr(callee, "resolved_args", None) or getattr(callee, "args", None) or []
            if len(gens) == len(cargs):
                for g, a in zip(gens, cargs):
                    if g.get("kind") == "type" and a.get("k") == "ty":
                        env[("tparam", g["name"])] = subst_ty(a["ty"], st.env)
                    if g.get("kind") == "const" and a.get("k") == "const":
                        if "int" in a:
                            env[("cparam", g["name"])] = ("c", int(a["int"]), "const")
                        elif ("cparam", a.get("display")) in st.env:
                            env[("cparam", g["name"])] = st.env[("cparam", a.get("display"))]
        st2 = st.fork()
        st2.env_stack = None
        saved_env = st.env
        st2.env = env
        nframe = frame + (cbody.name,)
        for (st3, ex, ret) in self._run(cbody, st2, 0, frozenset(), nframe):
            st4 = st3.fork()
            st4.env = dict(saved_env)
            if cbody.kind == "closure":
                # what the closure wrote through a captured `&mut x` is x's value in the frame that built the closure
                cl = args[0] if args else None
                while isinstance(cl, tuple) and cl[0] == "ref":
                    cl = cl[1]
                caps = cl[3] if isinstance(cl, tuple) and cl[0] == "agg" and len(cl) > 3 else ()
                owned = {c_[2][1] for c_ in caps if isinstance(c_, tuple) and c_[0] == "ref" and len(c_) > 2
                         and isinstance(c_[2], tuple) and c_[2][0] == "local"}
                for k, v in st3.env.items():
                    if isinstance(k, tuple) and k[0] == "wt" and k[1] in owned:
                        st4.env[k[1]] = v
            yield (st4, ex, ret)


_UNSIGNED = ("usize", "u8", "u16", "u32", "u64", "u128")
INF = float("inf")


def _cmp_parts(key):
    """('bin', op, X, const) -> (op, X, c, unsigned) with the constant on the right."""
    if not (isinstance(key, tuple) and key[0] == "bin" and key[1] in ("Eq", "Ne", "Lt", "Le", "Gt", "Ge")):
        return None
    op, l, r = key[1], key[2], key[3]
    flip = {"Eq": "Eq", "Ne": "Ne", "Lt": "Gt", "Le": "Ge", "Gt": "Lt", "Ge": "Le"}
    if isinstance(r, tuple) and r[0] == "c" and isinstance(r[1], int):
        return (op, l, r[1], r[2] in _UNSIGNED)
    if isinstance(l, tuple) and l[0] == "c" and isinstance(l[1], int):
        return (flip[op], r, l[1], l[2] in _UNSIGNED)
    return None


def _range_of(st, x, unsigned):
    lo, hi, ne = st.ranges.get(x, (0 if unsigned else -INF, INF, frozenset()))
    return lo, hi, ne


def _range_eval(st, key):
    """Decide a comparison against a constant from the interval known for its left side."""
    cp = _cmp_parts(key)
    if cp is None:
        return None
    op, x, c, uns = cp
    if x not in st.ranges and not uns:
        return None
    lo, hi, ne = _range_of(st, x, uns)
    if op == "Eq":
        if c < lo or c > hi or c in ne:
            return 0
        if lo == hi == c:
            return 1
    elif op == "Ne":
        if c < lo or c > hi or c in ne:
            return 1
        if lo == hi == c:
            return 0
    elif op == "Lt":
        if hi < c:
            return 1
        if lo >= c:
            return 0
    elif op == "Le":
        if hi <= c:
            return 1
        if lo > c:
            return 0
    elif op == "Gt":
        if lo > c:
            return 1
        if hi <= c:
            return 0
    elif op == "Ge":
        if lo >= c:
            return 1
        if hi < c:
            return 0
    return None


def _range_update(st, key, v):
    cp = _cmp_parts(key)
    if cp is None:
        return
    op, x, c, uns = cp
    lo, hi, ne = _range_of(st, x, uns)
    if v == 0:
        op = {"Eq": "Ne", "Ne": "Eq", "Lt": "Ge", "Le": "Gt", "Gt": "Le", "Ge": "Lt"}[op]
    if op == "Eq":
        lo, hi = max(lo, c), min(hi, c)
    elif op == "Ne":
        ne = ne | {c}
        if lo == c:
            lo = c + 1
        if hi == c:
            hi = c - 1
    elif op == "Lt":
        hi = min(hi, c - 1)
    elif op == "Le":
        hi = min(hi, c)
    elif op == "Gt":
        lo = max(lo, c + 1)
    elif op == "Ge":
        lo = max(lo, c)
    st.ranges[x] = (lo, hi, ne)


def subst_ty(ty, env):
    """apply the type-parameter bindings of the inlined call chain (`('tparam', name) -> type`) to a type string"""
    binds = {k[1]: v for k, v in env.items() if isinstance(k, tuple) and k[0] == "tparam"}
    if not binds:
        return ty
    return re.sub(r"\b([A-Z][A-Za-z0-9_]*)\b(?!::|<)", lambda m: binds.get(m.group(1), m.group(1)), ty)


def event_type_args(e):
    """type arguments of a call event's callee, with the type parameters of inlined generic helpers substituted"""
    out = []
    tp = e.data.get("tparams") or {}
    for a in e.callee.type_args():
        ty = a["ty"]
        if tp:
            ty = re.sub(r"\b([A-Z][A-Za-z0-9_]*)\b(?!::|<)", lambda m: tp.get(m.group(1), m.group(1)), ty)
        out.append(ty)
    return out


class _FnShim:
    """a fn item standing where a closure is expected (`opt.map_or(true, RcInner::try_increment_strong)`)"""
    kind = "fnitem"

    def __init__(self, name, real):
        self.name = name
        self.real = real


class _FakeCallee:
    """callee record for a call made through a fn-item value"""
    def __init__(self, target):
        self.name = target
        self.full = target
        self.resolved = target
        self.target = target
        self.args = []
        self.is_ptr = False
        self.trait = None

    def closure_args(self):
        return []

    def const_args(self):
        return []

    def type_args(self):
        return []


def _okp(r):
    return _field("0", ("variant", "Ok", r))


def _errp(r):
    return ("field", "0", ("variant", "Err", r))


# conversions that are each other's inverse (a newtype and its raw word; BIT-STATE proves as_raw(from_raw(x)) = x on
# the bits): `State::from_raw(curr.as_raw())` denotes `curr`
INVERSE_PAIRS = {"utils::State::from_raw": "utils::State::as_raw"}

_VARIANT_INDEX = {"Ok": 0, "Err": 1, "None": 0, "Some": 1}


def _variant_test(key):
    """`Result::is_ok(&r)` & co. -> (r, discriminant the test asks for)"""
    if isinstance(key, tuple) and key[0] == "call" and norm(key[1]) in _VARIANT_TESTS and key[2]:
        x = key[2][0]
        while isinstance(x, tuple) and x[0] == "ref":
            x = x[1]
        return (x, _VARIANT_INDEX[_VARIANT_TESTS[norm(key[1])]])
    return None


_VARIANT_TESTS = {"std::result::Result::is_ok": "Ok", "std::result::Result::is_err": "Err",
                  "std::option::Option::is_some": "Some", "std::option::Option::is_none": "None"}


def _project(nt, args):
    """Result::ok/err/unwrap/unwrap_err/expect and Option::unwrap/expect as payload projections."""
    if not args:
        return None
    a = args[0]
    if nt in ("core::num::nonzero::NonZero::get", "std::num::NonZero::get"):
        if isinstance(a, tuple) and a[0] == "nz":
            return a[1]
        if isinstance(a, tuple) and a[0] == "field" and isinstance(a[2], tuple) and a[2][0] == "variant" and \
                isinstance(a[2][2], tuple) and a[2][2][0] == "nzopt":
            return a[2][2][1]
        return None
    if nt in _VARIANT_TESTS:
        x = a
        while isinstance(x, tuple) and x[0] == "ref":
            x = x[1]
        if isinstance(x, tuple) and x[0] == "agg" and x[2] in ("Ok", "Err", "Some", "None"):
            return ("c", 1 if x[2] == _VARIANT_TESTS[nt] else 0, "bool")
        return None
    if nt in ("std::result::Result::ok",):
        if isinstance(a, tuple) and a[0] == "agg" and a[2] == "Ok":
            return _some(a[3][0])
        if isinstance(a, tuple) and a[0] == "agg" and a[2] == "Err":
            return _NONE
        return ("okopt", a)
    if nt in ("std::result::Result::err",):
        return ("erropt", a)
    if nt in ("std::result::Result::unwrap", "std::result::Result::expect", "std::result::Result::unwrap_unchecked"):
        if isinstance(a, tuple) and a[0] == "agg" and a[2] == "Ok":
            return a[3][0]
        return ("field", "0", ("variant", "Ok", a))
    if nt in ("std::result::Result::unwrap_err", "std::result::Result::expect_err"):
        if isinstance(a, tuple) and a[0] == "agg" and a[2] == "Err":
            return a[3][0]
        return ("field", "0", ("variant", "Err", a))
    if nt in ("std::option::Option::unwrap", "std::option::Option::expect", "std::option::Option::unwrap_unchecked"):
        if isinstance(a, tuple) and a[0] == "okopt":
            return ("field", "0", ("variant", "Ok", a[1]))
        if isinstance(a, tuple) and a[0] == "erropt":
            return ("field", "0", ("variant", "Err", a[1]))
        if isinstance(a, tuple) and a[0] == "agg" and a[2] == "Some" and a[3]:
            return a[3][0]
        return ("field", "0", ("variant", "Some", a))
    return None


def _consistent(known, v):
    if isinstance(known, int) and isinstance(v, int):
        return known == v
    if isinstance(known, int) and isinstance(v, tuple):
        return known not in v[1]
    if isinstance(known, tuple) and isinstance(v, int):
        return v not in known[1]
    return True


def _mentions_deref(t):
    for x in subterms(t):
        if x[0] == "deref":
            return True
    return False


def _mentions_deref_path(t):
    """Is the *place path* t (a chain of field/variant/index over a base) rooted in a deref?"""
    while isinstance(t, tuple) and t[0] in ("field", "variant", "index"):
        t = t[2] if t[0] in ("field", "variant") else t[1]
    return isinstance(t, tuple) and t[0] == "deref"


def _deref(t):
    if isinstance(t, tuple) and t[0] == "ref":
        return t[1]
    return ("deref", t)


_STD_CAS = ("std::sync::atomic::Atomic::compare_exchange", "std::sync::atomic::Atomic::compare_exchange_weak")


def _field(name, base):
    if isinstance(base, tuple):
        if base[0] == "agg":
            names = base[5] if len(base) > 5 else ()
            fields = base[3]
            if isinstance(name, int) and name < len(fields):
                return fields[name]
            if name in names:
                return fields[names.index(name)]
            # tuple field index given as str
            try:
                i = int(name)
                if i < len(fields):
                    return fields[i]
            except (TypeError, ValueError):
                pass
        if base[0] == "variant" and isinstance(base[2], tuple) and base[2][0] == "agg":
            return _field(name, base[2])
        if base[0] == "variant" and base[1] == "Some" and name in (0, "0") and isinstance(base[2], tuple) and \
                base[2][0] in ("erropt", "okopt"):
            # the payload of `r.err()` / `r.ok()` is the payload of r
            return _field(name, ("variant", "Err" if base[2][0] == "erropt" else "Ok", base[2][1]))
        if base[0] == "variant" and base[1] == "Ok" and name in (0, "0") and isinstance(base[2], tuple) and \
                base[2][0] == "call" and norm(base[2][1]) in _STD_CAS and len(base[2][2]) > 1:
            # a successful compare_exchange returns the value it replaced, which is its `current` argument
            return base[2][2][1]
        if base[0] == "upd":
            # ('upd', base, path, val)
            if len(base[2]) == 1 and base[2][0] == ("field", name):
                return base[3]
            return _field(name, base[1])
        if base[0] == "bin" and base[1].endswith("WithOverflow"):
            if name in (0, "0"):
                return _binop(base[1][:-len("WithOverflow")], base[2], base[3])
            return ("c", 0, "bool")
    return ("field", name, base)


def _binop(op, l, r):
    if (isinstance(l, tuple) and isinstance(r, tuple) and l[0] == "c" and r[0] == "c"
            and isinstance(l[1], int) and isinstance(r[1], int)):
        a, b = l[1], r[1]
        ty = l[2]
        try:
            if op == "Add":
                return ("c", a + b, ty)
            if op == "Sub":
                return ("c", a - b, ty)
            if op == "Mul":
                return ("c", a * b, ty)
            if op == "BitAnd":
                return ("c", a & b, ty)
            if op == "BitOr":
                return ("c", a | b, ty)
            if op == "Eq":
                return ("c", int(a == b), "bool")
            if op == "Ne":
                return ("c", int(a != b), "bool")
            if op == "Lt":
                return ("c", int(a < b), "bool")
            if op == "Le":
                return ("c", int(a <= b), "bool")
            if op == "Gt":
                return ("c", int(a > b), "bool")
            if op == "Ge":
                return ("c", int(a >= b), "bool")
        except Exception:
            pass
    return ("bin", op, l, r)


class _State:
    __slots__ = ("env", "memver", "events", "known", "trace", "env_stack", "ranges")

    def __init__(self, env, memver, events, known, trace, ranges=None):
        self.env = env
        self.memver = memver
        self.events = events
        self.known = known
        self.trace = trace
        self.env_stack = None
        self.ranges = ranges if ranges is not None else {}

    def fork(self):
        return _State(dict(self.env), self.memver, list(self.events), dict(self.known), self.trace,
                      dict(self.ranges))


# ------------------------------------------------------------------ frozen fields

def frozen_fields(prog):
    """(adt, field) pairs of local ADTs that no body ever assigns, mutably borrows or takes a
    mutable raw address of (interior mutability goes through &Cell / &Atomic methods and is not a
    direct read)."""
    if hasattr(prog, "_frozen"):
        return prog._frozen
    allf = set()
    for a in prog.items["adts"]:
        for v in a["variants"]:
            for f in v["fields"]:
                allf.add((a["path"], f["name"]))
    thawed = set()

    def mark(place):
        for e in place["proj"]:
            if isinstance(e, dict) and "field" in e and e.get("adt"):
                thawed.add((e["adt"], e.get("name")))

    for b in prog.bodies.values():
        for blk in b.blocks:
            for st in blk["stmts"]:
                if st["k"] == "assign":
                    if st["place"]["proj"]:
                        mark(st["place"])
                    rv = st["rv"]
                    if rv["k"] in ("ref", "rawptr") and rv.get("mut"):
                        mark(rv["place"])
                        # whole-struct mutable borrow through a pointer: every field of that ADT thaws
                        ty = rv["place"]["ty"]
                        for (adt, fn) in allf:
                            if ty.startswith(adt):
                                thawed.add((adt, fn))
            t = blk["term"]
            if t["k"] == "call" and t["dest"]["proj"]:
                mark(t["dest"])
    prog._frozen = allf - thawed
    return prog._frozen


# ------------------------------------------------------------------ purity of local functions

def prog_purity(prog):
    """Local functions that are pure functions of their argument values: no stores through
    pointers, no calls except to pure functions. Computed as a greatest fixpoint."""
    if hasattr(prog, "_pure"):
        return prog._pure
    cand = set()
    info = {}
    for name, b in prog.bodies.items():
        callees = set()
        ok = True
        for bi in b.reachable():
            blk = b.blocks[bi]
            for st in blk["stmts"]:
                if st["k"] == "assign" and any(e == "deref" for e in st["place"]["proj"]):
                    ok = False
                if st["k"] == "assign" and st["rv"]["k"] == "tls_ref":
                    ok = False
            t = blk["term"]
            if t["k"] == "call":
                c = Callee(t)
                if c.is_ptr:
                    ok = False
                else:
                    callees.add(c.target)
                if t["target"] is None:
                    # diverging call (panic) is fine
                    callees.discard(c.target)
            elif t["k"] == "drop":
                if t["ty"] not in ("()",) and not t["ty"].startswith("&"):
                    # dropping a value may run arbitrary code
                    ok = ok and _trivial_drop(t["ty"])
        info[name] = (ok, callees)
        if ok:
            cand.add(name)
    changed = True
    while changed:
        changed = False
        for name in list(cand):
            for c in info[name][1]:
                if c in cand or c == name:
                    continue
                if norm(c) in PURE_EXTERNAL or c in PURE_EXTERNAL:
                    continue
                cand.discard(name)
                changed = True
                break
    prog._pure = cand | {norm(c) for c in cand}
    return prog._pure


def _trivial_drop(ty):
    return ty in ("bool", "usize", "u64", "u32", "isize") or ty.startswith("*") or ty.startswith("utils::State")


# ------------------------------------------------------------------ higher-order models

def _model_with(ex, body, st, bb, t, c, args, frame, cont, target, nt, span):
    """LocalKey::with(key, f): f runs exactly once with a reference to the TLS value."""
    cb = ex._closure_body(args[1]) if len(args) > 1 else None
    if cb is None:
        return
    st.events.append(Event("hof", bb, frame, body, target=target, ntarget=nt, args=args, closure=cb.name, span=span,
                           model="runs-once"))
    tup = ("agg", "tuple", None, (("ref", ("tlsval", args[0])),), None, ())
    for (st3, exi, ret) in ex._inline(cb, st, [args[1], tup], frame, bb, body, untuple=True):
        if exi[0] != "return":
            yield (st3, exi if exi[0] == "diverge" else ("retry-inner", cb.name), None)
            continue
        for r in cont(st3, ret):
            yield r


def _model_try_with(ex, body, st, bb, t, c, args, frame, cont, target, nt, span):
    """LocalKey::try_with(key, f): either f runs once (Ok) or the key is destroyed (Err)."""
    cb = ex._closure_body(args[1]) if len(args) > 1 else None
    if cb is None:
        if len(args) < 2:
            return
        # an opaque callable (`HANDLE.try_with(&mut f)` with f a generic parameter): it runs once on the value (Ok), or the key
        # is destroyed (Err) - the call itself stays uninterpreted
        tv = ("ref", ("tlsval", args[0]))
        tgt = "std::ops::FnOnce::call_once"
        res0 = ("call", tgt, (args[1], tv), fresh())
        st_ok = st.fork()
        st_ok.events.append(Event("call", bb, frame, body, target=tgt, ntarget=tgt, args=[args[1], tv], result=res0,
                                  callee=_FakeCallee(tgt), span=span, fterm=None, pure=False))
        st_ok.memver += 1
        for r in cont(st_ok, ("agg", "std::result::Result", "Ok", (res0,), 0, ("0",))):
            yield r
        st_e = st.fork()
        st_e.events.append(Event("cond", bb, frame, body, term=("tls_destroyed", args[0]), value=1, exp=False, span=span,
                                 is_bool=True))
        for r in cont(st_e, ("agg", "std::result::Result", "Err", (("c", "AccessError", "AccessError"),), 1, ("0",))):
            yield r
        return
    st.events.append(Event("hof", bb, frame, body, target=target, ntarget=nt, args=args, closure=cb.name, span=span,
                           model="runs-once-or-err"))
    tup = ("agg", "tuple", None, (("ref", ("tlsval", args[0])),), None, ())
    for (st3, exi, ret) in ex._inline(cb, st, [args[1], tup], frame, bb, body, untuple=True):
        if exi[0] != "return":
            yield (st3, exi if exi[0] == "diverge" else ("retry-inner", cb.name), None)
            continue
        res = ("agg", "std::result::Result", "Ok", (ret,), 0, ("0",))
        for r in cont(st3, res):
            yield r
    st_e = st.fork()
    st_e.events.append(Event("cond", bb, frame, body, term=("tls_destroyed", args[0]), value=1, exp=False, span=span,
                             is_bool=True))
    res = ("agg", "std::result::Result", "Err", (("c", "AccessError", "AccessError"),), 1, ("0",))
    for r in cont(st_e, res):
        yield r


def _model_unwrap_or_else(ex, body, st, bb, t, c, args, frame, cont, target, nt, span):
    """Result::unwrap_or_else(r, f): f runs iff r is Err."""
    cb = ex._closure_body(args[1]) if len(args) > 1 else None
    if cb is None:
        return
    r0 = args[0]
    if isinstance(r0, tuple) and r0[0] == "agg" and r0[2] in ("Ok", "Some"):
        st.events.append(Event("hof", bb, frame, body, target=target, ntarget=nt, args=args, closure=cb.name,
                               span=span, model="not-run(Ok)"))
        for r in cont(st, r0[3][0]):
            yield r
        return
    if isinstance(r0, tuple) and r0[0] == "agg" and r0[2] in ("Err", "None"):
        st.events.append(Event("hof", bb, frame, body, target=target, ntarget=nt, args=args, closure=cb.name,
                               span=span, model="runs(Err)"))
        tup = ("agg", "tuple", None, tuple(r0[3]), None, ())
        for (st3, exi, ret) in ex._inline(cb, st, [args[1], tup], frame, bb, body, untuple=True):
            if exi[0] != "return":
                yield (st3, exi if exi[0] == "diverge" else ("retry-inner", cb.name), None)
                continue
            for r in cont(st3, ret):
                yield r
        return
    # unknown discriminant: both
    st_ok = st.fork()
    if _res_cond(st_ok, r0, True, bb, frame, body, span):
        for r in cont(st_ok, _okp(r0)):
            yield r
    st_e = st.fork()
    if not _res_cond(st_e, r0, False, bb, frame, body, span):
        return
    tup = ("agg", "tuple", None, (_errp(r0),), None, ())
    for (st3, exi, ret) in ex._inline(cb, st_e, [args[1], tup], frame, bb, body, untuple=True):
        if exi[0] != "return":
            yield (st3, exi if exi[0] == "diverge" else ("retry-inner", cb.name), None)
            continue
        for r in cont(st3, ret):
            yield r


def _res_cond(st, r0, ok, bb, frame, body, span):
    """record `r0 is Ok` (ok=True) / `r0 is Err` on state st as a discriminant condition (Ok = 0, Err = 1), the
    same term a `match` on r0 produces; False when the path already decided otherwise"""
    v = 0 if ok else 1
    key = ("disc", r0)
    kn = st.known.get(key)
    if kn is not None and not _consistent(kn, v):
        return False
    st.known[key] = v
    st.events.append(Event("cond", bb, frame, body, term=key, value=v, exp=False, span=span, is_bool=False))
    return True


def _mk_map(which):
    def model(ex, body, st, bb, t, c, args, frame, cont, target, nt, span):
        """Result::map / map_err / Option::map: closure runs iff Ok / Err / Some."""
        cb = ex._closure_body(args[1]) if len(args) > 1 else None
        fn_item = args[1] if len(args) > 1 and isinstance(args[1], tuple) and args[1][0] == "fn" else None
        if cb is None and fn_item is None:
            return
        r0 = args[0]
        run_variant, keep_variant = ("Ok", "Err") if which == "map" else ("Err", "Ok")
        known_variant = r0[2] if isinstance(r0, tuple) and r0[0] == "agg" and r0[2] in ("Ok", "Err") else None
        if known_variant == keep_variant:
            for r in cont(st, r0):
                yield r
            return
        # runs
        st_r = st.fork()
        payload = _okp(r0) if which == "map" else _errp(r0)
        runs = True
        if known_variant == run_variant:
            payload = r0[3][0]   # the variant is known: no condition to record
        else:
            runs = _res_cond(st_r, r0, which == "map", bb, frame, body, span)
        if not runs:
            pass
        elif cb is not None:
            st_r.events.append(Event("hof", bb, frame, body, target=target, ntarget=nt, args=args, closure=cb.name,
                                     span=span, model="runs-iff-" + run_variant))
            tup = ("agg", "tuple", None, (payload,), None, ())
            for (st3, exi, ret) in ex._inline(cb, st_r, [args[1], tup], frame, bb, body, untuple=True):
                if exi[0] != "return":
                    yield (st3, exi if exi[0] == "diverge" else ("retry-inner", cb.name), None)
                    continue
                res = ("agg", "std::result::Result", run_variant, (ret,), 0 if run_variant == "Ok" else 1, ("0",))
                for r in cont(st3, res):
                    yield r
        else:
            ret = ("call", fn_item[1], (payload,), None)
            res = ("agg", "std::result::Result", run_variant, (ret,), 0 if run_variant == "Ok" else 1, ("0",))
            for r in cont(st_r, res):
                yield r
        if known_variant == run_variant:
            return
        # does not run
        st_k = st.fork()
        if not _res_cond(st_k, r0, which != "map", bb, frame, body, span):
            return
        kp = _errp(r0) if which == "map" else _okp(r0)
        res = ("agg", "std::result::Result", keep_variant, (kp,), 1 if keep_variant == "Err" else 0, ("0",))
        for r in cont(st_k, res):
            yield r
    return model


def _model_repeat_n(ex, body, st, bb, t, c, args, frame, cont, target, nt, span):
    """array::from_fn::<T, N, F>(f) and <[T; N]>::map(arr, f): f runs exactly N times."""
    clos = args[-1] if args else None
    cb = ex._closure_body(clos)
    if cb is None:
        return
    n = None
    for a in c.args:
        if a["k"] == "const":
            n = ("c", int(a["int"]), "usize") if "int" in a else ("param_const", a["display"])
    if n is None:
        return
    arr = strip(args[0]) if len(args) == 2 else None
    if isinstance(arr, tuple) and arr[0] == "agg" and arr[1] == "array" and isinstance(n, tuple) and n[0] == "c" and \
            len(arr[3]) == n[1] and n[1] <= 8:
        # `[a, b, c].map(f)`: the array of f(a), f(b), f(c) - the closure applied to each element in turn
        def seq(s, k, acc):
            if k == len(arr[3]):
                for r in cont(s, ("agg", "array", None, tuple(acc), None, ())):
                    yield r
                return
            for (s2, ret, ex_) in _run_closure(ex, body, s, bb, frame, cb, clos, [arr[3][k]], target, nt, span, "each"):
                if ex_ is not None:
                    yield (s2, ex_, None)
                    continue
                for r in seq(s2, k + 1, acc + [ret]):
                    yield r
        for r in seq(st, 0, []):
            yield r
        return
    st.events.append(Event("repeat_begin", bb, frame, body, target=target, ntarget=nt, count=n, closure=cb.name,
                           span=span))
    elem = ("unk", "elem", fresh())
    tup = ("agg", "tuple", None, (elem,), None, ())
    for (st3, exi, ret) in ex._inline(cb, st, [("ref", clos), tup], frame, bb, body, untuple=True):
        if exi[0] != "return":
            yield (st3, exi if exi[0] == "diverge" else ("retry-inner", cb.name), None)
            continue
        st3.events.append(Event("repeat_end", bb, frame, body, target=target, ntarget=nt, count=n, ret=ret, span=span))
        res = ("agg", "array_of", None, (ret, n), None, ())
        for r in cont(st3, res):
            yield r


def _run_closure(ex, body, st, bb, frame, cb, clos, argterms, target, nt, span, model):
    """inline closure `cb` with the given argument terms; yields (state, ret)"""
    st.events.append(Event("hof", bb, frame, body, target=target, ntarget=nt, args=[clos] + list(argterms), closure=cb.name,
                           span=span, model=model))
    tup = ("agg", "tuple", None, tuple(argterms), None, ())
    for (st3, exi, ret) in ex._inline(cb, st, [clos, tup], frame, bb, body, untuple=True):
        if exi[0] != "return":
            yield (st3, None, exi if exi[0] == "diverge" else ("retry-inner", cb.name))
        else:
            yield (st3, ret, None)


def _opt_cases(st, o, bb, frame, body, span):
    """-> list of (state, is_some, payload) for an Option-valued term"""
    if isinstance(o, tuple) and o[0] == "agg" and o[2] in ("Some", "None"):
        return [(st, o[2] == "Some", o[3][0] if o[2] == "Some" and o[3] else None)]
    if isinstance(o, tuple) and o[0] in ("okopt", "erropt") and len(o) == 2:
        # `r.ok()` / `r.err()`: Some iff r is Ok / Err - the same discriminant condition a `match r` records
        out = []
        for is_some in (True, False):
            s2 = st.fork()
            if not _res_cond(s2, o[1], (o[0] == "okopt") == is_some, bb, frame, body, span):
                continue
            pay = (_okp(o[1]) if o[0] == "okopt" else _errp(o[1])) if is_some else None
            out.append((s2, is_some, pay))
        return out
    known = st.known.get(("disc", o))
    out = []
    for is_some in (True, False):
        if known is not None and not _consistent(known, 1 if is_some else 0):
            continue
        s2 = st.fork()
        s2.known[("disc", o)] = 1 if is_some else 0
        s2.events.append(Event("cond", bb, frame, body, term=("disc", o), value=1 if is_some else 0, exp=False, span=span,
                               is_bool=False))
        out.append((s2, is_some, ("field", "0", ("variant", "Some", o)) if is_some else None))
    return out


def _some(x):
    return ("agg", "std::option::Option", "Some", (x,), 1, ("0",))


_NONE = ("agg", "std::option::Option", "None", (), 0, ())


def _mk_option_model(kind):
    def model(ex, body, st, bb, t, c, args, frame, cont, target, nt, span):
        o = args[0]
        fidx = {"map": 1, "and_then": 1, "is_some_and": 1, "map_or": 2, "map_or_else": 2, "unwrap_or_else": 1,
                "filter": 1, "or_else": 1}[kind]
        clos = args[fidx] if len(args) > fidx else None
        cb = ex._closure_body(clos)
        if cb is None:
            return
        dcb = ex._closure_body(args[1]) if kind == "map_or_else" else None
        for (s2, is_some, payload) in _opt_cases(st, o, bb, frame, body, span):
            if kind in ("unwrap_or_else", "or_else"):
                if is_some:
                    for r in cont(s2, payload if kind == "unwrap_or_else" else _some(payload)):
                        yield r
                else:
                    for (s3, ret, ex_) in _run_closure(ex, body, s2, bb, frame, cb, clos, [], target, nt, span, "runs-iff-None"):
                        if ex_ is not None:
                            yield (s3, ex_, None)
                            continue
                        for r in cont(s3, ret):
                            yield r
                continue
            if not is_some:
                if kind in ("map", "and_then", "filter"):
                    res = _NONE
                elif kind == "is_some_and":
                    res = ("c", 0, "bool")
                elif kind == "map_or":
                    res = args[1]
                elif kind == "map_or_else":
                    if dcb is None:
                        return
                    for (s3, ret, ex_) in _run_closure(ex, body, s2, bb, frame, dcb, args[1], [], target, nt, span, "runs-iff-None"):
                        if ex_ is not None:
                            yield (s3, ex_, None)
                            continue
                        for r in cont(s3, ret):
                            yield r
                    continue
                for r in cont(s2, res):
                    yield r
                continue
            for (s3, ret, ex_) in _run_closure(ex, body, s2, bb, frame, cb, clos, [payload], target, nt, span, "runs-iff-Some"):
                if ex_ is not None:
                    yield (s3, ex_, None)
                    continue
                res = _some(ret) if kind == "map" else ret
                for r in cont(s3, res):
                    yield r
    return model


def _mk_result_model(kind):
    def model(ex, body, st, bb, t, c, args, frame, cont, target, nt, span):
        """Result::map_or_else(r, default(e), f(x)) / map_or(r, d, f) / is_ok_and(r, f) / is_err_and(r, f)"""
        r0 = args[0]
        fidx = {"map_or_else": 2, "map_or": 2, "is_ok_and": 1, "is_err_and": 1}[kind]
        clos = args[fidx] if len(args) > fidx else None
        cb = ex._closure_body(clos)
        if cb is None:
            return
        dcb = ex._closure_body(args[1]) if kind == "map_or_else" else None
        if kind == "map_or_else" and dcb is None:
            return
        on_ok = kind != "is_err_and"
        for is_ok in (True, False):
            s2 = st.fork()
            if isinstance(r0, tuple) and r0[0] == "agg" and r0[2] in ("Ok", "Err"):
                if (r0[2] == "Ok") != is_ok:
                    continue
                payload = r0[3][0]
            else:
                if not _res_cond(s2, r0, is_ok, bb, frame, body, span):
                    continue
                payload = _okp(r0) if is_ok else _errp(r0)
            if is_ok == on_ok:
                for (s3, ret, ex_) in _run_closure(ex, body, s2, bb, frame, cb, clos, [payload], target, nt, span,
                                                   "runs-iff-Ok" if on_ok else "runs-iff-Err"):
                    if ex_ is not None:
                        yield (s3, ex_, None)
                        continue
                    for r in cont(s3, ret):
                        yield r
            elif kind == "map_or_else":
                for (s3, ret, ex_) in _run_closure(ex, body, s2, bb, frame, dcb, args[1], [payload], target, nt, span, "runs-iff-Err"):
                    if ex_ is not None:
                        yield (s3, ex_, None)
                        continue
                    for r in cont(s3, ret):
                        yield r
            elif kind == "map_or":
                for r in cont(s2, args[1]):
                    yield r
            else:
                for r in cont(s2, ("c", 0, "bool")):
                    yield r
    return model


def _model_fetch_update(ex, body, st, bb, t, c, args, frame, cont, target, nt, span):
    """std's `cell.fetch_update(set_order, fetch_order, f)` as the loop it is: load; `f(cur)`: None -> Err(cur); Some(new) ->
    compare_exchange_weak(cur, new): Ok -> Ok(cur), Err(seen) -> again with `seen`.  The load and each exchange are reported
    as the atomic events a hand-written loop would produce (same cell, same operands, same orderings)."""
    if len(args) < 4:
        return
    cell, so, fo, clos = args[0], args[1], args[2], args[3]
    cb = ex._closure_body(clos)
    if cb is None:
        return
    pre = target.rsplit("::", 1)[0]
    ld = pre + "::load"
    cx = pre + "::compare_exchange_weak"
    cur0 = ("call", ld, (cell, fo), fresh())
    st.events.append(Event("call", bb, frame, body, target=ld, ntarget=norm(ld), args=[cell, fo], result=cur0,
                           callee=_FakeCallee(ld), span=span, fterm=None, pure=False))
    st.memver += 1
    rounds = max(2, ex.unroll + 1)

    def step(s, cur, k):
        for (s2, ret, ex_) in _run_closure(ex, body, s, bb, frame, cb, clos, [cur], target, nt, span, "update"):
            if ex_ is not None:
                yield (s2, ex_, None)
                continue
            for (s3, is_some, payload) in _opt_cases(s2, ret, bb, frame, body, span):
                if not is_some:
                    for r in cont(s3, ("agg", "std::result::Result", "Err", (cur,), 1, ("0",))):
                        yield r
                    continue
                res = ("call", cx, (cell, cur, payload, so, fo), fresh())
                s3.events.append(Event("call", bb, frame, body, target=cx, ntarget=norm(cx), args=[cell, cur, payload, so, fo],
                                       result=res, callee=_FakeCallee(cx), span=span, fterm=None, pure=False))
                s3.memver += 1
                s_ok = s3.fork()
                if _res_cond(s_ok, res, True, bb, frame, body, span):
                    for r in cont(s_ok, ("agg", "std::result::Result", "Ok", (cur,), 0, ("0",))):
                        yield r
                s_er = s3.fork()
                if _res_cond(s_er, res, False, bb, frame, body, span):
                    if k + 1 < rounds:
                        for r in step(s_er, _errp(res), k + 1):
                            yield r
                    else:
                        ex._count()
                        yield (s_er, ("retry", bb), None)
    for r in step(st, cur0, 0):
        yield r


def _model_bool_then(ex, body, st, bb, t, c, args, frame, cont, target, nt, span):
    """bool::then(b, f): Some(f()) iff b"""
    b, clos = args[0], args[1] if len(args) > 1 else None
    cb = ex._closure_body(clos)
    if cb is None:
        return
    neg = False
    key = b
    while isinstance(key, tuple) and key[0] == "un" and key[1] == "Not":
        key = key[2]
        neg = not neg
    vals = [0, 1]
    if isinstance(key, tuple) and key[0] == "c" and isinstance(key[1], int):
        vals = [key[1]]
    known = st.known.get(key)
    for v in vals:
        if known is not None and isinstance(known, int) and known != v:
            continue
        s2 = st.fork()
        if not (isinstance(key, tuple) and key[0] == "c"):
            s2.known[key] = v
            s2.events.append(Event("cond", bb, frame, body, term=key, value=v, exp=False, span=span, is_bool=True))
        truth = bool(v) != neg
        if not truth:
            for r in cont(s2, _NONE):
                yield r
            continue
        for (s3, ret, ex_) in _run_closure(ex, body, s2, bb, frame, cb, clos, [], target, nt, span, "runs-iff-true"):
            if ex_ is not None:
                yield (s3, ex_, None)
                continue
            for r in cont(s3, _some(ret)):
                yield r


def _model_bool_then_some(ex, body, st, bb, t, c, args, frame, cont, target, nt, span):
    b, val = args[0], args[1]
    neg = False
    key = b
    while isinstance(key, tuple) and key[0] == "un" and key[1] == "Not":
        key = key[2]
        neg = not neg
    vals = [0, 1]
    if isinstance(key, tuple) and key[0] == "c" and isinstance(key[1], int):
        vals = [key[1]]
    known = st.known.get(key)
    for v in vals:
        if known is not None and isinstance(known, int) and known != v:
            continue
        s2 = st.fork()
        if not (isinstance(key, tuple) and key[0] == "c"):
            s2.known[key] = v
            s2.events.append(Event("cond", bb, frame, body, term=key, value=v, exp=False, span=span, is_bool=True))
        for r in cont(s2, _some(val) if (bool(v) != neg) else _NONE):
            yield r


def _model_option_filter(ex, body, st, bb, t, c, args, frame, cont, target, nt, span):
    """Option::filter(o, p): Some(x) iff o is Some(x) and p(&x)"""
    o, clos = args[0], args[1] if len(args) > 1 else None
    cb = ex._closure_body(clos)
    if cb is None:
        return
    for (s2, is_some, payload) in _opt_cases(st, o, bb, frame, body, span):
        if not is_some:
            for r in cont(s2, _NONE):
                yield r
            continue
        for (s3, ret, ex_) in _run_closure(ex, body, s2, bb, frame, cb, clos, [("ref", payload)], target, nt, span, "predicate"):
            if ex_ is not None:
                yield (s3, ex_, None)
                continue
            if isinstance(ret, tuple) and ret[0] == "c" and isinstance(ret[1], int):
                for r in cont(s3, _some(payload) if ret[1] else _NONE):
                    yield r
                continue
            for v in (1, 0):
                s4 = s3.fork()
                s4.known[ret] = v
                s4.events.append(Event("cond", bb, frame, body, term=ret, value=v, exp=False, span=span, is_bool=True))
                for r in cont(s4, _some(payload) if v else _NONE):
                    yield r


def _chain_next(ex, body, st, bb, frame, it, ntgt, span, target, nt):
    """one `next()` of an iterator chain: yields (state, item | None | 'skip', exit|None).  `map(inner, f)` applies f to the
    inner item, `filter(inner, p)` yields the inner item if p(&item) and 'skip' (go on with the next one) otherwise; anything
    else is an opaque `next` call reported as an event of <I as Iterator>::next."""
    base = it
    while isinstance(base, tuple) and base[0] == "ref":
        base = base[1]
    if isinstance(base, tuple) and base[0] == "call" and norm(base[1]) in ("std::iter::Iterator::map", "std::iter::Iterator::filter") \
            and len(base[2]) == 2:
        kind = norm(base[1]).split("::")[-1]
        inner, fn = base[2]
        cb = ex._closure_body(fn)
        for (s, x, e_) in _chain_next(ex, body, st, bb, frame, inner, ntgt, span, target, nt):
            if e_ is not None or x is None or x == "skip" or cb is None:
                yield (s, x if cb is not None else x, e_)
                continue
            arg = x if kind == "map" else ("ref", x)
            for (s2, ret, ex_) in _run_closure(ex, body, s, bb, frame, cb, fn, [arg], target, nt, span, kind):
                if ex_ is not None:
                    yield (s2, None, ex_)
                elif kind == "map":
                    yield (s2, ret, None)
                else:
                    vals = [ret[1]] if isinstance(ret, tuple) and ret[0] == "c" and isinstance(ret[1], int) else [1, 0]
                    for v in vals:
                        s3 = s2.fork() if len(vals) > 1 else s2
                        if len(vals) > 1:
                            key, vv = ret, v
                            while isinstance(key, tuple) and key[0] == "un" and key[1] == "Not":
                                key, vv = key[2], 1 - vv
                            kn = s3.known.get(key)
                            if kn is not None and isinstance(kn, int) and kn != vv:
                                continue
                            s3.known[key] = vv
                            s3.events.append(Event("cond", bb, frame, body, term=key, value=vv, exp=False, span=span, is_bool=True))
                        yield (s3, x if v else "skip", None)
        return
    if isinstance(base, tuple) and base[0] == "call" and norm(base[1]) in ("std::iter::repeat_with", "core::iter::repeat_with") \
            and len(base[2]) == 1 and ex._closure_body(base[2][0]) is not None:
        # `iter::repeat_with(f)`: never exhausted, every `next` is one call of f
        fn = base[2][0]
        for (s2, ret, ex_) in _run_closure(ex, body, st, bb, frame, ex._closure_body(fn), fn, [], target, nt, span, "repeat_with"):
            yield (s2, None, ex_) if ex_ is not None else (s2, ret, None)
        return
    res = ("call", ntgt, (("ref", it),), fresh())
    st.events.append(Event("call", bb, frame, body, target=ntgt, ntarget=norm(ntgt), args=[("ref", it)], result=res,
                           callee=_FakeCallee(ntgt), span=span, fterm=None, pure=False))
    st.memver += 1
    s0 = st.fork()
    s0.known[("disc", res)] = 0
    s0.events.append(Event("cond", bb, frame, body, term=("disc", res), value=0, exp=False, span=span, is_bool=False))
    yield (s0, None, None)
    s1 = st.fork()
    s1.known[("disc", res)] = 1
    s1.events.append(Event("cond", bb, frame, body, term=("disc", res), value=1, exp=False, span=span, is_bool=False))
    yield (s1, ("field", "0", ("variant", "Some", res)), None)


def _model_chain_next(ex, body, st, bb, t, c, args, frame, cont, target, nt, span):
    """`Iterator::next(&mut it)` where `it` is `inner.filter(p).map(f)` (what a `for` loop over an adaptor chain calls): the inner
    `next` (reported as the event a loop over `inner` itself would produce), the adaptors applied to its item; an item the
    filter rejects asks the inner iterator again."""
    it = strip(args[0]) if args else None
    while isinstance(it, tuple) and it[0] in ("ref", "deref", "load"):
        it = strip(it[1])
    while isinstance(it, tuple) and it[0] == "call" and norm(it[1]).endswith("::into_iter") and it[2]:
        it = strip(it[2][0])
    if not (isinstance(it, tuple) and it[0] == "call" and norm(it[1]) in ("std::iter::Iterator::map", "std::iter::Iterator::filter")):
        return
    full = (c.full or "") if c is not None else (nt or "")
    ntgt = "<%s as std::iter::Iterator>::next" % _innermost_iter_type(full, it)
    rounds = max(2, ex.unroll + 1)

    def step(s, k):
        for (s1, item, e_) in _chain_next(ex, body, s, bb, frame, it, ntgt, span, target, nt):
            if e_ is not None:
                yield (s1, e_, None)
            elif item is None:
                for r in cont(s1, _NONE):
                    yield r
            elif item == "skip":
                if k + 1 < rounds:
                    for r in step(s1, k + 1):
                        yield r
                else:
                    ex._count()
                    yield (s1, ("retry", bb), None)
            else:
                for r in cont(s1, _some(item)):
                    yield r
    for r in step(st, 0):
        yield r


def _apply_callable(ex, body, st, bb, frame, fn, argterms, target, nt, span, model):
    """a closure (inlined) or a function item (`Result::ok` as a projection, anything else as a pure call term) applied to
    argument terms; yields (state, ret, exit|None)"""
    cb = ex._closure_body(fn)
    if cb is not None:
        for r in _run_closure(ex, body, st, bb, frame, cb, fn, argterms, target, nt, span, model):
            yield r
        return
    if isinstance(fn, tuple) and fn[0] == "fn":
        proj = _project(norm(fn[1]), list(argterms))
        yield (st, proj if proj is not None else ("call", fn[1], tuple(argterms), None), None)
        return
    yield (st, ("call", "<callable>", (fn,) + tuple(argterms), fresh()), None)


def _model_find_map(ex, body, st, bb, t, c, args, frame, cont, target, nt, span):
    """Iterator::find_map(f) as the loop it is: next(); None -> None; Some(x) -> f(x): Some(y) -> Some(y), None -> again.
    With `iter::repeat_with(attempt)` in front this is the retry loop `loop { if let Some(y) = f(attempt()) { return y } }`."""
    if len(args) < 2:
        return
    it, fn = args[0], args[1]
    if ex._closure_body(fn) is None and not (isinstance(fn, tuple) and fn[0] == "fn"):
        return
    full = (c.full or "") if c is not None else ""
    ntgt = "<%s as std::iter::Iterator>::next" % _innermost_iter_type(full, it)
    rounds = max(2, ex.unroll + 1)

    def again(s, k):
        if k + 1 < rounds:
            for r in step(s, k + 1):
                yield r
        else:
            ex._count()
            yield (s, ("retry", bb), None)

    def step(s, k):
        for (s1, item, e_) in _chain_next(ex, body, s, bb, frame, it, ntgt, span, target, nt):
            if e_ is not None:
                yield (s1, e_, None)
            elif item is None:
                for r in cont(s1, _NONE):
                    yield r
            elif item == "skip":
                for r in again(s1, k):
                    yield r
            else:
                for (s2, ret, ex_) in _apply_callable(ex, body, s1, bb, frame, fn, [item], target, nt, span, "find_map"):
                    if ex_ is not None:
                        yield (s2, ex_, None)
                        continue
                    for (s3, is_some, payload) in _opt_cases(s2, ret, bb, frame, body, span):
                        if is_some:
                            for r in cont(s3, _some(payload)):
                                yield r
                        else:
                            for r in again(s3, k):
                                yield r
    for r in step(st, 0):
        yield r


def _model_option_flatten(ex, body, st, bb, t, c, args, frame, cont, target, nt, span):
    """Option<Option<T>>::flatten: None -> None, Some(inner) -> inner"""
    if not args:
        return
    for (s2, is_some, payload) in _opt_cases(st, args[0], bb, frame, body, span):
        for r in cont(s2, payload if is_some else _NONE):
            yield r


def _model_option_unwrap_or(ex, body, st, bb, t, c, args, frame, cont, target, nt, span):
    """Option::unwrap_or(o, d): Some(x) -> x, None -> d"""
    if len(args) < 2:
        return
    for (s2, is_some, payload) in _opt_cases(st, args[0], bb, frame, body, span):
        for r in cont(s2, payload if is_some else args[1]):
            yield r


def _innermost_iter_type(full, it):
    """the type whose `next` is reported: that of the innermost iterator of the chain (`vec::Drain<Rc<T>>`)"""
    m = re.match(r"^<(.*) as std::iter::Iterator>::\w+", full or "")
    ty = m.group(1) if m else "I"
    while True:
        m2 = re.match(r"^std::iter::(?:Map|Filter)<(.*), [^,]*>$", ty)
        if not m2:
            break
        ty = m2.group(1)
    return ty


def _model_iter_for_each(ex, body, st, bb, t, c, args, frame, cont, target, nt, span):
    """Iterator::for_each(f) as the loop it is: next(); None -> done; Some(x) -> f(x), again.  Adaptors in front of it
    (filter, map ..) are not interpreted: the item is whatever the chain's `next` yields."""
    it, clos = args[0], args[1] if len(args) > 1 else None
    cb = ex._closure_body(clos)
    if cb is None:
        return
    full = (c.full or "") if c is not None else ""
    if full.startswith("<std::option::IntoIter<"):
        # `opt.into_iter().for_each(f)`: at most one item - `if let Some(x) = opt { f(x) }`
        o = strip(it)
        while isinstance(o, tuple) and o[0] == "call" and norm(o[1]).endswith("::into_iter") and o[2]:
            o = strip(o[2][0])
        kn = st.known.get(("disc", o))
        for dv in ((kn,) if isinstance(kn, int) else (0, 1)):
            s1 = st.fork() if not isinstance(kn, int) else st
            s1.known[("disc", o)] = dv
            s1.events.append(Event("cond", bb, frame, body, term=("disc", o), value=dv, exp=False, span=span, is_bool=False))
            if dv == 0:
                for r in cont(s1, ("c", "()", "()")):
                    yield r
            else:
                item = ("field", "0", ("variant", "Some", o))
                for (s2, ret, ex_) in _run_closure(ex, body, s1, bb, frame, cb, clos, [item], target, nt, span, "each"):
                    if ex_ is not None:
                        yield (s2, ex_, None)
                        continue
                    for r in cont(s2, ("c", "()", "()")):
                        yield r
        return
    ntgt = "<%s as std::iter::Iterator>::next" % _innermost_iter_type(full, it)
    rounds = max(1, ex.unroll)

    def again(s, k):
        if k + 1 < rounds:
            for r in step(s, k + 1):
                yield r
        else:
            ex._count()
            yield (s, ("retry", bb), None)

    def step(s, k):
        for (s1, item, e_) in _chain_next(ex, body, s, bb, frame, it, ntgt, span, target, nt):
            if e_ is not None:
                yield (s1, e_, None)
            elif item is None:
                for r in cont(s1, ("c", "()", "()")):
                    yield r
            elif item == "skip":
                for r in again(s1, k):
                    yield r
            else:
                for (s2, ret, ex_) in _run_closure(ex, body, s1, bb, frame, cb, clos, [item], target, nt, span, "each"):
                    if ex_ is not None:
                        yield (s2, ex_, None)
                        continue
                    for r in again(s2, k):
                        yield r
    for r in step(st, 0):
        yield r


def _mk_iter_any(kind):
    def model(ex, body, st, bb, t, c, args, frame, cont, target, nt, span):
        """Iterator::any / all (f) as the loop it is: next(); None -> false/true; Some(x) -> f(x) decides or goes on.
        The iterator's `next` is reported as a call event of `<I as Iterator>::next`, as a `for` loop would."""
        it, clos = args[0], args[1] if len(args) > 1 else None
        cb = ex._closure_body(clos)
        if cb is None:
            return
        full = (c.full or "") if c is not None else ""
        m = re.match(r"^<(.*) as std::iter::Iterator>::(any|all)", full)
        ity = m.group(1) if m else "I"
        ntgt = "<%s as std::iter::Iterator>::next" % ity
        stop_on = 1 if kind == "any" else 0          # the closure result that ends the traversal
        rounds = max(1, ex.unroll)

        def step(s, k):
            res = ("call", ntgt, (("ref", it),), fresh())
            s.events.append(Event("call", bb, frame, body, target=ntgt, ntarget=norm(ntgt), args=[("ref", it)], result=res,
                                  callee=_FakeCallee(ntgt), span=span, fterm=None, pure=False))
            s.memver += 1
            # None: the traversal ended
            s0 = s.fork()
            s0.known[("disc", res)] = 0
            s0.events.append(Event("cond", bb, frame, body, term=("disc", res), value=0, exp=False, span=span, is_bool=False))
            for r in cont(s0, ("c", 1 - stop_on, "bool")):
                yield r
            s1 = s.fork()
            s1.known[("disc", res)] = 1
            s1.events.append(Event("cond", bb, frame, body, term=("disc", res), value=1, exp=False, span=span, is_bool=False))
            item = ("field", "0", ("variant", "Some", res))
            for (s2, ret, ex_) in _run_closure(ex, body, s1, bb, frame, cb, clos, [item], target, nt, span, "predicate"):
                if ex_ is not None:
                    yield (s2, ex_, None)
                    continue
                vals = [ret[1]] if isinstance(ret, tuple) and ret[0] == "c" and isinstance(ret[1], int) else [1, 0]
                for v in vals:
                    s3 = s2.fork() if len(vals) > 1 else s2
                    if len(vals) > 1:
                        key, vv = ret, v
                        while isinstance(key, tuple) and key[0] == "un" and key[1] == "Not":
                            key, vv = key[2], 1 - vv
                        kn = s3.known.get(key)
                        if kn is not None and isinstance(kn, int) and kn != vv:
                            continue
                        s3.known[key] = vv
                        s3.events.append(Event("cond", bb, frame, body, term=key, value=vv, exp=False, span=span, is_bool=True))
                    if v == stop_on:
                        for r in cont(s3, ("c", stop_on, "bool")):
                            yield r
                    elif k + 1 < rounds:
                        for r in step(s3, k + 1):
                            yield r
                    else:
                        ex._count()
                        yield (s3, ("retry", bb), None)
        for r in step(st, 0):
            yield r
    return model


def _model_try_branch(ex, body, st, bb, t, c, args, frame, cont, target, nt, span):
    """<Option<T>/Result<T,E> as Try>::branch: Continue(payload) / Break(residual)"""
    o = args[0]
    full = (c.full or "") if c is not None else ""
    is_res = "Result<" in full
    good, badv = ("Ok", "Err") if is_res else ("Some", "None")
    if isinstance(o, tuple) and o[0] == "agg" and o[2] in (good, badv):
        cases = [(st, o[2] == good)]
    else:
        cases = []
        for g in (True, False):
            s2 = st.fork()
            if is_res:
                if not _res_cond(s2, o, g, bb, frame, body, span):
                    continue
            else:
                known = s2.known.get(("disc", o))
                if known is not None and not _consistent(known, 1 if g else 0):
                    continue
                s2.known[("disc", o)] = 1 if g else 0
                s2.events.append(Event("cond", bb, frame, body, term=("disc", o), value=1 if g else 0, exp=False, span=span, is_bool=False))
            cases.append((s2, g))
    for (s2, g) in cases:
        if g:
            payload = o[3][0] if isinstance(o, tuple) and o[0] == "agg" and o[3] else ("field", "0", ("variant", good, o))
            res = ("agg", "std::ops::ControlFlow", "Continue", (payload,), 0, ("0",))
        else:
            resid = o if not is_res else ("agg", "std::result::Result", "Err", (_errp(o),), 1, ("0",))
            if not is_res:
                resid = _NONE
            res = ("agg", "std::ops::ControlFlow", "Break", (resid,), 1, ("0",))
        for r in cont(s2, res):
            yield r


def _model_from_residual(ex, body, st, bb, t, c, args, frame, cont, target, nt, span):
    for r in cont(st, args[0]):
        yield r


def _model_checked_sub(ex, body, st, bb, t, c, args, frame, cont, target, nt, span):
    """usize::checked_sub(x, k): Some(x - k) iff x >= k"""
    x, k = args[0], args[1]
    key = ("bin", "Ge", x, k)
    for v in (1, 0):
        s2 = st.fork()
        kn = s2.known.get(key)
        if kn is None:
            kn = _range_eval(s2, key)
        if kn is not None and kn != v:
            continue
        s2.known[key] = v
        _range_update(s2, key, v)
        s2.events.append(Event("cond", bb, frame, body, term=key, value=v, exp=False, span=span, is_bool=True))
        res = _some(("bin", "Sub", x, k)) if v else _NONE
        for r in cont(s2, res):
            yield r


def _model_nonzero_new(ex, body, st, bb, t, c, args, frame, cont, target, nt, span):
    """NonZero::new(x): Some(nz) iff x != 0"""
    x = args[0]
    cv = x[1] if isinstance(x, tuple) and x[0] == "c" and isinstance(x[1], int) else None
    key = ("bin", "Ne", x, ("c", 0, "usize"))
    for v in ((1, 0) if cv is None else ((1,) if cv != 0 else (0,))):
        s2 = st.fork()
        if cv is None:
            kn = _range_eval(s2, key)
            if kn is not None and kn != v:
                continue
            s2.known[key] = v
            _range_update(s2, key, v)
            s2.events.append(Event("cond", bb, frame, body, term=key, value=v, exp=False, span=span, is_bool=True))
        res = _some(("nz", x)) if v else _NONE
        for r in cont(s2, res):
            yield r


def _model_cell_replace(ex, body, st, bb, t, c, args, frame, cont, target, nt, span):
    """Cell::replace(c, v) == { let old = c.get(); c.set(v); old } ; Cell::take(c) == replace(c, Default)"""
    cell = args[0]
    val = args[1] if len(args) > 1 else ("c", 0, "default")
    old = ("call", "std::cell::Cell::<T>::get", (cell,), fresh())
    st.events.append(Event("call", bb, frame, body, target="std::cell::Cell::<T>::get", ntarget="std::cell::Cell::get",
                           args=[cell], result=old, callee=c, span=span, fterm=None, pure=False))
    st.memver += 1
    st.events.append(Event("call", bb, frame, body, target="std::cell::Cell::<T>::set", ntarget="std::cell::Cell::set",
                           args=[cell, val], result=("c", "()", "()"), callee=c, span=span, fterm=None, pure=False))
    st.memver += 1
    for r in cont(st, old):
        yield r


def _model_local_take(ex, body, st, bb, t, c, args, frame, cont, target, nt, span):
    """Option::take / Option::replace / mem::replace / mem::take on a LOCAL variable (`&mut x` of the current frame):
    the old value is the result and the local holds the new one.  Anything reached through a pointer stays opaque."""
    a0 = args[0] if args else None
    if not (isinstance(a0, tuple) and a0[0] == "ref" and len(a0) > 2 and isinstance(a0[2], tuple) and a0[2][0] == "local"):
        return
    l = a0[2][1]
    old = a0[1]
    if nt == "std::option::Option::take":
        new = _NONE
    elif nt == "std::option::Option::replace" and len(args) > 1:
        new = _some(args[1])
    elif nt == "std::mem::replace" and len(args) > 1:
        new = args[1]
    elif nt == "std::mem::take":
        # only where the default is known: an Option
        if not (isinstance(old, tuple) and (old[0] in ("okopt", "erropt") or (old[0] == "agg" and old[2] in ("Some", "None")))):
            return
        new = _NONE
    else:
        return
    st.env[l] = new
    st.events.append(Event("call", bb, frame, body, target=target, ntarget=nt, args=args, result=old, callee=c,
                           span=span, fterm=None, pure=True))
    for r in cont(st, old):
        yield r


HIGHER_ORDER = {
    "std::option::Option::take": _model_local_take,
    "std::option::Option::replace": _model_local_take,
    "std::mem::replace": _model_local_take,
    "std::mem::take": _model_local_take,
    "std::iter::Iterator::for_each": _model_iter_for_each,
    "std::sync::atomic::Atomic::fetch_update": _model_fetch_update,
    "chain::next": _model_chain_next,
    "std::iter::Iterator::any": _mk_iter_any("any"),
    "std::iter::Iterator::all": _mk_iter_any("all"),
    "std::ops::Try::branch": _model_try_branch,
    "std::ops::FromResidual::from_residual": _model_from_residual,
    "core::num::nonzero::NonZero::new": _model_nonzero_new,
    "std::num::NonZero::new": _model_nonzero_new,
    "core::num::checked_sub": _model_checked_sub,
    "std::cell::Cell::replace": _model_cell_replace,
    "std::cell::Cell::take": _model_cell_replace,
    "std::option::Option::map": _mk_option_model("map"),
    "std::option::Option::and_then": _mk_option_model("and_then"),
    "std::option::Option::is_some_and": _mk_option_model("is_some_and"),
    "std::option::Option::map_or": _mk_option_model("map_or"),
    "std::option::Option::map_or_else": _mk_option_model("map_or_else"),
    "std::option::Option::unwrap_or_else": _mk_option_model("unwrap_or_else"),
    "core::bool::then": _model_bool_then,
    "core::bool::then_some": _model_bool_then_some,
    "std::option::Option::filter": _model_option_filter,
    "std::option::Option::or_else": _mk_option_model("or_else"),
    "std::option::Option::flatten": _model_option_flatten,
    "std::option::Option::unwrap_or": _model_option_unwrap_or,
    "std::iter::Iterator::find_map": _model_find_map,
    "std::thread::LocalKey::with": _model_with,
    "std::thread::LocalKey::try_with": _model_try_with,
    "std::result::Result::unwrap_or_else": _model_unwrap_or_else,
    "std::result::Result::map_or_else": _mk_result_model("map_or_else"),
    "std::result::Result::map_or": _mk_result_model("map_or"),
    "std::result::Result::is_ok_and": _mk_result_model("is_ok_and"),
    "std::result::Result::is_err_and": _mk_result_model("is_err_and"),
    "std::result::Result::map": _mk_map("map"),
    "std::result::Result::map_err": _mk_map("map_err"),
    "std::array::from_fn": _model_repeat_n,
    "std::array::map": _model_repeat_n,
}
