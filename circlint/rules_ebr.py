"""EBR-* rules over ebr_impl (DESIGN.md 4.5)."""
import re
from .facts import AnalysisError
from .mir import Callee
from .report import RuleResult
from .sym import Exec, norm, show, strip, subterms, calls_in, event_type_args
from .cw import const_of, _uncast
from .rules_cw import _is_null_test, closure_name

P = "ebr_impl::internal::"
PIN = P + "Local::pin"
UNPIN = P + "Local::unpin"
REPIN = P + "Local::repin"
REPIN_NC = P + "Local::repin_without_collect"
TRY_ADVANCE = P + "Global::try_advance"
COLLECT = P + "Global::collect"
PUSH_BAG = P + "Global::push_bag"
FINALIZE = P + "Local::finalize"
DEFER = P + "Local::defer"
AE = "ebr_impl::epoch::AtomicEpoch::"
EP = "ebr_impl::epoch::Epoch::"
UNPROTECTED = "ebr_impl::guard::unprotected"


def cell_of(term):
    """Receiver of an AtomicEpoch operation -> ('Global.epoch'|'Local.epoch', base) or None."""
    t = strip(term)
    if isinstance(t, tuple) and t[0] == "call" and norm(t[1]).endswith("Deref>::deref") or \
            (isinstance(t, tuple) and t[0] == "call" and "Deref" in t[1]):
        t = strip(t[2][0])
    if isinstance(t, tuple) and t[0] == "field" and t[1] in ("Global.epoch", "Local.epoch"):
        return t[1], strip(t[2])
    return None


def epoch_ops(p):
    """[(idx, event, op, cell, base)] for AtomicEpoch operations on a path"""
    out = []
    for i, e in enumerate(p.events):
        if e.kind == "call" and (e.target or "").startswith(AE):
            op = e.target[len(AE):]
            if op == "new":
                continue
            c = cell_of(e.args[0])
            if c is None:
                raise AnalysisError("%s: AtomicEpoch::%s on an unrecognised cell `%s`" % (p.body.name, op, show(e.args[0])))
            out.append((i, e, op, c[0], c[1]))
    return out


def is_fence_seqcst(e):
    return e.kind == "call" and e.ntarget in ("atomic::fence", "std::sync::atomic::fence") and "SeqCst" in show(e.args[0])


def cond_on(e, pred):
    return e.kind == "cond" and pred(e.term)


def _cell_get(term, field):
    """Cell::get(&self.<field>) term?"""
    t = term
    return (isinstance(t, tuple) and t[0] == "call" and norm(t[1]) == "std::cell::Cell::get"
            and isinstance(strip(t[2][0]), tuple) and strip(t[2][0])[0] == "field" and strip(t[2][0])[1] == field)


def _set_is_noop(p, i, field, v):
    """the Cell::set at event i writes the value the cell is known (by a later test of the read just before it) to
    have held already"""
    for j in range(i - 1, -1, -1):
        e = p.events[j]
        if e.kind != "call":
            continue
        if e.ntarget == "std::cell::Cell::set" and field in show(e.args[0]):
            return False
        if e.ntarget == "std::cell::Cell::get" and _cell_get(e.result, field):
            return any(q.kind == "cond" and q.term == e.result and q.value == v for q in p.events[j:])
    return False


def _cmp_cell(e, field, op, c):
    """cond event of the form (Cell::get(field) op c)?"""
    if e.kind != "cond":
        return False
    t = e.term
    return (e.kind == "cond" and isinstance(t, tuple) and t[0] == "bin" and t[1] == op and _cell_get(t[2], field)
            and const_of(t[3]) == c)


class _CountTest:
    """a cond event read as `value of <field> at read <read>  ==  n` being `value`"""
    __slots__ = ("event", "index", "read", "value", "term")

    def __init__(self, event, index, read, value):
        self.event, self.index, self.read, self.value = event, index, read, value
        self.term = (None, None, read)

    def loc(self):
        return self.event.loc()


def _count_eq_tests(p, field, n):
    """every test on the path that decides `field == n` for some read of the field, whatever way it is written:
    `get == n`, `get - k == n - k`, `get + k == n + k`, or a later `get` that reads back what `set(get - k)` just wrote"""
    out = []
    # reads that return a value just written: get#m after set(field, G -/+ k)
    alias = {}
    last_set = None
    for e in p.events:
        if e.kind != "call":
            continue
        if e.ntarget == "std::cell::Cell::set" and field in show(e.args[0]):
            last_set = e.args[1]
        elif e.ntarget == "std::cell::Cell::get" and _cell_get(e.result, field) and last_set is not None:
            alias[e.result] = last_set
        elif e.ntarget not in ("std::cell::Cell::get", "std::cell::Cell::set") and not (e.ntarget or "").startswith("core::"):
            # any other call may run code that changes the cell
            last_set = None

    def base(x, off=0, depth=0):
        x = strip(x)
        if _cell_get(x, field):
            if x in alias and depth < 4:
                return base(alias[x], off, depth + 1)
            return x, off
        if isinstance(x, tuple) and x[0] == "bin" and x[1] in ("Sub", "Add") and const_of(x[3]) is not None:
            k = const_of(x[3])
            return base(x[2], off + (k if x[1] == "Sub" else -k), depth)
        if isinstance(x, tuple) and x[0] == "cast":
            return base(x[-1], off, depth)
        # checked_add(G, k).unwrap() / wrapping_add(G, k) and the subtracting twins
        if isinstance(x, tuple) and x[0] == "field" and x[1] == "0" and isinstance(x[2], tuple) and x[2][0] == "variant" \
                and x[2][1] == "Some":
            x = strip(x[2][2])
        if isinstance(x, tuple) and x[0] == "call" and len(x[2]) == 2 and const_of(x[2][1]) is not None:
            nm = norm(x[1])
            k = const_of(x[2][1])
            if nm in ("core::num::checked_add", "core::num::wrapping_add"):
                return base(x[2][0], off - k, depth)
            if nm in ("core::num::checked_sub", "core::num::wrapping_sub"):
                return base(x[2][0], off + k, depth)
        return None, 0
    for i, e in enumerate(p.events):
        if e.kind != "cond":
            continue
        t = e.term
        if not (isinstance(t, tuple) and t[0] == "bin" and t[1] == "Eq" and const_of(t[3]) is not None):
            continue
        g, off = base(t[2])
        if g is not None and const_of(t[3]) + off == n:
            out.append(_CountTest(e, i, g, e.value))
    return out


# ------------------------------------------------------------------------------------------
def rule_pin_validate(ctx):
    r = RuleResult("EBR-PIN-VALIDATE", ["C13", "C14"],
                   "pin: load global epoch -> publish pinned(it) to Local.epoch with a full barrier -> re-load the global "
                   "epoch -> leave the loop only if equal, else reset Local.epoch and retry")
    b = ctx.prog.body(PIN)
    r.functions.add(PIN)
    nexit = nretry = 0
    # (both arms of `if cfg!(x86 ..)`: the publication is an RMW on x86 and a store + fence elsewhere; the arm that is dead
    #  in this build is another architecture's live code)
    for p in Exec(ctx.prog, all_cfg_arms=True).paths(b):
        if p.exit[0] == "diverge":
            continue
        r.paths += 1
        outer = _count_eq_tests(p, "Local.guard_count", 0)
        if not outer:
            r.violate(PIN, "outermost", "pin does not distinguish the outermost guard (guard_count == 0)", b.loc(0))
            continue
        ops = epoch_ops(p)
        if outer[0].value == 0:
            # nested pin: must not touch the epochs
            ok = not [o for o in ops if o[2] != "load"]
            r.instance("nested pin leaves Local.epoch alone", ok)
            if not ok:
                r.violate(PIN, "nested", "a nested pin re-publishes the local epoch", ops[0][1].loc())
            continue
        # outermost pin
        loads_g = [o for o in ops if o[2] == "load" and o[3] == "Global.epoch"]
        pubs = [o for o in ops if o[3] == "Local.epoch" and o[2] in ("compare_exchange", "store", "swap")]
        if not loads_g:
            r.violate(PIN, "load", "pin does not read the global epoch", b.loc(0))
            continue
        L1 = loads_g[0]
        pub = None
        for o in pubs:
            if o[0] < L1[0]:
                continue
            val = o[1].args[2] if o[2] == "compare_exchange" else o[1].args[1]
            val = strip(val)
            if isinstance(val, tuple) and val[0] == "call" and val[1] == EP + "pinned" and strip(val[2][0]) == L1[1].result:
                pub = o
                break
        if pub is None:
            r.violate(PIN, "publish", "the value published to Local.epoch is not pinned(<global epoch just read>)",
                      L1[1].loc())
            continue
        if pub[4] != ("arg", 1, b.local_name(1)):
            r.violate(PIN, "publish", "publishes to another participant's epoch", pub[1].loc())
        # full barrier: RMW on Local.epoch, or store followed by fence(SeqCst) before the second load
        L2 = [o for o in loads_g if o[0] > pub[0]]
        barrier = pub[2] in ("compare_exchange", "swap")
        if not barrier:
            lim = L2[0][0] if L2 else len(p.events)
            barrier = any(is_fence_seqcst(e) for e in p.events[pub[0]:lim])
        if not barrier:
            r.violate(PIN, "barrier", "the publication of the local epoch is not followed by a full barrier (RMW or "
                      "fence(SeqCst)) before the global epoch is re-read: try_advance can miss this participant",
                      pub[1].loc())
        if not L2:
            r.violate(PIN, "revalidate", "pin does not re-read the global epoch after publishing its own: a participant "
                      "can announce an epoch that is already two behind", pub[1].loc())
            continue
        L2 = L2[0]
        pubval = strip(pub[1].args[2] if pub[2] == "compare_exchange" else pub[1].args[1])
        # the decision
        dec = None
        for e in p.events[L2[0]:]:
            if e.kind == "cond" and isinstance(e.term, tuple) and e.term[0] == "bin" and e.term[1] in ("Eq", "Ne"):
                a, c = e.term[2], e.term[3]
                sa, sc = show(a), show(c)
                def mentions(t, x):
                    return any(s == x for s in subterms(t))
                if (mentions(a, pubval) and mentions(c, L2[1].result)) or (mentions(c, pubval) and mentions(a, L2[1].result)):
                    dec = (e.value == 1) == (e.term[1] == "Eq")
                    break
            if e.kind == "cond" and isinstance(e.term, tuple) and e.term[0] == "call" and \
                    norm(e.term[1]) in ("std::cmp::PartialEq::eq", "std::cmp::PartialEq::ne"):
                a, c = strip(e.term[2][0]), strip(e.term[2][1])
                if {a, c} == {pubval, L2[1].result} or (pubval in (a, c)):
                    dec = (e.value == 1) == norm(e.term[1]).endswith("::eq")
                    break
        if dec is None:
            r.violate(PIN, "revalidate", "leaving the pin loop is not decided by comparing the published epoch with the "
                      "re-read global epoch", L2[1].loc())
            continue
        if p.exit[0] == "return":
            nexit += 1
            ok = dec is True
            r.instance("pin returns only when published epoch == re-read global epoch", ok)
            if not ok:
                r.violate(PIN, "exit", "pin returns although the re-read global epoch differs from the published one",
                          L2[1].loc())
        elif p.exit[0] == "retry":
            nretry += 1
            resets = [o for o in ops if o[0] > L2[0] and o[2] == "store" and o[3] == "Local.epoch"
                      and strip(o[1].args[1])[0] == "call" and strip(o[1].args[1])[1] == EP + "starting"]
            ok = dec is False and bool(resets)
            r.instance("on mismatch pin resets Local.epoch and retries", ok)
            if not ok:
                r.violate(PIN, "retry", "on an epoch mismatch pin must reset Local.epoch to `starting` and retry",
                          L2[1].loc())
    if nexit < 1 or nretry < 1:
        if not r.violations:
            r.violate(PIN, "loop", "pin has no validate-and-retry loop (exit paths=%d, retry paths=%d)" % (nexit, nretry),
                      b.loc(0))
    r.require(nexit + nretry, 2, "pin loop paths")
    return r


# ------------------------------------------------------------------------------------------
def _stalled_item(p, i, e):
    """does the path take the `Some(Err(..))` arm of the item the iterator call e (at index i) returned?"""
    res = e.result
    d = [q for q in p.events[i:] if q.kind == "cond" and q.term == ("disc", res)]
    if not d or d[0].value == 0 or (isinstance(d[0].value, tuple) and 1 in d[0].value[1]):
        return False
    item = ("field", "0", ("variant", "Some", res))
    dd = [q for q in p.events[i:] if q.kind == "cond" and q.term == ("disc", item)]
    return bool(dd) and (dd[0].value == 1 or (isinstance(dd[0].value, tuple) and 0 in dd[0].value[1]))


def _advance_strict_on_stall(ctx):
    """try_advance gives up at a stall: after the Stalled arm no further item is taken and the global epoch is not stored"""
    if hasattr(ctx, "_adv_strict"):
        return ctx._adv_strict
    b = ctx.prog.body(TRY_ADVANCE)
    ok = True
    for p in Exec(ctx.prog, unroll=2).paths(b):
        if p.exit[0] == "diverge":
            continue
        iters = [(i, e) for i, e in enumerate(p.events) if e.kind == "call" and (e.ntarget or "").endswith("Iterator>::next")]
        for (i, e) in iters:
            if not _stalled_item(p, i, e):
                continue
            later_next = [1 for (j, _) in iters if j > i]
            later_store = [o for o in epoch_ops(p) if o[0] > i and o[2] in ("store", "compare_exchange", "swap") and o[3] == "Global.epoch"]
            if later_next or later_store or p.exit[0] == "retry":
                ok = False
    ctx._adv_strict = ok
    return ok


def _only_advance_iterates(ctx):
    cs = {b.name for (b, _, _, _) in ctx.prog.callers_of("ebr_impl::sync::list::List::<T, C>::iter") if "::test" not in b.name}
    return bool(cs) and all(TRY_ADVANCE in ctx.prog.path_roots(c) or c == TRY_ADVANCE for c in cs)


def _stall_reset_on_path(p):
    """On a path of the list iterator that yields Stalled: is the position reset to the head (something stored into the iterator
    IS the head link, something stored is a fresh load OF the head link)?"""
    stores = [e for e in p.events if e.kind == "store" and "self" in show(e.place)]

    def walk(t):
        a = b_ = False
        if not isinstance(t, tuple) or not t:
            return a, b_
        if t[0] == "call" and norm(t[1]) == "ebr_impl::pointers::RawAtomic::load":
            if t[2] and "Iter.head" in show(t[2][0]):
                b_ = True
            return a, b_
        if t[0] in ("field", "deref", "load") and show(t).endswith("Iter.head") or \
                (t[0] == "field" and t[1] == "Iter.head"):
            return True, b_
        for x in (t[1:] if isinstance(t[0], str) else t):
            if isinstance(x, tuple):
                a2, b2 = walk(x)
                a, b_ = a or a2, b_ or b2
        return a, b_
    got = [walk(e.value) for e in stores]
    return any(g[0] for g in got) and any(g[1] for g in got)


def _iter_resets_on_stall(ctx):
    if hasattr(ctx, "_iter_resets"):
        return ctx._iter_resets
    nxs = [bb for n_, bb in ctx.prog.bodies.items() if n_.startswith("<ebr_impl::sync::list::Iter<") and n_.endswith("Iterator>::next")]
    ok = bool(nxs)
    seen = False
    for nx in nxs:
        for p in ctx.ex.paths(nx):
            ret = p.ret
            if p.exit[0] == "return" and isinstance(ret, tuple) and ret[0] == "agg" and ret[2] == "Some":
                inner = ret[3][0]
                if isinstance(inner, tuple) and inner[0] == "agg" and inner[2] == "Err":
                    seen = True
                    ok = ok and _stall_reset_on_path(p)
    ctx._iter_resets = ok and seen
    return ctx._iter_resets


def rule_advance(ctx):
    r = RuleResult("EBR-ADVANCE", ["C13", "C14", "C18"],
                   "try_advance: stores successor(epoch read at entry) only after a complete traversal in which no "
                   "participant is pinned in another epoch and no stall was reported; fence(SeqCst) before the traversal")
    b = ctx.prog.body(TRY_ADVANCE)
    r.functions.add(TRY_ADVANCE)
    ex2 = Exec(ctx.prog, unroll=2)
    nstore = nrefuse = 0
    for p in ex2.paths(b):
        if p.exit[0] == "diverge":
            continue
        r.paths += 1
        ops = epoch_ops(p)
        loads_g = [o for o in ops if o[2] == "load" and o[3] == "Global.epoch"]
        stores_g = [o for o in ops if o[2] in ("store", "compare_exchange", "swap") and o[3] == "Global.epoch"]
        if not loads_g:
            r.violate(TRY_ADVANCE, "load", "does not read the global epoch at entry", b.loc(0))
            continue
        L0 = loads_g[0]
        iters = [(i, e) for i, e in enumerate(p.events) if e.kind == "call" and (e.ntarget or "").endswith("Iterator>::next")]
        it_call = [(i, e) for i, e in enumerate(p.events) if e.kind == "call" and norm(e.target or "") == "ebr_impl::sync::list::List::iter"]
        if not it_call:
            r.violate(TRY_ADVANCE, "traversal", "does not traverse the participant list", b.loc(0))
            continue
        fence = any(is_fence_seqcst(e) for e in p.events[L0[0]:it_call[0][0]])
        if not fence:
            r.violate(TRY_ADVANCE, "fence", "no fence(SeqCst) between reading the global epoch and traversing the "
                      "participants", L0[1].loc())
        # classify each iteration seen on this path
        bad_seen = None
        for (i, e) in iters:
            res = e.result
            d = [q for q in p.events[i:] if q.kind == "cond" and q.term == ("disc", res)]
            if not d:
                continue
            if d[0].value == 0 or (isinstance(d[0].value, tuple) and 1 in d[0].value[1]):
                continue   # None: end of traversal
            item = ("field", "0", ("variant", "Some", res))
            dd = [q for q in p.events[i:] if q.kind == "cond" and q.term == ("disc", item)]
            if dd and (dd[0].value == 1 or (isinstance(dd[0].value, tuple) and 0 in dd[0].value[1])):
                bad_seen = ("stalled", e)
                continue
            # Ok(local): pinned in another epoch?
            lo = [o for o in ops if o[0] > i and o[2] == "load" and o[3] == "Local.epoch"]
            if not lo:
                r.violate(TRY_ADVANCE, "check", "a visited participant's epoch is not read", e.loc())
                continue
            le = lo[0][1].result
            pinned = [q for q in p.events[i:] if q.kind == "cond" and isinstance(q.term, tuple) and q.term[0] == "call"
                      and q.term[1] == EP + "is_pinned" and strip(q.term[2][0]) == le]
            if not pinned:
                r.violate(TRY_ADVANCE, "check", "a visited participant is not tested for being pinned", e.loc())
                continue
            if pinned[0].value == 0:
                continue
            # (`!=` resolves to the provided PartialEq::ne, `==` to the derived <Epoch as PartialEq>::eq)
            ne = [q for q in p.events[i:] if q.kind == "cond" and isinstance(q.term, tuple) and q.term[0] == "call"
                  and (norm(q.term[1]) in ("std::cmp::PartialEq::ne", "std::cmp::PartialEq::eq") or
                       q.term[1].endswith((" as std::cmp::PartialEq>::eq", " as std::cmp::PartialEq>::ne")))
                  and L0[1].result in [strip(x) for x in q.term[2]]]
            if not ne:
                r.violate(TRY_ADVANCE, "check", "a pinned participant's epoch is not compared with the epoch read at entry",
                          e.loc())
                continue
            other = [strip(x) for x in ne[0].term[2] if strip(x) != L0[1].result]
            cmp_ok = other and other[0][0] == "call" and other[0][1] == EP + "unpinned" and strip(other[0][2][0]) == le
            if not cmp_ok:
                r.violate(TRY_ADVANCE, "check", "the comparison is not unpinned(participant epoch) vs. entry epoch", e.loc())
            differs = (ne[0].value == 1) == ne[0].term[1].endswith("::ne")
            if differs:
                bad_seen = ("lagging", e)
        if stores_g:
            nstore += 1
            s = stores_g[0]
            val = strip(s[1].args[1] if s[2] == "store" else s[1].args[2])
            ok_val = isinstance(val, tuple) and val[0] == "call" and val[1] == EP + "successor" and strip(val[2][0]) == L0[1].result
            r.instance("global epoch := successor(epoch read at entry)", ok_val)
            if not ok_val:
                r.violate(TRY_ADVANCE, "store-value", "the value stored to the global epoch is not successor(<epoch read at "
                          "entry>) (%s)" % show(val)[:80], s[1].loc())
            ok = bad_seen is None
            if not ok and bad_seen[0] == "stalled" and _iter_resets_on_stall(ctx):
                # rely/guarantee with EBR-LIST: after a stall the iterator starts over from the head, so a traversal that goes on
                # and ends normally has visited every participant registered before the restart
                ok = True
                r.instance("the traversal goes on after a stall: the iterator restarts from the head (EBR-LIST)", True)
            r.instance("store reached only after a clean traversal", ok)
            if not ok:
                r.violate(TRY_ADVANCE, "store-after-" + bad_seen[0],
                          "the global epoch is advanced although the traversal %s" % (
                              "reported a stall (a participant may have been skipped)" if bad_seen[0] == "stalled"
                              else "found a participant pinned in another epoch"), s[1].loc())
            # the traversal ended normally before the store
            ended = [1 for (i, e) in iters if i < s[0] and any(
                q.kind == "cond" and q.term == ("disc", e.result) and (q.value == 0 or (isinstance(q.value, tuple) and 1 in q.value[1]))
                for q in p.events[i:s[0]])]
            if not ended:
                r.violate(TRY_ADVANCE, "store-early", "the global epoch is advanced before the traversal of all participants "
                          "has ended", s[1].loc())
        elif bad_seen is not None and p.exit[0] == "return":
            nrefuse += 1
            r.instance("refuses to advance: %s" % bad_seen[0], True)
    if nstore < 1 and not r.violations:
        r.violate(TRY_ADVANCE, "store", "try_advance never advances the epoch", b.loc(0))
    r.require(nrefuse, 2, "refusing paths (lagging participant, stalled traversal)")
    return r


# ------------------------------------------------------------------------------------------
def rule_epoch_writers(ctx):
    r = RuleResult("EBR-EPOCH-WRITERS", ["C14", "C16"],
                   "Global.epoch is written only by try_advance; Local.epoch only by pin/unpin/repin_without_collect through "
                   "self; re-pins store the pinned global epoch; unprotected() never reaches collection or deferral")
    prog = ctx.prog
    allowed_local = {PIN, UNPIN, REPIN_NC}
    nw = 0
    cands = set()
    for name, b in sorted(prog.bodies.items()):
        has = any((c.target or "").startswith(AE) and (c.target or "")[len(AE):] in ("store", "compare_exchange", "swap")
                  for (_, _, c) in b.calls())
        if has and not name.startswith(AE):
            # a helper introduced by refactoring (or a closure) is judged inlined in the functions that reach it
            cands.update(prog.path_roots(name))
    for name in sorted(cands):
        b = prog.body(name)
        r.functions.add(name)
        seen = set()
        for p in ctx.ex.paths(b):
            for (i, e, op, cell, base) in epoch_ops(p):
                if op == "load" or (e.bb, e.frame, cell) in seen:
                    continue
                seen.add((e.bb, e.frame, cell))
                nw += 1
                if cell == "Global.epoch":
                    ok = name == TRY_ADVANCE
                    r.instance("%s writes Global.epoch" % name, ok)
                    if not ok:
                        r.violate(name, "write:Global.epoch", "writes the global epoch outside try_advance", e.loc())
                else:
                    ok = name in allowed_local and base == ("arg", 1, b.local_name(1))
                    r.instance("%s writes Local.epoch of self" % name, ok)
                    if not ok:
                        r.violate(name, "write:Local.epoch", "writes a participant's epoch outside pin/unpin/"
                                  "repin_without_collect or not through self", e.loc())
    # also: dead cfg arm stores are not on paths; count raw MIR call sites for the floor
    raw = 0
    for name, b in prog.bodies.items():
        if name.startswith(AE):
            continue
        for bi, blk in enumerate(b.blocks):
            t = blk["term"]
            if t["k"] == "call":
                c = Callee(t)
                if (c.target or "") in (AE + "store", AE + "compare_exchange"):
                    raw += 1
    r.notes.append("AtomicEpoch store/CAS call sites in MIR (incl. dead cfg arm): %d; on live paths: %d" % (raw, nw))
    # repin_without_collect stores pinned(load Global.epoch)
    b = prog.body(REPIN_NC)
    for p in ctx.ex.paths(b):
        for (i, e, op, cell, base) in epoch_ops(p):
            if op == "store":
                v = strip(e.args[1])
                ok = (isinstance(v, tuple) and v[0] == "call" and v[1] == EP + "pinned"
                      and isinstance(strip(v[2][0]), tuple) and strip(v[2][0])[1] == AE + "load"
                      and cell_of(strip(v[2][0])[2][0]) and cell_of(strip(v[2][0])[2][0])[0] == "Global.epoch")
                r.instance("repin_without_collect stores pinned(global epoch)", ok)
                if not ok:
                    r.violate(REPIN_NC, "value", "re-pins to something other than the pinned current global epoch", e.loc())
    # unpin stores `starting`
    b = prog.body(UNPIN)
    for p in ctx.ex.paths(b):
        for (i, e, op, cell, base) in epoch_ops(p):
            if op == "store":
                v = strip(e.args[1])
                ok = isinstance(v, tuple) and v[0] == "call" and v[1] == EP + "starting"
                r.instance("unpin stores Epoch::starting()", ok)
                if not ok:
                    r.violate(UNPIN, "value", "unpin stores something other than the unpinned starting epoch", e.loc())
    # unprotected() results flow only into registry/list/queue-drop plumbing
    allowed = {"ebr_impl::sync::list::List::insert", "ebr_impl::sync::list::Entry::delete",
               "ebr_impl::sync::queue::Queue::try_pop", "ebr_impl::pointers::RawAtomic::load",
               "ebr_impl::sync::list::IsElement::finalize", "ebr_impl::pointers::RawShared::drop"}
    for (b, bi, t, c) in prog.callers_of(UNPROTECTED):
        for p in ctx.ex.paths(b):
            ures = [e.result for e in p.events if e.kind == "call" and e.target == UNPROTECTED]
            for e in p.events:
                if e.kind != "call" or e.target == UNPROTECTED:
                    continue
                if any(strip(a) in ures for a in e.args):
                    ok = norm(e.target or "") in allowed or (e.callee.name and norm(e.callee.name) in allowed)
                    r.instance("%s passes unprotected() to %s" % (b.name, norm(e.target or "?")), ok)
                    if not ok:
                        r.violate(b.name, "unprotected->" + norm(e.target or "?"),
                                  "an unprotected guard is passed to a function that may defer or collect", e.loc())
    r.require(nw, 5, "epoch write sites on live paths")
    return r


# ------------------------------------------------------------------------------------------
def rule_expiry(ctx):
    r = RuleResult("EBR-EXPIRY", ["C13"],
                   "a sealed bag expires only when global - sealed >= k, k >= 2; only expired bags are taken from the queue "
                   "outside Drop")
    prog = ctx.prog
    ie = prog.body(P + "SealedBag::is_expired")
    r.functions.add(ie.name)
    ps = [p for p in ctx.ex.paths(ie) if p.exit[0] == "return"]
    if len(ps) != 1:
        raise AnalysisError("EBR-EXPIRY: is_expired has %d return paths" % len(ps))
    ret = ps[0].ret
    k = None
    if isinstance(ret, tuple) and ret[0] == "bin" and ret[1] in ("Ge", "Gt"):
        ws = strip(ret[2])
        c = const_of(ret[3])
        if isinstance(ws, tuple) and ws[0] == "call" and ws[1] == EP + "wrapping_sub" and c is not None:
            a0, a1 = strip(ws[2][0]), strip(ws[2][1])
            if a0 == ("arg", 2, ie.local_name(2)) and "SealedBag.epoch" in show(a1):
                k = c if ret[1] == "Ge" else c + 1
    ok = k is not None and k >= 2
    r.instance("is_expired == (global - sealed >= %s)" % k, ok)
    if k is None:
        r.violate(ie.name, "shape", "is_expired is not `global.wrapping_sub(sealed) >= k` (%s)" % show(ret)[:80], ie.loc(0))
    elif k < 2:
        r.violate(ie.name, "threshold", "expiry threshold %d < 2: a bag can be reclaimed while a participant pinned in the "
                  "previous epoch still runs" % k, ie.loc(0))
    # consumers of the queue
    tpi = prog.callers_of("ebr_impl::sync::queue::Queue::<T>::try_pop_if")
    ok = [prog.home(b.name) for (b, _, _, _) in tpi] == [COLLECT]
    r.instance("try_pop_if called only from collect", ok)
    if not ok:
        r.violate("ebr_impl::sync::queue::Queue::<T>::try_pop_if", "callers", "called from %s" % [b.name for (b, _, _, _) in tpi])
    for (b, bi, t, c) in tpi:
        cl = c.closure_args()
        good = False
        for cn in cl:
            cb = prog.body(cn)
            for p in ctx.ex.paths(cb):
                if p.exit[0] != "return":
                    continue
                rt = strip(p.ret)
                if isinstance(rt, tuple) and rt[0] == "call" and rt[1] == P + "SealedBag::is_expired":
                    arg1 = strip(rt[2][1])
                    if isinstance(arg1, tuple) and arg1[0] == "call" and arg1[1] == AE + "load" and \
                            cell_of(arg1[2][0]) and cell_of(arg1[2][0])[0] == "Global.epoch" and \
                            strip(rt[2][0]) == ("arg", 2, cb.local_name(2)):
                        good = True
        r.instance("collect's predicate is is_expired(<global epoch load>) of the candidate bag", good)
        if not good:
            r.violate(COLLECT, "predicate", "bags are popped under a predicate that is not is_expired(current global epoch)",
                      b.loc(bi))
    tp = prog.callers_of("ebr_impl::sync::queue::Queue::<T>::try_pop")
    names = sorted({prog.home(b.name) for (b, _, _, _) in tp})
    ok = names in (["<ebr_impl::sync::queue::Queue<T> as std::ops::Drop>::drop"], [])
    r.instance("unconditional try_pop called only from Queue::drop", ok)
    if not ok:
        r.violate("ebr_impl::sync::queue::Queue::<T>::try_pop", "callers", "unconditional pop of sealed bags from %s" % names)
    r.require(len(r.instances), 4, "expiry obligations")
    return r


def rule_seal_fresh(ctx):
    r = RuleResult("EBR-SEAL-FRESH", ["C13"],
                   "push_bag seals with a global-epoch load made inside push_bag, after the bag was taken and after a "
                   "fence(SeqCst)")
    b = ctx.prog.body(PUSH_BAG)
    r.functions.add(PUSH_BAG)
    for p in ctx.ex.paths(b):
        if p.exit[0] != "return":
            continue
        r.paths += 1
        seal = [(i, e) for i, e in enumerate(p.events) if e.kind == "call" and e.target == P + "Bag::seal"]
        take = [(i, e) for i, e in enumerate(p.events) if e.kind == "call" and e.ntarget in ("std::mem::replace", "std::mem::take")]
        push = [(i, e) for i, e in enumerate(p.events) if e.kind == "call" and norm(e.target or "") == "ebr_impl::sync::queue::Queue::push"]
        # the bag is final when push_bag owns it: taken out of the caller's place here, or handed over by value
        byval = [("arg", i, b.local_name(i)) for i in range(1, b.arg_count + 1) if b.local_ty(i).endswith("internal::Bag")
                 and not b.local_ty(i).startswith("&")]
        if len(seal) != 1 or len(push) != 1 or (len(take) != 1 and not (byval and not take)):
            r.violate(PUSH_BAG, "shape", "expected one take of the bag (or a by-value bag), one seal and one push (found "
                      "%d/%d/%d)" % (len(take), len(seal), len(push)), b.loc(0))
            continue
        ep = strip(seal[0][1].args[1])
        ld = None
        for (i, e, op, cell, base) in epoch_ops(p):
            if op == "load" and cell == "Global.epoch" and e.result == ep:
                ld = i
        t0 = take[0][0] if take else 0
        owned = take[0][1].result if take else byval[0]
        ok = ld is not None and ld >= t0 and any(is_fence_seqcst(e) for e in p.events[t0:ld]) \
            and strip(seal[0][1].args[0]) == owned and strip(push[0][1].args[1]) == seal[0][1].result
        r.instance("seal(bag taken, global epoch loaded after take + fence)", ok)
        if not ok:
            r.violate(PUSH_BAG, "seal-epoch", "the bag is not sealed with a global epoch read after it was taken (and after a "
                      "SeqCst fence): garbage added by this thread could be stamped too old", seal[0][1].loc())
    r.require(len(r.instances), 1, "push_bag paths")
    return r


# ------------------------------------------------------------------------------------------
def rule_collect_outermost(ctx):
    r = RuleResult("EBR-COLLECT-OUTERMOST", ["C02", "C13", "C16"],
                   "collect runs only from unpin of the outermost guard inside the `collecting` region; deferred functions "
                   "run only from Bag::drop; mid-collection re-pins only inside that region")
    prog = ctx.prog
    cc = prog.callers_of(COLLECT)
    names = sorted({prog.home(b.name) for (b, _, _, _) in cc})
    ok = names == [UNPIN]
    r.instance("collect called only from unpin", ok)
    if not ok:
        r.violate(COLLECT, "callers", "collect is called from %s" % names)
    b = prog.body(UNPIN)
    r.functions.add(UNPIN)
    n = 0
    for p in ctx.ex.paths(b):
        ci = [i for i, e in enumerate(p.events) if e.kind == "call" and e.target == COLLECT]
        if not ci:
            continue
        n += 1
        i = ci[0]
        pre = p.events[:i]
        outer = any(t.value == 1 and t.index < i for t in _count_eq_tests(p, "Local.guard_count", 1))
        notcoll = any(e.kind == "cond" and _cell_get(e.term, "Local.collecting") and e.value == 0 for e in pre)
        setc = any(e.kind == "call" and e.ntarget == "std::cell::Cell::set" and "Local.collecting" in show(e.args[0])
                   and const_of(e.args[1]) == 1 for e in pre)
        # still pinned and still counted while collecting: no store to Local.epoch and no guard_count update before
        early_clear = [o for o in epoch_ops(p) if o[0] < i and o[3] == "Local.epoch" and o[2] != "load"]
        early_count = [e for e in pre if e.kind == "call" and e.ntarget == "std::cell::Cell::set"
                       and "Local.guard_count" in show(e.args[0])]
        okp = not early_clear and not early_count
        r.instance("collect runs while the participant is still pinned and counted", okp)
        if not okp:
            r.violate(UNPIN, "collect-unpinned", "the local epoch is cleared (or guard_count decremented) before collect runs: the "
                      "collector's own queue/list accesses and nested cs() calls from destructors are unprotected",
                      p.events[i].loc())
        ok = outer and notcoll and setc
        r.instance("collect under guard_count==1 && !collecting, with collecting := true", ok)
        if not ok:
            r.violate(UNPIN, "collect", "collect is reached outside the region `guard_count == 1 && !collecting` with "
                      "collecting set (outer=%s, not-collecting=%s, set=%s): user snapshots of this thread may be live"
                      % (outer, notcoll, setc), p.events[i].loc())
        # the guard passed is built from self and never dropped
        g = strip(p.events[i].args[1])
    # collecting cleared after the loop
    for p in ctx.ex.paths(b):
        if p.exit[0] != "return":
            continue
        sets = [(i, const_of(e.args[1])) for i, e in enumerate(p.events) if e.kind == "call" and
                e.ntarget == "std::cell::Cell::set" and "Local.collecting" in show(e.args[0])]
        # `collecting.replace(true)` on a path that then finds the old value true changes nothing: the flag belongs
        # to the outer unpin, which clears it
        sets = [(i, v) for (i, v) in sets if not _set_is_noop(p, i, "Local.collecting", v)]
        if sets:
            ok = sets[-1][1] == 0
            r.instance("collecting cleared before unpin returns", ok)
            if not ok:
                r.violate(UNPIN, "collecting", "unpin returns with `collecting` still set")
    # Deferred::call only from Bag::drop
    dc = prog.callers_of("ebr_impl::deferred::Deferred::call")
    names = sorted({prog.home(x.name) for (x, _, _, _) in dc})
    ok = names == ["<ebr_impl::internal::Bag as std::ops::Drop>::drop"]
    r.instance("Deferred::call only from Bag::drop", ok)
    if not ok:
        r.violate("ebr_impl::deferred::Deferred::call", "callers", "deferred functions are run from %s" % names)
    # repin_without_collect moves the thread's epoch in the middle of whatever critical sections are open on it.
    #  * F10: it may only be reached from the collecting loop of unpin and from the cascade - everything else
    #    (schedule_collection, flush, defer ..) is reached from user destructors, which may hold guards with Snapshots;
    #  * F13: even there a guard that a destructor created earlier in the collection and kept alive (parked, leaked with
    #    Box::leak) may hold Snapshots: the call must be gated by a test that the guards counted are exactly the
    #    collection's own - `guard_count == (collecting ? 1 : 0) + own`, own = 0 in unpin's loop, 1 under dispose's cs().
    OWN = {UNPIN: (0, "the guard being unpinned is the base"), "utils::dispose_general_node": (1, "dispose holds one cs() guard")}
    ex_g = Exec(prog, unroll=2)

    def gated_sites(fname, seen):
        """[(root function, `own` term or None, gate ok, event)] for every way REPIN_NC is reached through fname"""
        out = []
        for (x, bi, t_, c_) in prog.callers_of(fname):
            for rn in prog.path_roots(x.name):
                if (rn, x.name, bi, fname) in seen:
                    continue
                seen.add((rn, x.name, bi, fname))
                rb_ = prog.body(rn)
                for p in ex_g.paths(rb_):
                    ev = [(i_, e) for i_, e in enumerate(p.events) if e.kind == "call" and e.target == fname and e.bb == bi and e.body is x]
                    if not ev:
                        continue
                    i_, e = ev[0]
                    # (a test made before the collection ran says nothing about guards its destructors created)
                    lastc = max([k for k, q in enumerate(p.events[:i_]) if q.kind == "call" and q.target == COLLECT] or [-1])
                    gate = [q for k, q in enumerate(p.events[:i_]) if k > lastc and q.kind == "cond" and isinstance(q.term, tuple)
                            and q.term[0] == "bin" and q.term[1] == "Eq" and q.value == 1 and
                            any(_cell_get(z, "Local.guard_count") for z in (q.term[2], q.term[3]))]
                    out.append((rn, x, e, gate[-1] if gate else None))
                    break
        return out
    seen_g = set()
    work = [(REPIN_NC, None)]
    nrep = 0
    while work:
        (fn, _) = work.pop()
        for (rn, x, e, gate) in gated_sites(fn, seen_g):
            nrep += 1
            # the gate lives in a helper (repin_unless_foreign_guards(own)): judge `own` at the callers of that helper
            if gate is not None and rn not in OWN:
                ownp = [k for k in range(1, prog.body(rn).arg_count + 1) if prog.body(rn).local_ty(k) == "usize"]
                for (cx, cbi, ct, cc) in prog.callers_of(rn):
                    for crn in prog.path_roots(cx.name):
                        exp = OWN.get(crn)
                        okc = False
                        shown = "?"
                        for p in ex_g.paths(prog.body(crn)):
                            ev = [q for q in p.events if q.kind == "call" and q.target == rn and q.bb == cbi and q.body is cx]
                            if ev and ownp:
                                v = const_of(ev[0].args[ownp[0] - 1])
                                shown = v
                                okc = exp is not None and v == exp[0]
                                break
                        r.instance("%s repins through %s(own = %s)%s" % (crn.split("::")[-1], rn.split("::")[-1], shown,
                                                                         " - " + exp[1] if exp else ""), okc)
                        if not okc:
                            r.violate(crn, "repin_without_collect", "re-pins the thread%s: %s" % (
                                " with own = %s guards" % shown if exp is not None else "",
                                "the number of guards the caller itself holds is %s" % exp[0] if exp is not None else
                                "this function is reached from user destructors and pop_edges (dropping an Rc flushes "
                                "periodically; a full bag is pushed), which may hold guards of their own with Snapshots"),
                                cx.loc(cbi))
                continue
            ok = rn in OWN and gate is not None
            why = "gated by guard_count == own" if ok else ("NOT gated by the guard count" if rn in OWN else "reachable from user destructors")
            r.instance("repin_without_collect <- %s (%s)" % (rn.split("::")[-1], why), ok)
            if not ok:
                if rn in OWN:
                    r.violate(rn, "repin-ungated", "re-pins the thread without testing that no guard other than the "
                              "collection's own is alive: a guard a destructor created earlier in this collection and kept "
                              "(parked, leaked) loses the protection of its Snapshots", e.loc())
                else:
                    r.violate(rn, "repin_without_collect", "re-pins the thread in a function that user destructors and "
                              "pop_edges reach (dropping an Rc flushes periodically; a full bag is pushed) - also while "
                              "collecting: a destructor that holds a guard of its own loses the protection of its Snapshots",
                              e.loc())
    if nrep < 1 and not r.violations:
        r.floor_failures.append("EBR-COLLECT-OUTERMOST: no call site of repin_without_collect found")
    r.require(n, 1, "collect call paths")
    return r


# ------------------------------------------------------------------------------------------
def _runs_user_code(prog):
    """local functions that can (through direct calls) run user code: deferred functions (Deferred::call), closures given
    by the user (a call through a generic parameter), and everything that reaches those"""
    if hasattr(prog, "_user_code_fns"):
        return prog._user_code_fns
    from .rules_rec import call_graph
    g = {k: set(v) for k, v in call_graph(prog).items()}
    # dropping a value runs the Drop impls of every local type it contains (Guard -> unpin, Collector -> .. -> Bag)
    drops = {}
    for n, b in prog.bodies.items():
        if b.j.get("impl_trait") == "std::ops::Drop" and n.endswith("::drop"):
            drops[re.sub(r"<.*$", "", b.j.get("impl_self") or "")] = n
    contains = {}
    for a in prog.items["adts"]:
        contains[a["path"]] = {re.sub(r"[<>,&' ]", " ", f["ty"]) for v in a["variants"] for f in v["fields"]}

    def drop_impls_of(ty, seen=None):
        seen = seen if seen is not None else set()
        out = set()
        for word in re.sub(r"[<>,&'()\[\]; ]", " ", ty).split():
            if word in seen:
                continue
            seen.add(word)
            if word in drops:
                out.add(drops[word])
            for fty in contains.get(word, ()):
                out |= drop_impls_of(fty, seen)
        return out
    for n, b in prog.bodies.items():
        for bi in b.reachable():
            tm = b.blocks[bi]["term"]
            if tm["k"] == "drop":
                g.setdefault(n, set()).update(drop_impls_of(tm["ty"]))
            elif tm["k"] == "call":
                c = Callee(tm)
                if norm(c.target or "") == "std::mem::drop":
                    for a in c.type_args():
                        g.setdefault(n, set()).update(drop_impls_of(a["ty"]))
    seeds = set()
    for n, b in prog.bodies.items():
        if n == "ebr_impl::deferred::Deferred::call":
            seeds.add(n)
        for (_, t_, c) in b.calls():
            nt = norm(c.target or "")
            if nt in ("std::ops::FnOnce::call_once", "std::ops::FnMut::call_mut", "std::ops::Fn::call") and b.kind != "closure":
                # a call through a value of generic type F in a non-closure function: the caller's closure
                full = c.full or ""
                if re.search(r"<F as |<P as |<G as ", full):
                    seeds.add(n)
    rev = {}
    for a, outs in g.items():
        for o in outs:
            rev.setdefault(o, set()).add(a)
    reach = set(seeds)
    work = list(seeds)
    while work:
        v = work.pop()
        for a in rev.get(v, ()):
            if a not in reach:
                reach.add(a)
                work.append(a)
    # dropping a Bag / SealedBag / Global / Collector runs deferred functions
    prog._user_code_fns = reach
    return reach


def rule_cell_rmw(ctx):
    """The per-thread counters of a participant are plain Cells updated by read ... write pairs.  A pair that spans a
    call which can run user code (a collection runs destructors; destructors pin, unpin, clone handles, flush) writes back
    a stale value (F11 was `guard_count` in unpin)."""
    r = RuleResult("EBR-CELL-RMW", ["C16", "C20"],
                   "no read-modify-write of a Local counter (guard_count, handle_count, pin_count, advance_count, "
                   "manual_count, ..) spans a call that can run user code")
    prog = ctx.prog
    user = _runs_user_code(prog)
    L = P + "Local::"
    n = 0
    for name in sorted(nm for nm in prog.bodies if nm.startswith(L) and prog.bodies[nm].kind != "closure"):
        b = prog.body(name)
        # (the write may sit in a helper that is read inlined: `update(&self.count, |n| n + 1)`)
        inl = prog.auto_inline() if hasattr(prog, "auto_inline") else set()
        if not any(norm(c.target or "") == "std::cell::Cell::set" or (c.target in inl) for (_, _, c) in b.calls()):
            continue
        r.functions.add(name)
        seen = set()
        for p in Exec(prog, unroll=2).paths(b):
            r.paths += 1
            for i, e in enumerate(p.events):
                if e.kind != "call" or e.ntarget != "std::cell::Cell::set":
                    continue
                cell = outer_field(e.args[0])
                if not cell or not cell.startswith("Local."):
                    continue
                gets = [x for x in subterms(e.args[1]) if x[0] == "call" and norm(x[1]) == "std::cell::Cell::get"
                        and outer_field(x[2][0]) == cell]
                # a counter is a function of itself: what is written derives from no *other* counter of the participant
                # (mutation sweep 3: `acquire_handle` writing guard_count + 1 into handle_count - the participant of a
                # thread that reactivated under nested guards is never finalized)
                COUNTERS = ("Local.guard_count", "Local.handle_count", "Local.pin_count", "Local.advance_count", "Local.manual_count")
                if cell in COUNTERS:
                    foreign = sorted({outer_field(x[2][0]) for x in subterms(e.args[1]) if x[0] == "call" and x[2]
                                      and norm(x[1]) in ("std::cell::Cell::get", "std::cell::Cell::replace", "std::cell::Cell::take")
                                      and outer_field(x[2][0]) in COUNTERS and outer_field(x[2][0]) != cell})
                    kx = ("x", cell, e.body.name, e.bb)
                    if kx not in seen:
                        seen.add(kx)
                        r.instance("%s: what is written to %s derives from no other counter" % (name.split("::")[-1], cell), not foreign)
                        if foreign:
                            r.violate(name, "cross:" + cell, "writes a value derived from %s into %s: the two counters count "
                                      "different things (guards alive / handles alive / events since the last trigger)"
                                      % (foreign, cell), e.loc())
                if not gets:
                    continue
                gi = [j for j, q in enumerate(p.events[:i]) if q.kind == "call" and q.result == gets[0]]
                if not gi:
                    continue
                between = [q for q in p.events[gi[-1] + 1:i] if q.kind == "call" and (q.target in user)]
                key = (cell, e.body.name, e.bb, tuple(sorted({q.target for q in between})))
                if key in seen:
                    continue
                seen.add(key)
                n += 1
                ok = not between
                r.instance("%s: %s read and written back with no user code in between" % (name.split("::")[-1], cell), ok)
                if not ok:
                    r.violate(name, "stale:" + cell, "writes back a value derived from a read of %s made before a call of %s, "
                              "which can run user code (destructors pin, unpin, take handles, flush): the update of whatever "
                              "that code did to the counter is lost" % (cell, sorted({q.target.split("::")[-1] for q in between})),
                              e.loc())
    r.require(n, 3, "read-modify-write pairs on Local counters")
    return r


# ------------------------------------------------------------------------------------------
def rule_unwind_restore(ctx):
    """A user destructor may panic (and the panic be caught).  Where the collector runs user code between two halves of
    a state change, the second half must also happen on the unwind edge."""
    r = RuleResult("EBR-UNWIND-RESTORE", ["C04", "C15"],
                   "the calls that run user destructors (Global::collect in unpin, Deferred::call in Bag::drop) have an "
                   "unwind edge that restores the participant's state / runs the remaining deferred functions")
    prog = ctx.prog
    BAGDROP = "<ebr_impl::internal::Bag as std::ops::Drop>::drop"
    for (fn, callee, what, why) in (
            (UNPIN, COLLECT, "collect",
             "if a destructor run by the collection panics, unpin never clears `collecting` (nor the thread-wide flag), never "
             "decrements guard_count and never unpins: the thread stays pinned with no live guard, the global epoch cannot "
             "advance any more and nothing is reclaimed again by any thread"),
            (BAGDROP, "ebr_impl::deferred::Deferred::call", "call",
             "if one deferred function panics, the remaining ones of the bag are never run (their objects are never "
             "destructed)")):
        b = prog.body(fn)
        r.functions.add(fn)
        found = False
        ok = False
        # (the call may sit in a closure or in a helper a refactoring split off: every caller that belongs to fn)
        names = {x.name for (x, _, _, _) in prog.callers_of(callee) if fn in prog.path_roots(x.name)} | {fn}
        for name in sorted(names):
            bb_ = prog.body(name)
            for bi, blk in enumerate(bb_.blocks):
                tm = blk["term"]
                if tm["k"] != "call" or (Callee(tm).target or "") != callee:
                    continue
                found = True
                u = tm.get("unwind")
                seen = set()
                while u is not None and u not in seen:
                    seen.add(u)
                    tt = bb_.blocks[u]["term"]
                    if tt["k"] == "drop" and ("ScopeGuard" in tt["ty"] or ctx.ex._new_drop_impl(tt["ty"]) is not None):
                        ok = True
                        break
                    u = tt.get("target")
        if not found:
            raise AnalysisError("EBR-UNWIND-RESTORE: call of %s not found in %s" % (callee, fn))
        r.instance("%s: the unwind edge of %s() runs a restoring guard" % (fn.split("::")[-1] if "Bag" not in fn else "Bag::drop",
                                                                          what), ok)
        if not ok:
            r.violate(fn, "unwind:" + what, why, b.loc(0))
    return r


# ------------------------------------------------------------------------------------------
def rule_pin_progress(ctx):
    """C04 promises destruction `once all strong owners are gone and threads keep entering and leaving critical sections`.
    The drop of the last owner defers the destruction into the thread's private bag; only a flush hands that bag to the
    global queue and schedules a collection.  So some path of entering or leaving a critical section must flush every so
    often (upstream crossbeam counts pinnings for that).  Reachability in the synchronous call graph, from pin and
    unpin, of the bag hand-over - not through finalize (which needs the last handle gone) and not through user code."""
    from .rules_rec import call_graph
    r = RuleResult("EBR-PIN-PROGRESS", ["C04", "C15"],
                   "a thread that only keeps entering and leaving critical sections eventually hands its private bag over and "
                   "schedules a collection: pin or unpin reaches Local::flush / push_to_global (periodically), finalize aside")
    prog = ctx.prog
    g = call_graph(prog)
    HAND = {P + "Local::flush", P + "Local::push_to_global"}
    SKIP = {FINALIZE, P + "Local::defer"}     # defer hands over a FULL bag only - that is not progress for a few deferrals
    hit = {}
    for root in (PIN, UNPIN, P.replace("internal::", "collector::") + "LocalHandle::pin"):
        if root not in prog.bodies:
            continue
        r.functions.add(root)
        seen, work = set(), [(root, (root,))]
        while work:
            v, path = work.pop()
            if v in seen:
                continue
            seen.add(v)
            if v in HAND:
                hit[root] = path
                break
            for x in sorted(g.get(v, ())):
                if x in SKIP:
                    continue
                work.append((x, path + (x,)))
    ok = bool(hit)
    r.instance("entering/leaving a critical section reaches the bag hand-over: %s" % (
        {k.split("::")[-1]: " -> ".join(x.split("::")[-1] for x in v) for k, v in hit.items()} or "no path"), ok)
    if not ok:
        r.violate(PIN, "never-flushes", "neither pin nor unpin ever hands the private bag over (only an explicit flush, a full bag, "
                  "every 64th strong decrement or the thread's exit do): a thread that drops the last owner of an object and "
                  "then only keeps entering and leaving critical sections never destructs it", prog.body(PIN).loc(0))
    # the tell-tale: a per-participant counter that is reset but never advanced (the pinning counter upstream flushes on)
    dead = []
    writes = {}
    for name, b in prog.bodies.items():
        if not name.startswith(P):
            continue
        for p in ctx.ex.paths(b) if any(norm(c.target or "") in ("std::cell::Cell::set", "std::cell::Cell::replace")
                                        for (_, _, c) in b.calls()) else []:
            for e in p.events:
                if e.kind == "call" and e.ntarget == "std::cell::Cell::set":
                    f = outer_field(e.args[0])
                    if f and f.startswith("Local."):
                        writes.setdefault(f, set()).add(const_of(e.args[1]))
    for f, vals in sorted(writes.items()):
        if vals and all(v == 0 for v in vals) and None not in vals:
            dead.append(f)
    if dead:
        r.notes.append("counter(s) only ever reset to 0, never advanced: %s" % dead)
    r.require(len(r.instances), 1, "progress obligations")
    return r


# ------------------------------------------------------------------------------------------
def rule_flush_schedules(ctx):
    """Deferred functions run only from the collection loop of unpin, and that loop runs only when `must_collect` is
    set.  So that garbage in the global queue (this thread's earlier bags, other threads', an exited thread's) is
    eventually run by *any* surviving thread that keeps pinning and flushing, every flush - also of an empty bag - and
    every bag overflow must schedule a collection, and a collection must try to advance the epoch."""
    r = RuleResult("EBR-FLUSH-SCHEDULES", ["C15"],
                   "flush always schedules a collection (also with an empty bag); a bag overflow in defer does; "
                   "schedule_collection always sets must_collect; Guard::flush reaches Local::flush; collect tries to advance")
    prog = ctx.prog
    L = P + "Local::"
    SCHED = L + "schedule_collection"

    def sets_flag(e):
        return e.kind == "call" and e.ntarget == "std::cell::Cell::set" and "Local.must_collect" in show(e.args[0]) and \
            const_of(e.args[1]) == 1

    ex = Exec(prog, inline={SCHED})
    fb = prog.body(L + "flush")
    r.functions.add(fb.name)
    n = 0
    for p in ex.paths(fb):
        if p.exit[0] != "return":
            continue
        n += 1
        r.paths += 1
        ok = any(sets_flag(e) for e in p.events)
        r.instance("Local::flush sets must_collect on every path", ok)
        if not ok:
            r.violate(fb.name, "no-schedule", "a path of flush returns without scheduling a collection: a thread whose own bag "
                      "is empty can pin/flush/unpin forever without running the garbage other threads (or its own earlier "
                      "flushes) left in the global queue", fb.loc(0))
    sb = prog.body(SCHED)
    r.functions.add(SCHED)
    for p in ctx.ex.paths(sb):
        if p.exit[0] != "return":
            continue
        ok = any(sets_flag(e) for e in p.events)
        r.instance("schedule_collection sets must_collect on every path", ok)
        if not ok:
            r.violate(SCHED, "flag", "a path of schedule_collection does not set must_collect", sb.loc(0))
    db = prog.body(L + "defer")
    r.functions.add(db.name)
    for p in Exec(prog, inline={SCHED}, unroll=2).paths(db):
        if p.exit[0] != "return":
            continue
        pb = [i for i, e in enumerate(p.events) if e.kind == "call" and e.target == P + "Global::push_bag"]
        if not pb:
            continue
        # before or after the push: must_collect stays set until the next outermost unpin of this thread
        ok = any(sets_flag(e) for e in p.events)
        r.instance("defer: a bag overflow (push_bag) comes with scheduling a collection", ok)
        if not ok:
            r.violate(db.name, "overflow", "a full bag is pushed to the global queue without scheduling a collection",
                      p.events[pb[-1]].loc())
    gf = prog.body("ebr_impl::guard::Guard::flush")
    r.functions.add(gf.name)
    okg = False
    for p in ctx.ex.paths(gf):
        if p.exit[0] != "return":
            continue
        nullc = [e for e in p.events if e.kind == "cond" and _is_null_test(e)]
        if nullc and nullc[0].value != 1:
            continue      # unprotected guard: nothing to flush
        ok = any(e.kind == "call" and e.target == fb.name for e in p.events)
        okg = okg or ok
        r.instance("Guard::flush on a protected guard calls Local::flush", ok)
        if not ok:
            r.violate(gf.name, "flush", "Guard::flush does not reach Local::flush", gf.loc(0))
    cb = prog.body(P + "Global::collect")
    r.functions.add(cb.name)
    for p in ctx.ex.paths(cb):
        if p.exit[0] != "return":
            continue
        adv = [i for i, e in enumerate(p.events) if e.kind == "call" and e.target == TRY_ADVANCE]
        pops = [i for i, e in enumerate(p.events) if e.kind == "call" and "try_pop_if" in (e.target or "")]
        ok = bool(adv) and (not pops or adv[0] < pops[0])
        r.instance("collect tries to advance the epoch before popping", ok)
        if not ok:
            r.violate(cb.name, "advance", "a collection does not try to advance the epoch first: bags never expire when no "
                      "thread defers", cb.loc(0))
        # ... and every collection pops: whoever the participant is (also one that lives on its guard alone, as every
        # participant registered during thread tear-down does), a scheduled collection tries the global queue
        popped = bool(pops) or any(e.kind in ("call", "hof") and "try_pop" in (e.target or "") for e in p.events)
        if not popped:
            # the pop inside a closure handed to an iterator adaptor the reader does not run (`try_for_each`)
            for e in p.events:
                cal = getattr(e, "callee", None) if e.kind in ("call", "hof") else None
                for cn in (cal.closure_args() if cal is not None and hasattr(cal, "closure_args") else []):
                    if cn in prog.bodies and any("try_pop" in (c.target or "") for (_, _, c) in prog.bodies[cn].calls()):
                        popped = True
        if not popped:
            # (a path that leaves a `for _ in 0..N` loop before its first iteration is not a path: that N >= 1 is
            #  EBR-TUNABLES' clause)
            nx = [e for e in p.events if e.kind == "call" and (e.ntarget or "").endswith(("range::next", "Iterator>::next"))]
            if nx and any(q.kind == "cond" and q.term == ("disc", nx[0].result) and q.value == 0 for q in p.events):
                continue
        r.instance("collect attempts to pop the global queue on every returning path", popped)
        if not popped:
            r.violate(cb.name, "no-pop", "a path of collect returns without attempting to pop an expired bag: collections "
                      "run for such a participant reclaim nothing (a thread in tear-down that is the last user of the "
                      "library never runs its destructors)", cb.loc(0))
    r.require(n, 1, "returning paths of Local::flush")
    return r


# ------------------------------------------------------------------------------------------
def rule_live_precond(ctx):
    """A participant is alive while it has a handle OR a guard (unpin and release_handle finalize when both counts are
    zero - EBR-FINALIZE-HANDOFF).  A Guard only witnesses guard_count >= 1: cs() in a thread-local destructor that runs
    after HANDLE's pins through a temporary handle that is dropped at once, so the guard lives with handle_count == 0.
    Whatever a Guard method reaches must therefore not fail on `handle_count == 0` alone."""
    r = RuleResult("EBR-LIVE-PRECOND", ["C20", "C16"],
                   "no assertion reachable from a Guard method fails on handle_count == 0 alone: a guard may outlive the "
                   "temporary handle it was pinned through (with_handle's fallback), the state unpin handles by finalizing")
    prog = ctx.prog
    LOCAL = P + "Local::"
    entries = sorted(n for n, b in prog.bodies.items()
                     if b.kind in ("fn", "assoc_fn") and (b.j.get("impl_self") or "").endswith("guard::Guard") and
                     any((c.target or "").startswith(LOCAL) for (_, _, c) in b.calls()))
    # the counter plumbing is read inlined into the Guard method, so that an assertion after `handle_count += 1` on the
    # same path is not mistaken for a precondition
    inl = {REPIN, LOCAL + "acquire_handle", LOCAL + "release_handle"}
    ex = Exec(prog, inline=inl)
    n = 0
    for name in entries:
        b = prog.body(name)
        r.functions.add(name)
        for p in ex.paths(b):
            r.paths += 1
            if p.exit[0] != "diverge":
                continue
            pan = [i for i, e in enumerate(p.events) if e.kind == "call" and (e.ntarget or "").startswith("core::panicking::")]
            if not pan:
                continue
            pre = p.events[:pan[-1]]
            # the decisive test: the last condition before the panic
            conds = [e for e in pre if e.kind == "cond"]
            if not conds:
                continue
            # every condition of the assertion (a || b fails through both): those after the last non-assert event
            last_calls = [i for i, e in enumerate(pre) if e.kind == "call" and e.ntarget not in ("std::cell::Cell::get",)
                          and not (e.ntarget or "").startswith(("std::fmt::", "core::fmt::")) and not e.data.get("pure")]
            start = (last_calls[-1] + 1) if last_calls else 0
            tail = [e for e in pre[start:] if e.kind == "cond"]
            on_h = [e for e in tail if any(_cell_get(x, "Local.handle_count") for x in subterms(e.term))]
            on_g = [e for e in tail if any(_cell_get(x, "Local.guard_count") for x in subterms(e.term))]
            if not on_h:
                continue
            # reads of handle_count made before any write of it on this path: a precondition on entry
            first_set = [i for i, e in enumerate(pre) if e.kind == "call" and e.ntarget == "std::cell::Cell::set"
                         and "Local.handle_count" in show(e.args[0])]
            gets = {e.result: i for i, e in enumerate(pre) if e.kind == "call" and e.ntarget == "std::cell::Cell::get"
                    and _cell_get(e.result, "Local.handle_count")}
            entry_pre = all(gets.get(x, 0) < (first_set[0] if first_set else len(pre))
                            for e in on_h for x in subterms(e.term) if _cell_get(x, "Local.handle_count"))
            if not entry_pre:
                r.instance("%s: assertion on handle_count after this path incremented it" % name.split("::")[-1], True)
                continue
            n += 1
            ok = bool(on_g)
            where = on_h[-1].body.name
            r.instance("%s -> %s: failing on handle_count requires guard_count == 0 too" % (name.split("::")[-1],
                                                                                          where.split("::")[-1]), ok)
            if not ok:
                r.violate(where, "handle-assert", "asserts that the participant has a handle, but is reached from Guard::%s, and "
                          "a guard can outlive the temporary handle it was pinned through (cs() in a thread-local destructor "
                          "after HANDLE is gone): the assertion aborts the process in debug builds" % name.split("::")[-1],
                          on_h[-1].loc())
    r.require(len(entries), 2, "Guard methods that reach Local")
    if n < 1 and not r.violations:
        r.notes.append("no entry precondition on handle_count is asserted on any Guard path")
    return r


# ------------------------------------------------------------------------------------------
def rule_guard_count(ctx):
    r = RuleResult("EBR-GUARD-COUNT", ["C16", "C13"],
                   "pin increments and unpin decrements guard_count on every path; Local.epoch is cleared only for the "
                   "outermost guard; Guard::drop unpins; Guard literals only in pin/unpin/unprotected")
    prog = ctx.prog
    b = prog.body(PIN)
    r.functions.add(PIN)
    for p in ctx.ex.paths(b):
        if p.exit[0] != "return":
            continue
        sets = [e for e in p.events if e.kind == "call" and e.ntarget == "std::cell::Cell::set"
                and "Local.guard_count" in show(e.args[0])]
        ok = len(sets) == 1
        if ok:
            v = sets[0].args[1]
            ok = any(x[0] == "call" and norm(x[1]) in ("core::num::checked_add", "core::num::wrapping_add")
                     and _cell_get(x[2][0], "Local.guard_count") and const_of(x[2][1]) == 1 for x in subterms(v)) or \
                (isinstance(v, tuple) and v[0] == "bin" and v[1] == "Add" and _cell_get(v[2], "Local.guard_count") and const_of(v[3]) == 1)
        r.instance("pin: guard_count += 1", ok)
        if not ok:
            r.violate(PIN, "count", "a path of pin does not increment guard_count exactly once", b.loc(0))
        ret = p.ret
        okr = isinstance(ret, tuple) and ret[0] == "agg" and ret[1] == "ebr_impl::guard::Guard" and \
            strip(ret[3][0]) == ("arg", 1, b.local_name(1))
        if not okr:
            r.violate(PIN, "guard", "pin does not return a Guard for this participant", b.loc(0))
    b = prog.body(UNPIN)
    r.functions.add(UNPIN)
    # the collecting loop is read unrolled, so that paths that ran a collection reach the write-back
    for p in Exec(prog, unroll=2).paths(b):
        if p.exit[0] != "return":
            continue
        sets = [e for e in p.events if e.kind == "call" and e.ntarget == "std::cell::Cell::set"
                and "Local.guard_count" in show(e.args[0])]
        ok = len(sets) == 1
        if ok:
            v = sets[0].args[1]
            ok = isinstance(v, tuple) and v[0] == "bin" and v[1] == "Sub" and _cell_get(v[2], "Local.guard_count") and const_of(v[3]) == 1
            if not ok and const_of(v) is not None:
                # `set(c)` on a path that knows guard_count == c + 1
                ok = any(_cmp_cell(e, "Local.guard_count", "Eq", const_of(v) + 1) and e.value == 1 and not e.exp
                         for e in p.events[:p.events.index(sets[0])])
        r.instance("unpin: guard_count -= 1", ok)
        if not ok:
            r.violate(UNPIN, "count", "a path of unpin does not decrement guard_count exactly once", b.loc(0))
        clears = [(i, e) for (i, e, op, cell, base) in epoch_ops(p) if op == "store" and cell == "Local.epoch"]
        # the read whose value is written back decides; it must be made after the collection, which runs destructors
        # that may create guards that stay alive (F11)
        src = None
        if sets:
            v = sets[0].args[1]
            if isinstance(v, tuple) and v[0] == "bin" and v[1] == "Sub" and _cell_get(v[2], "Local.guard_count"):
                src = v[2]
            elif const_of(v) is not None:
                # `set(c)` justified by a test `guard_count == c + 1`: that test's read is the one relied upon
                known = [e for e in p.events[:p.events.index(sets[0])]
                         if _cmp_cell(e, "Local.guard_count", "Eq", const_of(v) + 1) and e.value == 1 and not e.exp]
                if known:
                    src = known[-1].term[2]
        if src is not None:
            gi = [i for i, e in enumerate(p.events) if e.kind == "call" and e.result == src]
            ci = [i for i, e in enumerate(p.events) if e.kind == "call" and e.target == COLLECT]
            fresh_read = not ci or (bool(gi) and gi[0] > ci[-1])
            r.instance("unpin: the guard count written back was read after the collection", fresh_read)
            if not fresh_read:
                r.violate(UNPIN, "stale-count", "unpin writes back the guard count it read before running the collection: a guard "
                          "that a destructor created during the collection and that is still alive is not counted (thread "
                          "unpinned under a live guard, underflow when it is dropped)", sets[0].loc())
        outer_all = _count_eq_tests(p, "Local.guard_count", 1)
        outer = [e for e in outer_all if src is None or e.read == src]
        if not outer:
            outer = outer_all
        is_outer = bool(outer) and outer[-1].value == 1
        # ... and the test that decides the clear must look at a count read after the collection too: the count written
        # back may be right while the thread is unpinned on the word of the value read on entry
        ci = [i for i, e in enumerate(p.events) if e.kind == "call" and e.target == COLLECT]
        if outer and ci and clears:
            gi = [i for i, e in enumerate(p.events) if e.kind == "call" and e.result == outer[-1].read]
            fresh_test = bool(gi) and gi[0] > ci[-1]
            r.instance("unpin: the outermost test that clears Local.epoch reads the count after the collection", fresh_test)
            if not fresh_test:
                r.violate(UNPIN, "stale-outermost", "unpin decides to clear the local epoch on the guard count it read before "
                          "running the collection: a guard that a destructor created during the collection and that is still "
                          "alive keeps the count above zero, yet the thread is published as unpinned and `pin` will not "
                          "publish an epoch again while that guard lives", clears[0][1].loc())
        ok = (len(clears) == 1) == is_outer and (not clears or clears[0][0] > p.events.index(sets[0]) if sets else False)
        r.instance("unpin: Local.epoch cleared iff outermost (outermost=%s)" % is_outer, ok)
        if not ok:
            r.violate(UNPIN, "clear", "unpin %s the local epoch although this is %sthe outermost guard" % (
                "clears" if clears else "does not clear", "" if is_outer else "not "), b.loc(0))
    # Guard::drop
    gd = prog.body("<ebr_impl::guard::Guard as std::ops::Drop>::drop")
    r.functions.add(gd.name)
    for p in ctx.ex.paths(gd):
        if p.exit[0] != "return":
            continue
        nullc = [e for e in p.events if e.kind == "cond" and _is_null_test(e)]
        un = [e for e in p.events if e.kind == "call" and e.target == UNPIN]
        nonnull = bool(nullc) and nullc[0].value == 1
        ok = (len(un) == 1) == nonnull and bool(nullc)
        r.instance("Guard::drop unpins iff local is non-null (non-null=%s)" % nonnull, ok)
        if not ok:
            r.violate(gd.name, "drop", "dropping a guard does not unpin its participant exactly once", gd.loc(0))
    # Guard literals
    n = 0
    for name, b in prog.bodies.items():
        for bi in b.reachable():
            for st in b.blocks[bi]["stmts"]:
                if st["k"] == "assign" and st["rv"]["k"] == "aggregate" and st["rv"].get("adt") == "ebr_impl::guard::Guard":
                    n += 1
                    ok = prog.home(name) in (PIN, UNPIN, UNPROTECTED)
                    r.instance("Guard literal in %s" % prog.home(name), ok)
                    if not ok:
                        r.violate(name, "guard-literal", "constructs a Guard outside pin/unpin/unprotected (not paired with "
                                  "guard_count)", b.loc(bi))
    r.require(n, 3, "Guard literals")
    return r


# ------------------------------------------------------------------------------------------
LEAKS = ("std::mem::forget", "std::mem::ManuallyDrop::new")


def _seq(p, names):
    """indices of the first occurrences, in order, of calls to the given targets; None if not in order"""
    idx = []
    start = 0
    for nm in names:
        found = None
        for i in range(start, len(p.events)):
            e = p.events[i]
            alts = nm if isinstance(nm, tuple) else (nm,)
            if e.kind == "call" and (e.target in alts or e.ntarget in alts):
                found = i
                break
        if found is None:
            return None
        idx.append(found)
        start = found + 1
    return idx


def rule_reactivate(ctx):
    r = RuleResult("EBR-REACTIVATE", ["C16"],
                   "repin = acquire_handle; unpin; forget(pin()); release_handle. reactivate_after unpins before f and re-pins "
                   "(scope guard) on both the return and the unwind edge of f")
    prog = ctx.prog
    ACQ, REL = P + "Local::acquire_handle", P + "Local::release_handle"
    b = prog.body(REPIN)
    r.functions.add(REPIN)
    for p in ctx.ex.paths(b):
        if p.exit[0] != "return":
            continue
        # (the guard of the re-pin is leaked: `forget(pin())`, or wrapped in a ManuallyDrop that nothing ever drops)
        s = _seq(p, [ACQ, UNPIN, PIN, LEAKS, REL])
        ok = s is not None
        if ok:
            f = p.events[s[3]]
            ok = strip(f.args[0]) == p.events[s[2]].result and not any(
                e.kind == "call" and (e.ntarget or "") in ("std::mem::ManuallyDrop::drop", "std::mem::ManuallyDrop::into_inner",
                                                           "std::mem::ManuallyDrop::take") for e in p.events[s[3]:])
            for nm in (ACQ, UNPIN, PIN, REL):
                ok = ok and len([e for e in p.events if e.kind == "call" and e.target == nm]) == 1
        r.instance("repin: acquire_handle < unpin < forget(pin()) < release_handle", ok)
        if not ok:
            r.violate(REPIN, "sequence", "repin is not acquire_handle; unpin; forget(pin()); release_handle", b.loc(0))
    ra = prog.body("ebr_impl::guard::Guard::reactivate_after")
    r.functions.add(ra.name)
    for p in ctx.ex.paths(ra):
        if p.exit[0] != "return":
            continue
        nullc = [e for e in p.events if e.kind == "cond" and _is_null_test(e)]
        if nullc and nullc[0].value != 1:
            continue   # unprotected guard: nothing to do
        fcall = [i for i, e in enumerate(p.events) if e.kind == "call" and "call_once" in (e.target or "") and
                 strip(e.args[0]) == ("arg", 2, ra.local_name(2))]
        # the re-pin runs from a scope guard, or from the Drop impl of an RAII witness a refactoring introduced
        sg = [i for i, e in enumerate(p.events) if e.kind == "scopeguard_drop" or
              (e.kind == "enter" and (e.target or "").endswith("as std::ops::Drop>::drop"))]
        sg = [i for i in sg if not fcall or i > fcall[0]]
        s1 = _seq(p, [ACQ, UNPIN])
        ok = bool(fcall) and bool(sg) and s1 is not None and s1[1] < fcall[0] < sg[0]
        if ok:
            after = p.events[sg[0]:]
            pins = [i for i, e in enumerate(after) if e.kind == "call" and e.target == PIN]
            fg = [i for i, e in enumerate(after) if e.kind == "call" and e.ntarget in LEAKS]
            rel = [i for i, e in enumerate(after) if e.kind == "call" and e.target == REL]
            ok = len(pins) == 1 and len(fg) == 1 and len(rel) == 1 and pins[0] < fg[0] < rel[0] and \
                strip(after[fg[0]].args[0]) == after[pins[0]].result
        r.instance("reactivate_after: acquire, unpin, f(), then (scope guard) forget(pin()), release", ok)
        if not ok:
            r.violate(ra.name, "sequence", "reactivate_after does not unpin before f and re-pin (forget(pin()); "
                      "release_handle) after it through a scope guard", ra.loc(0))
    # unwind edge: the call of f has a cleanup target that drops the ScopeGuard local
    okw = False
    # (the call of the user's closure may sit in a helper a refactoring shared between repin and reactivate_after: every
    # helper body that reactivate_after reaches through refactoring helpers is searched)
    cands = [ra] + [prog.bodies[h] for h in prog.auto_inline() if ra.name in prog.path_roots(h)]
    for rab in cands:
      for bi, blk in enumerate(rab.blocks):
        t = blk["term"]
        if t["k"] == "call" and "call_once" in (Callee(t).target or "") and rab.kind != "closure":
            u = t.get("unwind")
            seen = set()
            while u is not None and u not in seen:
                seen.add(u)
                tt = rab.blocks[u]["term"]
                if tt["k"] == "drop" and "ScopeGuard" in tt["ty"]:
                    okw = True
                    break
                if tt["k"] == "drop":
                    db = ctx.ex._new_drop_impl(tt["ty"])
                    if db is not None and {PIN, P + "Local::release_handle"} <= {c.target for (_, _, c) in db.calls()}:
                        okw = True      # an RAII witness whose Drop re-pins and releases the handle
                        break
                u = tt.get("target")
    r.instance("reactivate_after: the scope guard is dropped on the unwind edge of f()", okw)
    if not okw:
        r.violate(ra.name, "unwind", "if f panics the thread is not re-pinned (no scope guard dropped on the unwind edge)",
                  ra.loc(0))
    # reactivate -> repin
    rb = prog.body("ebr_impl::guard::Guard::reactivate")
    ok = any(c.target == REPIN for (_, _, c) in rb.calls())
    r.instance("reactivate calls Local::repin", ok)
    if not ok:
        r.violate(rb.name, "repin", "reactivate does not repin")
    r.require(len(r.instances), 4, "reactivation obligations")
    return r


# ------------------------------------------------------------------------------------------
def rule_finalize_handoff(ctx):
    r = RuleResult("EBR-FINALIZE-HANDOFF", ["C15", "C20"],
                   "finalize hands the local bag to the global queue (under a pin, re-entry guarded) before unlinking the "
                   "participant; defer re-queues a rejected Deferred after push_bag; Bag::drop calls every element")
    prog = ctx.prog
    b = prog.body(FINALIZE)
    r.functions.add(FINALIZE)
    for p in ctx.ex.paths(b):
        if p.exit[0] != "return":
            continue
        s = _seq(p, [PIN, P + "Local::push_to_global", "ebr_impl::sync::list::Entry::delete"])
        ok = s is not None
        if ok:
            ptg = p.events[s[1]]
            ok = strip(ptg.args[1]) == p.events[s[0]].result
            hs = [(i, const_of(e.args[1]), e.args[1]) for i, e in enumerate(p.events) if e.kind == "call" and
                  e.ntarget == "std::cell::Cell::set" and "Local.handle_count" in show(e.args[0])]
            # the count is put back to zero - or to the value found (read before the temporary 1 was written)
            back = len(hs) == 2 and (hs[1][1] == 0 or any(
                e.kind == "call" and e.ntarget == "std::cell::Cell::get" and e.result == strip(hs[1][2])
                and "Local.handle_count" in show(e.args[0]) for e in p.events[:hs[0][0]]))
            ok = ok and len(hs) == 2 and hs[0][1] == 1 and hs[0][0] < s[0] and back and hs[1][0] > s[1]
        r.instance("finalize: handle_count:=1; pin; push_to_global; handle_count:=0; entry.delete", ok)
        if not ok:
            r.violate(FINALIZE, "handoff", "finalize must push the local bag to the global queue under its own pin (with the "
                      "temporary handle_count = 1 against re-entry) before marking the participant deleted", b.loc(0))
    # finalize is reached from unpin (outermost guard, no handle left) and from release_handle (last handle, not pinned)
    ub = prog.body(UNPIN)
    nfin = 0
    for p in ctx.ex.paths(ub):
        if p.exit[0] != "return":
            continue
        outer = _count_eq_tests(p, "Local.guard_count", 1)
        hz = [e for e in p.events if _cmp_cell(e, "Local.handle_count", "Eq", 0)]
        fin = [e for e in p.events if e.kind == "call" and e.target == FINALIZE]
        # (the last test decides: unpin re-reads the count after the collection, F11)
        if outer and outer[-1].value == 1:
            if not hz:
                r.violate(UNPIN, "finalize", "the outermost unpin does not test whether the last handle is gone", ub.loc(0))
                continue
            want = 1 if hz[-1].value == 1 else 0
            nfin += 1
            ok = len(fin) == want
            r.instance("unpin (outermost): handle_count==0 is %s -> %d finalize call(s)" % (bool(want), len(fin)), ok)
            if not ok:
                r.violate(UNPIN, "finalize", "dropping the last guard of a participant whose handles are all gone does not "
                          "finalize it: its bag is never handed over and it is never unregistered", hz[-1].loc())
        elif fin:
            r.violate(UNPIN, "finalize", "a nested unpin finalizes the participant", fin[0].loc())
    rb = prog.body(P + "Local::release_handle")
    for p in ctx.ex.paths(rb):
        if p.exit[0] != "return":
            continue
        g0 = _count_eq_tests(p, "Local.guard_count", 0)
        h1 = _count_eq_tests(p, "Local.handle_count", 1)
        fin = [e for e in p.events if e.kind == "call" and e.target == FINALIZE]
        last = bool(g0) and g0[-1].value == 1 and bool(h1) and h1[-1].value == 1
        undecided = not g0 or (g0[-1].value == 1 and not h1)
        if undecided:
            r.violate(rb.name, "finalize", "release_handle does not decide `guard_count == 0 && handle_count == 1`", rb.loc(0))
            continue
        nfin += 1
        ok = len(fin) == (1 if last else 0)
        r.instance("release_handle: last handle and unpinned is %s -> %d finalize call(s)" % (last, len(fin)), ok)
        if not ok:
            r.violate(rb.name, "finalize", "releasing the last handle of an unpinned participant must finalize it exactly once "
                      "(and only then)", rb.loc(0))
    if nfin < 4:
        r.floor_failures.append("EBR-FINALIZE-HANDOFF: found %d finalize decision paths, expected at least 4" % nfin)
    # push_to_global pushes when non-empty
    b = prog.body(P + "Local::push_to_global")
    for p in ctx.ex.paths(b):
        if p.exit[0] != "return":
            continue
        emp = [e for e in p.events if e.kind == "cond" and isinstance(e.term, tuple) and e.term[0] == "call"
               and e.term[1] == P + "Bag::is_empty"]
        pb = [e for e in p.events if e.kind == "call" and e.target == PUSH_BAG]
        ok = bool(emp) and ((emp[0].value == 0) == (len(pb) == 1))
        r.instance("push_to_global pushes iff the bag is non-empty", ok)
        if not ok:
            r.violate(b.name, "push", "push_to_global does not push a non-empty bag", b.loc(0))
    # defer: re-queue
    b = prog.body(DEFER)
    r.functions.add(DEFER)
    ex2 = Exec(prog, unroll=2)
    seen_retry = False
    for p in ex2.paths(b):
        if p.exit[0] == "diverge":
            continue
        tps = [(i, e) for i, e in enumerate(p.events) if e.kind == "call" and e.target == P + "Bag::try_push"]
        for k in range(len(tps) - 1):
            (i1, e1), (i2, e2) = tps[k], tps[k + 1]
            seen_retry = True
            payload = ("field", "0", ("variant", "Err", e1.result))
            pb = [e for e in p.events[i1:i2] if e.kind == "call" and e.target == PUSH_BAG]
            ok = strip(e2.args[1]) == payload and len(pb) == 1
            r.instance("defer: on a full bag push_bag then retry with the rejected Deferred", ok)
            if not ok:
                r.violate(DEFER, "requeue", "when the bag is full the rejected Deferred is not re-queued after push_bag "
                          "(it would be dropped without being called)", e2.loc())
        if p.exit[0] == "return" and tps:
            last = tps[-1]
            out = [q for q in p.events[last[0]:] if q.kind == "cond" and q.term == ("disc", last[1].result)]
            ok = bool(out) and (out[0].value == 0 or (isinstance(out[0].value, tuple) and 1 in out[0].value[1]))
            if not ok:
                r.violate(DEFER, "return", "defer returns although the last try_push was rejected", last[1].loc())
    if not seen_retry:
        r.violate(DEFER, "requeue", "defer has no retry after a rejected try_push")
    # try_push returns the Deferred on failure
    b = prog.body(P + "Bag::try_push")
    for p in ctx.ex.paths(b):
        if p.exit[0] != "return":
            continue
        ret = p.ret
        pushes = [e for e in p.events if e.kind == "call" and norm(e.target or "") == "std::vec::Vec::push"]
        if isinstance(ret, tuple) and ret[0] == "agg" and ret[2] == "Err":
            ok = strip(ret[3][0]) == ("arg", 2, b.local_name(2)) and not pushes
        else:
            ok = len(pushes) == 1 and strip(pushes[0].args[1]) == ("arg", 2, b.local_name(2))
        r.instance("try_push: Ok after push / Err(deferred) untouched", ok)
        if not ok:
            r.violate(b.name, "try_push", "try_push loses the deferred function", b.loc(0))
    # Bag::drop calls each
    b = prog.body("<ebr_impl::internal::Bag as std::ops::Drop>::drop")
    r.functions.add(b.name)
    okc = False
    for p in ctx.ex.paths(b):
        nx = [(i, e) for i, e in enumerate(p.events) if e.kind == "call" and (e.ntarget or "").endswith("Iterator>::next")]
        for (i, e) in nx:
            d = [q for q in p.events[i:] if q.kind == "cond" and q.term == ("disc", e.result)]
            if d and d[0].value == 1:
                calls = [q for q in p.events[i:] if q.kind == "call" and q.target == "ebr_impl::deferred::Deferred::call"]
                item = ("field", "0", ("variant", "Some", e.result))
                if calls and strip(calls[0].args[0]) == item:
                    okc = True
                else:
                    r.violate(b.name, "call", "an element drained from the bag is not called", e.loc())
    r.instance("Bag::drop calls every drained Deferred", okc)
    if not okc and not r.violations:
        r.violate(b.name, "call", "Bag::drop does not call the deferred functions")
    r.require(len(r.instances), 5, "hand-off obligations")
    return r


def rule_queue_drop(ctx):
    r = RuleResult("EBR-QUEUE-DROP", ["C15"],
                   "Queue::drop takes every remaining element out of its node (so that sealed bags still queued at collector "
                   "teardown are dropped, i.e. their deferred functions run) and frees the sentinel")
    prog = ctx.prog
    qd = prog.body("<ebr_impl::sync::queue::Queue<T> as std::ops::Drop>::drop")
    r.functions.add(qd.name)
    # functions reachable from Queue::drop inside queue.rs
    reach = set()
    work = [qd.name]
    while work:
        f = work.pop()
        if f in reach:
            continue
        reach.add(f)
        b = prog.bodies.get(f)
        if b is None:
            continue
        for (_, _, c) in b.calls():
            if c.target in prog.bodies and prog.bodies[c.target].file().endswith("queue.rs"):
                work.append(c.target)
            for cn in c.closure_args():
                work.append(cn)
    takes = []
    for f in reach:
        b = prog.bodies.get(f)
        for (bi, t, c) in b.calls():
            nt = norm(c.target or "")
            if nt in ("std::mem::MaybeUninit::assume_init_read", "std::mem::MaybeUninit::assume_init_drop",
                      "std::mem::MaybeUninit::assume_init", "std::ptr::drop_in_place"):
                takes.append((f, nt))
    ok = bool(takes)
    r.instance("Queue::drop reaches a payload-taking operation on Node.data (%s)" % sorted({t[1].split("::")[-1] for t in takes}), ok)
    if not ok:
        r.violate(qd.name, "payload", "dropping the queue frees its nodes without taking the elements out of their MaybeUninit "
                  "slots: bags still queued at teardown are discarded and their deferred functions never run", qd.loc(0))
    # it loops until empty and frees the sentinel
    loops = bool(qd.back_edges())
    frees = any(norm(c.target or "") == "ebr_impl::pointers::RawShared::drop" for (_, _, c) in qd.calls())
    r.instance("Queue::drop drains in a loop", loops)
    if not loops:
        r.violate(qd.name, "loop", "Queue::drop does not drain the queue in a loop", qd.loc(0))
    r.instance("Queue::drop frees the sentinel", frees)
    if not frees:
        r.violate(qd.name, "sentinel", "the remaining sentinel node is never freed", qd.loc(0))
    # Global owns the queue by value, so dropping the last Collector drops it
    ok = any(a["path"] == "ebr_impl::internal::Global" and any(f["name"] == "queue" and f["ty"].startswith("ebr_impl::sync::queue::Queue<")
             for f in a["variants"][0]["fields"]) for a in prog.items["adts"])
    r.instance("Global holds the queue by value", ok)
    if not ok:
        r.violate("ebr_impl::internal::Global", "queue", "the garbage queue is not owned by value by Global")
    return r


def rule_no_forget(ctx):
    r = RuleResult("EBR-NO-FORGET", ["C15", "C20"],
                   "no mem::forget / ManuallyDrop::new at Bag, SealedBag, Deferred, LocalHandle, Collector (one tabled "
                   "exception); Deferred is neither Clone nor Copy and call takes self by value")
    prog = ctx.prog
    WATCH = ("ebr_impl::internal::Bag", "ebr_impl::internal::SealedBag", "ebr_impl::deferred::Deferred",
             "ebr_impl::collector::LocalHandle", "ebr_impl::collector::Collector")
    EXC = {("ebr_impl::internal::Local::register", "std::mem::ManuallyDrop::new", "ebr_impl::collector::Collector"):
           "Local.collector is a ManuallyDrop<Collector> read back with ptr::read and dropped in finalize"}
    control = 0
    for name, b in prog.bodies.items():
        for (bi, t, c) in b.calls():
            nt = norm(c.target or "")
            if nt not in ("std::mem::forget", "std::mem::ManuallyDrop::new"):
                continue
            ta = c.type_args()
            adt = ta[0].get("adt") if ta else None
            control += 1
            if adt in WATCH:
                key = (prog.home(name), nt, adt)
                ok = key in EXC
                r.instance("%s: %s::<%s>%s" % (name, nt, adt, " (exception: %s)" % EXC[key] if ok else ""), ok)
                if not ok:
                    r.violate(name, "%s<%s>" % (nt.split("::")[-1], adt.split("::")[-1]),
                              "a %s is forgotten: its deferred functions / registration would never run" % adt.split("::")[-1],
                              b.loc(bi))
    r.notes.append("positive control: %d mem::forget / ManuallyDrop::new call sites seen in the crate" % control)
    if control < 8:
        raise AnalysisError("EBR-NO-FORGET: positive control failed (%d forget/ManuallyDrop::new sites seen)" % control)
    # finalize reads the collector back and drops it
    fb = prog.body(FINALIZE)
    # (finalize itself, or the helpers a refactoring split it into - which are read inlined wherever paths are followed)
    fbs = [fb] + [prog.bodies[h] for h in prog.auto_inline() if FINALIZE in prog.path_roots(h) and prog.bodies[h].kind != "closure"]
    rd = any(norm(c.target or "") == "std::ptr::read" for x in fbs for (_, _, c) in x.calls())
    dr = any(blk["term"]["k"] == "drop" and "Collector" in blk["term"]["ty"] for x in fbs for blk in x.blocks if not blk["cleanup"]) or \
        any(norm(c.target or "") == "std::mem::drop" and "Collector" in c.full for x in fbs for (_, _, c) in x.calls())
    ok = rd and dr
    r.instance("finalize reads the ManuallyDrop<Collector> back and drops it", ok)
    if not ok:
        r.violate(FINALIZE, "collector", "the participant's Collector reference is never dropped")
    for tr in ("std::clone::Clone", "std::marker::Copy"):
        bad = [i for i in prog.items["impls"] if i.get("self_adt") == "ebr_impl::deferred::Deferred" and i.get("trait") == tr]
        ok = not bad
        r.instance("Deferred does not implement %s" % tr, ok)
        if not ok:
            r.violate("ebr_impl::deferred::Deferred", tr, "Deferred can be duplicated: a deferred function could run twice")
    cs_ = [f for f in prog.items["fns"] if f["path"] == "ebr_impl::deferred::Deferred::call"]
    ok = bool(cs_) and cs_[0]["inputs"][0].strip() == "ebr_impl::deferred::Deferred"
    r.instance("Deferred::call takes self by value", ok)
    if not ok:
        r.violate("ebr_impl::deferred::Deferred::call", "receiver", "call must consume the Deferred")
    return r


def rule_deferred_inline(ctx):
    r = RuleResult("EBR-DEFERRED-INLINE", ["C15"],
                   "Deferred::new stores the closure in place only if both its size and its alignment fit; otherwise boxes it; "
                   "each arm installs the matching `call`")
    prog = ctx.prog
    b = prog.body("ebr_impl::deferred::Deferred::new")
    r.functions.add(b.name)
    calls = {n: x for n, x in prog.bodies.items() if n.startswith("ebr_impl::deferred::Deferred::new::") and x.kind == "fn"}
    if len(calls) != 2:
        raise AnalysisError("EBR-DEFERRED-INLINE: expected two nested `call` functions, found %d" % len(calls))
    # classify the nested call fns: reads F directly / reads Box<F>
    kinds = {}
    for n, x in calls.items():
        rd = [c for (_, _, c) in x.calls() if norm(c.target or "") == "std::ptr::read"]
        if len(rd) < 1:
            raise AnalysisError("EBR-DEFERRED-INLINE: nested call does not ptr::read its storage")
        # (how often it reads and what it invokes is judged below; the first read - of `raw` - tells the kind)
        ty = rd[0].type_args()[0]["ty"]
        kinds[(n.split("@L")[0], x.span["line"])] = "boxed" if ty.startswith("std::boxed::Box<") else "inline"
    n_in = n_box = 0
    for p in ctx.ex.paths(b):
        if p.exit[0] != "return":
            continue
        r.paths += 1
        writes = [e for e in p.events if e.kind == "call" and norm(e.target or "") == "std::ptr::write"]
        if len(writes) != 1:
            r.violate(b.name, "write", "expected exactly one ptr::write per path", b.loc(0))
            continue
        wty = event_type_args(writes[0])[0]
        inline = not wty.startswith("std::boxed::Box<")
        conds = [e for e in p.events if e.kind == "cond" and isinstance(e.term, tuple) and e.term[0] == "bin"]
        size_ok = align_ok = None
        for e in conds:
            t = e.term
            s = show(t)
            l, rr = strip(t[2]), strip(t[3])
            def is_(x, fn, ty):
                return isinstance(x, tuple) and x[0] == "call" and norm(x[1]) == fn
            if t[1] in ("Le", "Lt", "Ge", "Gt"):
                names = (norm(l[1]) if isinstance(l, tuple) and l[0] == "call" else None,
                         norm(rr[1]) if isinstance(rr, tuple) and rr[0] == "call" else None)
                if names == ("std::mem::size_of", "std::mem::size_of") and t[1] == "Le":
                    size_ok = e.value == 1
                if names == ("std::mem::align_of", "std::mem::align_of") and t[1] == "Le":
                    align_ok = e.value == 1
        # which call fn is installed
        ret = p.ret
        installed = None
        for x in subterms(ret):
            if x[0] == "cast" and isinstance(x[2], tuple) and x[2][0] == "fn":
                installed = x[2][1]
            if x[0] == "fn" and x[1].startswith("ebr_impl::deferred::Deferred::new::call"):
                installed = x[1]
        inst_kind = _installed_kind(prog, b, p, kinds)
        if inline:
            n_in += 1
            ok = size_ok is True and align_ok is True and inst_kind == "inline"
            r.instance("in-place write::<F> only under size<= && align<= ; call::<F> reads F", ok)
            if not ok:
                r.violate(b.name, "inline", "the closure is written in place without both the size and the alignment test "
                          "having passed (size=%s, align=%s), or with the wrong `call` (%s)" % (size_ok, align_ok, inst_kind),
                          writes[0].loc())
        else:
            n_box += 1
            boxed = [e for e in p.events if e.kind == "call" and norm(e.target or "") == "std::boxed::Box::new"]
            ok = len(boxed) == 1 and inst_kind == "boxed" and strip(writes[0].args[1]) == boxed[0].result
            r.instance("otherwise Box<F> is written; call reads Box<F>", ok)
            if not ok:
                r.violate(b.name, "boxed", "the boxed arm does not store Box::new(f) with the Box-reading `call`", writes[0].loc())
    if n_in < 1 or n_box < 1:
        if not r.violations:
            r.violate(b.name, "arms", "Deferred::new lacks the in-place or the boxed arm (inline=%d boxed=%d)" % (n_in, n_box))
    # the way back: each nested `call` moves the closure out of the storage exactly once and invokes exactly that value
    # exactly once (the boxed one also frees the box); Deferred::call invokes the stored fn pointer once on its own data
    for n, x in sorted(calls.items()):
        r.functions.add(n)
        kind = kinds[(n.split("@L")[0], x.span["line"])]
        ps_ = [p for p in ctx.ex.paths(x) if p.exit[0] == "return"]
        ok = len(ps_) == 1
        why = "more than one path"
        if ok:
            p = ps_[0]
            rd = [e for e in p.events if e.kind == "call" and norm(e.target or "") == "std::ptr::read"]
            inv = [e for e in p.events if e.kind == "call" and norm(e.target or "") == "std::ops::FnOnce::call_once"]
            ok = len(rd) == 1 and len(inv) == 1 and strip(rd[0].args[0]) is not None and \
                any(y == ("arg", 1, x.local_name(1)) for y in subterms(rd[0].args[0])) and \
                any(y == rd[0].result for y in list(subterms(inv[0].args[0])) + [strip(inv[0].args[0])])
            why = "reads=%d invocations=%d (or the value invoked is not the one read from `raw`)" % (len(rd), len(inv))
            if ok and kind == "boxed":
                fr = [e for e in p.events if e.kind == "call" and norm(e.target or "").endswith("Box<T, A> as std::ops::Drop>::drop")
                      and any(y == rd[0].result for y in subterms(e.args[0]))] + \
                     [e for e in p.events if e.kind == "drop" and any(y == rd[0].result for y in [strip(e.value)] + list(subterms(e.value)))]
                ok = bool(fr)
                why = "the box read back is never freed"
        r.instance("nested call (%s): read the closure from raw once, invoke it once%s" % (kind, ", free the box" if kind == "boxed" else ""), ok)
        if not ok:
            r.violate(n, "call-body", "the `call` installed for the %s storage does not move the closure out once and invoke "
                      "exactly it once: %s" % (kind, why), x.loc(0))
    dc = prog.body("ebr_impl::deferred::Deferred::call")
    r.functions.add(dc.name)
    ps_ = [p for p in ctx.ex.paths(dc) if p.exit[0] == "return"]
    ok = len(ps_) == 1
    if ok:
        ind = [e for e in ps_[0].events if e.kind == "call" and (e.ntarget or "") == "<fnptr>"]
        ok = len(ind) == 1 and "self.data" in show(ind[0].args[0])
    r.instance("Deferred::call == (self.call)(self.data.as_mut_ptr().cast()) once", ok)
    if not ok:
        r.violate(dc.name, "call", "Deferred::call does not invoke the stored function exactly once on its own storage", dc.loc(0))
    r.require(n_in + n_box, 2, "storage arms")
    return r


def _installed_kind(prog, b, p, kinds):
    """Which nested `call` function is stored into the returned Deferred on this path: the fn-item constant that
    appears in the MIR blocks of the path, matched to the nested fn by def path and definition line."""
    blocks = {bb for (nm, bb) in p.blocks}
    found = set()
    for bi in sorted(blocks):
        for st in b.blocks[bi]["stmts"]:
            if st["k"] != "assign":
                continue
            rv = st["rv"]
            ops = []
            if rv["k"] in ("cast", "use"):
                ops.append(rv["op"])
            if rv["k"] == "aggregate":
                ops.extend(rv["fields"])
            for o in ops:
                c = o.get("const")
                if c and c.get("fn", "").startswith("ebr_impl::deferred::Deferred::new::"):
                    key = (c["fn"], c.get("fn_def_line"))
                    if key in kinds:
                        found.add(kinds[key])
                    else:
                        same = [v for (n, ln), v in kinds.items() if n == c["fn"]]
                        if len(same) == 1:
                            found.add(same[0])
    if len(found) == 1:
        return found.pop()
    return None


def rule_tls(ctx):
    r = RuleResult("EBR-TLS", ["C20"],
                   "LocalKey::with is used only on keys whose value needs no drop; the participant handle is reached through "
                   "try_with with a fallback registration on the same collector")
    prog = ctx.prog
    consts = prog.consts
    n = 0
    for name, b in prog.bodies.items():
        for (bi, t, c) in b.calls():
            nt = norm(c.target or "")
            if nt not in ("std::thread::LocalKey::with", "std::thread::LocalKey::try_with"):
                continue
            n += 1
            # which key: by the value type of the LocalKey (the key constant itself is behind a promoted)
            ta = c.type_args()
            vty = ta[0]["ty"] if ta else None
            keys = [(k, info) for k, info in consts.items() if info.get("tls_inner") == vty]
            if not keys:
                raise AnalysisError("EBR-TLS: cannot identify the thread-local key of type %s used in %s" % (vty, name))
            key = ",".join(k for k, _ in keys)
            nd = any(info["tls_inner_needs_drop"] for _, info in keys)
            info = keys[0][1]
            if nt.endswith("::with"):
                ok = not nd
                r.instance("%s: %s.with on a key that needs no drop (%s)" % (name, key, info["tls_inner"]), ok)
                if not ok:
                    r.violate(name, "with:" + key, "LocalKey::with on a key with a destructor panics when called during or "
                              "after thread-local destruction; use try_with with a fallback", b.loc(bi))
            else:
                r.instance("%s: %s.try_with" % (name, key), True)
    # with_handle: try_with(..).unwrap_or_else(|_| f(&collector().register()))
    wh = prog.body("ebr_impl::default::with_handle")
    r.functions.add(wh.name)
    okf = False
    for p in ctx.ex.paths(wh):
        if p.exit[0] != "return":
            continue
        destroyed = [e for e in p.events if e.kind == "cond" and isinstance(e.term, tuple) and e.term[0] == "tls_destroyed"]
        if destroyed:
            reg = [e for e in p.events if e.kind == "call" and e.target == "ebr_impl::collector::Collector::register"]
            col = [e for e in p.events if e.kind == "call" and e.target == "ebr_impl::default::collector"]
            okf = len(reg) == 1 and bool(col) and strip(reg[0].args[0]) == col[0].result
    r.instance("with_handle falls back to a temporary registration on the default collector", okf)
    if not okf:
        r.violate(wh.name, "fallback", "when the thread-local handle is gone with_handle does not register a temporary "
                  "participant with the default collector")
    # HANDLE's initialiser registers with the same collector
    r.require(n, 2, "LocalKey accesses")
    return r


# ------------------------------------------------------------------------------------------
def rule_list(ctx):
    r = RuleResult("EBR-LIST", ["C18"],
                   "list iterator: finalize only on the Ok edge of the unlink CAS of that entry; restart from head and yield "
                   "Stalled when the predecessor is marked; insert retries until its CAS succeeds")
    prog = ctx.prog
    nx = prog.body("<ebr_impl::sync::list::Iter<'g, T, C> as std::iter::Iterator>::next")
    r.functions.add(nx.name)
    n = 0
    for p in ctx.ex.paths(nx):
        if p.exit[0] == "diverge":
            continue
        r.paths += 1
        fin = [(i, e) for i, e in enumerate(p.events) if e.kind == "call" and norm(e.target or "").endswith("IsElement::finalize")]
        cas = [(i, e) for i, e in enumerate(p.events) if e.kind == "call" and
               norm(e.target or "") == "ebr_impl::pointers::RawAtomic::compare_exchange"]
        for (i, e) in fin:
            n += 1
            prev = [c for c in cas if c[0] < i]
            ok = False
            if prev:
                ci, ce = prev[-1]
                out = ctx.cas_outcome(p, ce.result, ci)
                # the entry finalized is the `current` of the CAS
                cur = strip(ce.args[1])
                ent = strip(e.args[0])
                same = cur in list(subterms(ent)) or show(cur) in show(ent)
                ok = out == "ok" and same
            r.instance("finalize(entry) only after the unlink CAS of that entry succeeded", ok)
            if not ok:
                r.violate(nx.name, "finalize", "an entry is scheduled for deallocation without this thread having unlinked it "
                          "(double free / premature free of a participant)", e.loc())
        # ... and every entry this thread unlinked is handed to finalize (exactly once): nobody else will free it
        for (ci, ce) in cas:
            if ctx.cas_outcome(p, ce.result, ci) != "ok":
                continue
            nxt_cas = [c[0] for c in cas if c[0] > ci]
            lim = nxt_cas[0] if nxt_cas else len(p.events)
            fin_here = [e for (i, e) in fin if ci < i < lim]
            if p.exit[0] == "retry" and not fin_here and lim == len(p.events) and \
                    not any(q.kind == "cond" and q.term == ("disc", ce.result) for q in p.events[ci:]):
                continue      # the back edge was taken before the outcome was examined
            n += 1
            okf = len(fin_here) == 1
            r.instance("an unlinked entry is finalized exactly once", okf)
            if not okf:
                r.violate(nx.name, "unlinked-not-freed", "after a successful unlink the entry is handed to finalize %d times: "
                          "an unlinked participant is never freed (or freed twice)" % len(fin_here), ce.loc())
        # stalled
        ret = p.ret
        if p.exit[0] == "return" and isinstance(ret, tuple) and ret[0] == "agg" and ret[2] == "Some":
            inner = ret[3][0]
            if isinstance(inner, tuple) and inner[0] == "agg" and inner[2] == "Err":
                n += 1
                # both halves of the position are reset, however the iterator keeps them (two fields, a cursor struct):
                # something stored into the iterator IS the head link, something stored is a fresh load OF the head link
                stores = [e for e in p.events if e.kind == "store" and "self" in show(e.place)]

                def walk(t, inside_load=False):
                    """-> (head link stored as such, head link loaded)"""
                    a = b_ = False
                    if not isinstance(t, tuple) or not t:
                        return a, b_
                    if t[0] == "call" and norm(t[1]) == "ebr_impl::pointers::RawAtomic::load":
                        if t[2] and "Iter.head" in show(t[2][0]):
                            b_ = True
                        return a, b_
                    if t[0] in ("field", "deref", "load") and show(t).endswith("Iter.head") or \
                            (t[0] == "field" and t[1] == "Iter.head"):
                        return True, b_
                    for x in (t[1:] if isinstance(t[0], str) else t):
                        if isinstance(x, tuple):
                            a2, b2 = walk(x)
                            a, b_ = a or a2, b_ or b2
                    return a, b_
                got = [walk(e.value) for e in stores]
                reset = any(g[0] for g in got) and any(g[1] for g in got)
                if not reset and _advance_strict_on_stall(ctx) and _only_advance_iterates(ctx):
                    # rely/guarantee with EBR-ADVANCE: the one consumer of the iterator gives up at a stall (no further item,
                    # no store of the epoch), so where the iterator stands afterwards does not matter
                    r.instance("Stalled: the iterator does not restart, and its only consumer (try_advance) gives up at a stall", True)
                    continue
                r.instance("Stalled: iterator reset to head", reset)
                if not reset:
                    r.violate(nx.name, "stalled", "Stalled is yielded without restarting the traversal from the head", nx.loc(0))
    # the tag test after the unlink attempt
    tagc = 0
    for p in ctx.ex.paths(nx):
        cas = [(i, e) for i, e in enumerate(p.events) if e.kind == "call" and
               norm(e.target or "") == "ebr_impl::pointers::RawAtomic::compare_exchange"]
        for (ci, ce) in cas:
            tests = [q for q in p.events[ci:] if q.kind == "cond" and isinstance(q.term, tuple) and q.term[0] == "bin"
                     and any(x[0] == "call" and norm(x[1]) == "ebr_impl::pointers::RawShared::tag" for x in subterms(q.term))]
            if tests:
                tagc += 1
                marked = (tests[0].value == 1) == (tests[0].term[1] == "Ne")
                ret = p.ret
                is_stalled = p.exit[0] == "return" and isinstance(ret, tuple) and ret[0] == "agg" and ret[2] == "Some" and \
                    isinstance(ret[3][0], tuple) and ret[3][0][0] == "agg" and ret[3][0][2] == "Err"
                if marked and not is_stalled:
                    r.violate(nx.name, "pred-marked", "the predecessor is marked as deleted but the traversal continues "
                              "(participants after it can be skipped without a stall being reported)", ce.loc())
            else:
                r.violate(nx.name, "pred-check", "after an unlink attempt the new value of the predecessor link is not "
                          "tested for a deletion mark", ce.loc())
    r.instance("after each unlink attempt the predecessor's mark is tested (%d paths)" % tagc, tagc > 0)
    # the mark Entry::delete sets is the mark the traversal tests for: `delete` ors a constant M into entry.next, the
    # traversal asks `succ.tag() == c` (or `!= 0`) of the value it loads from entry.next
    db = prog.bodies.get("ebr_impl::sync::list::Entry::delete")
    marks = set()
    if db is not None:
        r.functions.add(db.name)
        for p in ctx.ex.paths(db):
            for e in p.events:
                if e.kind == "call" and norm(e.target or "") == "ebr_impl::pointers::RawAtomic::fetch_or" and \
                        "Entry.next" in show(e.args[0]):
                    marks.add(const_of(e.args[1]))
    tests = set()
    for p in ctx.ex.paths(nx):
        for e in p.events:
            if e.kind == "cond" and not e.exp and isinstance(e.term, tuple) and e.term[0] == "bin" and e.term[1] in ("Eq", "Ne") \
                    and const_of(e.term[3]) is not None:
                tg = strip(e.term[2])
                if isinstance(tg, tuple) and tg[0] == "call" and norm(tg[1]) == "ebr_impl::pointers::RawShared::tag" and \
                        any(x[0] == "call" and norm(x[1]) == "ebr_impl::pointers::RawAtomic::load" and "Entry.next" in show(x[2][0])
                            for x in subterms(tg[2][0])):
                    tests.add((e.term[1], const_of(e.term[3])))
    okm = len(marks) == 1 and None not in marks and bool(tests)
    if okm:
        M = next(iter(marks))
        # (the entry is 8-aligned: the three low bits are the tag)
        okm = 0 < M < 8 and all((c == M) if op == "Eq" and c != 0 else (M != 0) for (op, c) in tests)
    r.instance("Entry::delete sets the mark the traversal tests for (mark %s, tests %s)" % (sorted(marks, key=str), sorted(tests)), okm)
    if not okm:
        r.violate(nx.name, "mark", "the deletion mark that Entry::delete sets (%s) is not the one the traversal looks for (%s): "
                  "deleted participants are never unlinked (and never freed), or live ones are taken for deleted"
                  % (sorted(marks, key=str), sorted(tests)), nx.loc(0))
    # List::drop (the collector going away) finalizes what is still linked
    ld = prog.bodies.get("<ebr_impl::sync::list::List<T, C> as std::ops::Drop>::drop")
    if ld is not None:
        r.functions.add(ld.name)
        okd = any(norm(c.target or "").endswith("IsElement::finalize") for (_, _, c) in ld.calls())
        r.instance("List::drop finalizes the remaining entries", okd)
        if not okd:
            r.violate(ld.name, "drop", "dropping the list does not finalize the entries still linked (their participants leak)",
                      ld.loc(0))
    # insert
    ins = prog.body("ebr_impl::sync::list::List::<T, C>::insert")
    r.functions.add(ins.name)
    ex2 = Exec(prog, unroll=2)
    okins = False
    for p in ex2.paths(ins):
        cas = [(i, e) for i, e in enumerate(p.events) if e.kind == "call" and
               norm(e.target or "").startswith("ebr_impl::pointers::RawAtomic::compare_exchange")]
        sts = [(i, e) for i, e in enumerate(p.events) if e.kind == "call" and norm(e.target or "") == "ebr_impl::pointers::RawAtomic::store"]
        if p.exit[0] == "return" and cas:
            out = ctx.cas_outcome(p, cas[-1][1].result, cas[-1][0])
            if out != "ok":
                r.violate(ins.name, "return", "insert returns without its CAS having succeeded (participant not registered)",
                          cas[-1][1].loc())
        for k in range(len(cas)):
            ci, ce = cas[k]
            prev_st = [s for s in sts if s[0] < ci]
            if not prev_st or strip(prev_st[-1][1].args[1]) != strip(ce.args[1]):
                r.violate(ins.name, "next", "the new entry's next pointer is not set to the expected successor before the CAS",
                          ce.loc())
            if k + 1 < len(cas):
                payload = ("field", "0", ("variant", "Err", ce.result))
                if strip(cas[k + 1][1].args[1]) == payload:
                    okins = True
                else:
                    r.violate(ins.name, "retry", "insert's retry does not use the observed head", cas[k + 1][1].loc())
    # writer table of Entry.next: plain stores only on the not-yet-published entry in insert; the deletion mark is one
    # atomic RMW (fetch_or); unlinking is a CAS. A load+store pair can overwrite a concurrent unlink of the successor.
    WR = {"store": {"ebr_impl::sync::list::List::<T, C>::insert": "entry not yet published"},
          "fetch_or": {"ebr_impl::sync::list::Entry::delete": "the deletion mark"},
          "compare_exchange": {nx.name: "unlink"}, "compare_exchange_weak": {}}
    nwr = 0
    # closures and helpers introduced by refactoring are read inside the functions that reach them
    cands = set()
    for name, b in prog.bodies.items():
        if any(norm(c.target or "").startswith("ebr_impl::pointers::RawAtomic::") for (_, _, c) in b.calls()):
            cands.update(prog.path_roots(name))
    seen_wr = {}
    for name in sorted(cands):
        for p in ctx.ex.paths(prog.body(name)):
            for e in p.events:
                if e.kind != "call" or not norm(e.target or "").startswith("ebr_impl::pointers::RawAtomic::"):
                    continue
                op = norm(e.target)[len("ebr_impl::pointers::RawAtomic::"):]
                if op in ("load", "null"):
                    continue
                if outer_field(e.args[0]) != "Entry.next":
                    continue
                nwr += 1
                home = prog.home(e.body.name)
                if home in prog.auto_inline():
                    home = name
                ok = home in WR.get(op, {})
                if op == "store" and ok:
                    # the entry written must be the one being inserted (derived from the `container` parameter)
                    ok = "container" in show(e.args[0]) or "entry_of" in show(e.args[0])
                r.instance("%s: %s on Entry.next (%s)" % (home.split("::")[-1], op, WR.get(op, {}).get(home, "?")), ok)
                if not ok:
                    r.violate(home, "write:Entry.next:" + op, "writes a shared entry's next pointer with `%s`: marking must be a "
                              "single atomic fetch_or and unlinking a CAS, or a concurrent unlink of the successor is "
                              "overwritten (entry re-linked after it was finalized: double free)" % op, e.loc())
    dl = prog.body("ebr_impl::sync::list::Entry::delete")
    if not any(norm(c.target or "") == "ebr_impl::pointers::RawAtomic::fetch_or" for (_, _, c) in dl.calls()):
        r.violate(dl.name, "mark", "Entry::delete does not mark the entry with an atomic fetch_or", dl.loc(0))
    r.instance("insert: retry with the observed successor until the CAS succeeds", okins)
    if not okins and not r.violations:
        r.violate(ins.name, "retry", "insert has no retry loop")
    r.require(n, 2, "finalize/stalled paths")
    return r


def _queue_entry_level(ctx, r, Q, full):
    """Clauses of the pops stated on the paths of try_pop_if / try_pop themselves (all private queue functions inlined, the
    retry loop unrolled twice). Always: the predicate clause. With `full` (an internal anchor is gone): operands, ok/err arms
    and the meaning of a None result as well. -> number of head CASes judged"""
    prog = ctx.prog
    priv = {nm for nm, b in prog.bodies.items() if nm.startswith(Q) and b.kind != "closure"
            and nm.split("::")[-1] not in ("try_pop", "try_pop_if", "push", "new")}
    exe = Exec(prog, inline=priv, unroll=2)
    judged = 0
    for wname, need_pred in ((Q + "try_pop_if", True), (Q + "try_pop", False)):
        wb = prog.body(wname)
        r.functions.add(wname)
        for p in exe.paths(wb):
            if p.exit[0] == "diverge":
                continue
            r.paths += 1
            ev = p.events
            loads = [(i, e) for i, e in enumerate(ev) if e.kind == "call" and norm(e.target or "") == "ebr_impl::pointers::RawAtomic::load"]
            cas = [(i, e) for i, e in enumerate(ev) if e.kind == "call" and
                   norm(e.target or "") in ("ebr_impl::pointers::RawAtomic::compare_exchange",
                                            "ebr_impl::pointers::RawAtomic::compare_exchange_weak")
                   and outer_field(e.args[0]) == "Queue.head"]
            preds = [(i, e) for i, e in enumerate(ev) if e.kind == "call" and "Fn" in (e.target or "") and "call" in (e.target or "")
                     and any(isinstance(x, tuple) and x[0] == "arg" and x[1] == 2 for x in subterms(e.args[0]))] if need_pred else []
            reads = [(i, e) for i, e in enumerate(ev) if e.kind == "call" and "assume_init_read" in (e.target or "")]
            retire = [(i, e) for i, e in enumerate(ev) if e.kind == "call" and e.target == "ebr_impl::guard::Guard::defer_destroy"]
            for k, (ci, ce) in enumerate(cas):
                judged += 1
                installed = strip(ce.args[2])
                expected = strip(ce.args[1])
                lim = cas[k + 1][0] if k + 1 < len(cas) else len(ev)
                if need_pred:
                    okp = False
                    for (pi_, pe) in preds:
                        if pi_ > ci or len(pe.args) < 2:
                            continue
                        val = [q for q in ev[pi_:ci] if q.kind == "cond" and q.term == pe.result]
                        if val and val[0].value == 1 and installed in list(subterms(pe.args[1])):
                            okp = True
                    r.instance("try_pop_if: the node a head CAS installs is the very node (same load) the predicate held for", okp)
                    if not okp:
                        r.violate(wname, "predicate", "the head is swung to a node for which the predicate was not evaluated to "
                                  "true (on that very node, without reloading in between)", ce.loc())
                if not full:
                    continue
                head_l = [l for l in loads if outer_field(l[1].args[0]) == "Queue.head" and l[0] < ci and l[1].result == expected]
                next_l = [l for l in loads if outer_field(l[1].args[0]) == "Node.next" and l[0] < ci and l[1].result == installed]
                ok = bool(head_l) and bool(next_l) and expected in list(subterms(next_l[-1][1].args[0]))
                r.instance("%s: the head CAS expects a loaded head and installs the next loaded from it" % wname.split("::")[-1], ok)
                if not ok:
                    r.violate(wname, "cas-operands", "the head CAS does not expect the loaded head / install the next loaded from it",
                              ce.loc())
                out = ctx.cas_outcome(p, ce.result, ci)
                rd = [x for x in reads if ci < x[0] < lim]
                rt = [x for x in retire if ci < x[0] < lim]
                if out == "ok":
                    ok = len(rd) == 1 and len(rt) == 1 and strip(rt[0][1].args[1]) == expected and \
                        installed in list(subterms(rd[0][1].args[0]))
                    r.instance("%s: CAS ok -> read the installed node's data once, retire the old head once" % wname.split("::")[-1], ok)
                    if not ok:
                        r.violate(wname, "ok-arm", "on CAS success the element must be read once and the old head retired once", ce.loc())
                    else:
                        ri = rt[0][0]
                        tl = [l for l in loads if outer_field(l[1].args[0]) == "Queue.tail" and ci < l[0] < ri]
                        cmp_ = [q for q in ev[ci:ri] if q.kind == "cond" and isinstance(q.term, tuple) and q.term[0] == "call"
                                and norm(q.term[1]) == "ebr_impl::pointers::RawShared::ptr_eq" and tl and
                                {strip(q.term[2][0]), strip(q.term[2][1])} == {expected, tl[-1][1].result}]
                        okt = bool(tl) and bool(cmp_)
                        if okt and cmp_[0].value == 1:
                            okt = any(q.kind == "call" and norm(q.target or "").startswith("ebr_impl::pointers::RawAtomic::compare_exchange")
                                      and outer_field(q.args[0]) == "Queue.tail" for q in ev[ci:ri])
                        r.instance("%s: the tail is moved off the old head before it is retired" % wname.split("::")[-1], okt)
                        if not okt:
                            r.violate(wname, "retires-tail", "the old head is retired without making sure the tail does not point at "
                                      "it (load tail after the head CAS, compare, swing it where equal): a pusher that loads the tail "
                                      "is handed a node that is freed three epochs later", rt[0][1].loc())
                    if p.exit[0] == "retry" or (k + 1 < len(cas)):
                        r.violate(wname, "retry", "retries although the attempt succeeded (element dropped)", ce.loc())
                elif out == "err":
                    ok = not rd and not rt
                    r.instance("%s: CAS failed -> nothing read or retired" % wname.split("::")[-1], ok)
                    if not ok:
                        r.violate(wname, "err-arm", "an element is read or a node retired although the head CAS failed (element "
                                  "popped twice / node freed while reachable)", ce.loc())
                elif rd or rt:
                    r.violate(wname, "err-arm", "an element is read or a node retired without the outcome of the head CAS having "
                              "been examined (element popped twice / node freed while reachable)", ce.loc())
                else:
                    raise AnalysisError("EBR-QUEUE: CAS outcome undecided in %s" % wname)
            if not full or p.exit[0] != "return":
                continue
            # what a returning path may say: Some(data read after the successful CAS), or None - and None only as the verdict of
            # an observation made after the last lost race: the loaded next is null, or the predicate failed on it
            succ = [c for c in cas if ctx.cas_outcome(p, c[1].result, c[0]) == "ok"]
            if succ:
                continue
            if not cas and not loads:
                r.violate(wname, "wrapper", "returns without an attempt", wb.loc(0))
                continue
            last_cas = cas[-1][0] if cas else -1
            nl = [l for l in loads if outer_field(l[1].args[0]) == "Node.next" and l[0] > last_cas]
            verdict = False
            for (li, le) in nl:
                nullt = [q for q in ev[li:] if q.kind == "cond" and le.result in list(subterms(q.term)) and
                         ((q.term[0] == "disc" and (q.value == 0 or (isinstance(q.value, tuple) and q.value[0] == "not"
                                                                      and 1 in q.value[1]))) or
                          (isinstance(q.term, tuple) and q.term[0] == "call" and norm(q.term[1]).endswith("::is_null") and q.value == 1) or
                          (isinstance(q.term, tuple) and q.term[0] == "call" and norm(q.term[1]).endswith("::is_some") and q.value == 0))]
                pf = [pe for (pi_, pe) in preds if pi_ > li and le.result in list(subterms(pe.args[1]))
                      and any(q.kind == "cond" and q.term == pe.result and q.value == 0 for q in ev[pi_:])]
                if nullt or pf:
                    verdict = True
            r.instance("%s: None is the verdict of an observation made after the last lost race" % wname.split("::")[-1], verdict)
            if not verdict:
                r.violate(wname, "lost-race", "returns None after an attempt that lost the race (or without looking): a lost race "
                          "for the head is reported as `empty / predicate failed` although the queue may hold elements that "
                          "satisfy the predicate", wb.loc(0))
    return judged


def outer_field(term):
    """Name of the outermost field of an address term (through CachePadded deref)."""
    t = strip(term)
    if isinstance(t, tuple) and t[0] == "call" and "Deref" in t[1] and t[2]:
        t = strip(t[2][0])
    if isinstance(t, tuple) and t[0] == "field":
        return t[1]
    return None


def _variant_indices(prog, body, names):
    """indices of the named variants in the enum that `body` returns"""
    rty = re.sub(r"<.*$", "", body.locals[0]["ty"])
    for a in prog.items["adts"]:
        if a["path"] == rty:
            return {i for i, v in enumerate(a["variants"]) if v.get("name") in names}
    return set()


def rule_queue(ctx):
    r = RuleResult("EBR-QUEUE", ["C17", "C15"],
                   "pop_if: the head CAS is control dependent on the predicate holding for the very node it installs; data is "
                   "read and the old head retired only on CAS success; push links with a CAS expecting null and loops")
    prog = ctx.prog
    Q = "ebr_impl::sync::queue::Queue::<T>::"
    n = 0
    # both ends only ever move forward, and only from the value the mover observed: after construction `head` and `tail`
    # are written by compare_exchange alone (a plain store by a delayed pusher puts `tail` back onto a node that may have
    # been popped, retired and freed), and the tail is swung from a node to that node's successor (or the node just linked
    # after it)
    nends = 0
    for name, b0 in sorted(prog.bodies.items()):
        if not b0.file().endswith("sync/queue.rs") or b0.kind == "closure" or name == Q + "new" or "::test" in name or \
                name.endswith("as std::ops::Drop>::drop"):
            continue
        if name in prog.auto_inline():
            continue      # a helper a refactoring split off: read inlined where it is called, with its real arguments
        if not any(norm(c.target or "").startswith("ebr_impl::pointers::RawAtomic::") or (c.target in prog.auto_inline())
                   for (_, _, c) in b0.calls()):
            continue
        for p in ctx.ex.paths(b0):
            for i, e in enumerate(p.events):
                if e.kind != "call" or not norm(e.target or "").startswith("ebr_impl::pointers::RawAtomic::") or not e.args:
                    continue
                fld = outer_field(e.args[0])
                if fld not in ("Queue.head", "Queue.tail"):
                    continue
                op = norm(e.target).split("::")[-1]
                if op == "load":
                    continue
                nends += 1
                if op not in ("compare_exchange", "compare_exchange_weak"):
                    r.instance("%s: %s written by %s" % (name.split("::")[-1], fld, op), False)
                    r.violate(name, "end-write:" + fld, "`%s` is written with a plain %s: the ends of the queue move only by a "
                              "compare_exchange from the value the mover observed - a delayed thread's store puts the end "
                              "back onto a node that may already be popped, retired and freed" % (fld, op), e.loc())
                    continue
                if fld == "Queue.tail":
                    cur, new_ = strip(e.args[1]), strip(e.args[2])
                    # (the popper swings the tail from `tail` on a path that knows head.ptr_eq(tail), to head's successor)
                    same = [cur]
                    for q in p.events[:i]:
                        if q.kind == "cond" and q.value == 1 and isinstance(q.term, tuple) and q.term[0] == "call" and \
                                norm(q.term[1]) == "ebr_impl::pointers::RawShared::ptr_eq":
                            a_, b_ = strip(q.term[2][0]), strip(q.term[2][1])
                            if a_ == cur:
                                same.append(b_)
                            if b_ == cur:
                                same.append(a_)
                    # new is load(cur.next), or the node a successful CAS on cur.next has just linked
                    succ = any(x[0] == "call" and norm(x[1]) == "ebr_impl::pointers::RawAtomic::load" and
                               outer_field(x[2][0]) == "Node.next" and any(c_ in list(subterms(x[2][0])) for c_ in same)
                               for x in [new_] + list(subterms(new_)))
                    linked = any(q.kind == "call" and norm(q.target or "") in ("ebr_impl::pointers::RawAtomic::compare_exchange",
                                                                              "ebr_impl::pointers::RawAtomic::compare_exchange_weak")
                                 and outer_field(q.args[0]) == "Node.next" and cur in list(subterms(q.args[0])) and
                                 strip(q.args[2]) == new_ and ctx.cas_outcome(p, q.result, j) == "ok"
                                 for j, q in enumerate(p.events[:i]))
                    okt = succ or linked
                    r.instance("%s: tail swung from a node to its successor" % name.split("::")[-1], okt)
                    if not okt:
                        r.violate(name, "tail-swing", "the tail is not swung from the observed node to that node's successor "
                                  "(its loaded `next`, or the node just linked after it)", e.loc())
    if nends < 3 and not r.violations:
        r.floor_failures.append("EBR-QUEUE: found %d writes of the queue's ends, expected at least 3 (anchor lost?)" % nends)
    exq = Exec(prog, inline={Q + "pop_internal", Q + "pop_if_internal", Q + "push_internal"})
    # entry level first: the conditional pop as collect() calls it, with everything the queue keeps private read inlined and
    # the retry loop unrolled - whatever the internal split into functions is (S-C17-7 removed pop_if_internal)
    missing_internal = [fn for fn in (Q + "pop_if_internal", Q + "pop_internal") if fn not in prog.bodies]
    n += _queue_entry_level(ctx, r, Q, full=bool(missing_internal))
    for fname, need_pred in ((Q + "pop_if_internal", True), (Q + "pop_internal", False)):
        if fname in missing_internal:
            r.notes.append("%s does not exist: its clauses were judged on the paths of the wrappers (entry level)" % fname)
            continue
        b = prog.body(fname)
        r.functions.add(fname)
        for p in exq.paths(b):
            if p.exit[0] != "return":
                continue
            r.paths += 1
            cas = [(i, e) for i, e in enumerate(p.events) if e.kind == "call" and
                   norm(e.target or "") == "ebr_impl::pointers::RawAtomic::compare_exchange" and outer_field(e.args[0]) == "Queue.head"]
            reads = [(i, e) for i, e in enumerate(p.events) if e.kind == "call" and "assume_init_read" in (e.target or "")]
            retire = [(i, e) for i, e in enumerate(p.events) if e.kind == "call" and e.target == "ebr_impl::guard::Guard::defer_destroy"]
            loads = [(i, e) for i, e in enumerate(p.events) if e.kind == "call" and norm(e.target or "") == "ebr_impl::pointers::RawAtomic::load"]
            if not cas:
                ok = not reads and not retire
                r.instance("%s: no CAS -> nothing read or retired" % fname.split("::")[-1], ok)
                if not ok:
                    r.violate(fname, "no-cas", "an element is read or a node retired without the head CAS", b.loc(0))
                continue
            n += 1
            ci, ce = cas[0]
            head_l = [l for l in loads if outer_field(l[1].args[0]) == "Queue.head" and l[0] < ci]
            next_l = [l for l in loads if outer_field(l[1].args[0]) == "Node.next" and l[0] < ci]
            ok = bool(head_l) and bool(next_l) and strip(ce.args[1]) == head_l[-1][1].result and strip(ce.args[2]) == next_l[-1][1].result
            if ok:
                # next was loaded from the head that is expected
                ok = head_l[-1][1].result in list(subterms(next_l[-1][1].args[0]))
            if not ok:
                r.violate(fname, "cas-operands", "the head CAS does not expect the loaded head / install the next loaded from it",
                          ce.loc())
            if need_pred:
                # predicate call on the data of `next`, true, before the CAS, with no reload in between
                preds = [(i, e) for i, e in enumerate(p.events) if e.kind == "call" and
                         ("Fn" in (e.target or "") and "call" in (e.target or "")) and strip(e.args[0]) == ("arg", 2, b.local_name(2))]
                okp = False
                if preds and preds[-1][0] < ci:
                    pi, pe = preds[-1]
                    val = [q for q in p.events[pi:ci] if q.kind == "cond" and q.term == pe.result]
                    nref = next_l[-1][1].result if next_l else None
                    on_next = nref is not None and nref in list(subterms(pe.args[1]))
                    reload = [l for l in loads if pi < l[0] < ci]
                    okp = bool(val) and val[0].value == 1 and on_next and not reload
                r.instance("pop_if: predicate(next.data) == true controls the CAS that installs that next", okp)
                if not okp:
                    r.violate(fname, "predicate", "the head is swung to a node for which the predicate was not evaluated to "
                              "true (on that very node, without reloading in between)", ce.loc())
            # reads / retire only on the Ok continuation (Result::map model)
            out = ctx.cas_outcome(p, ce.result, ci)
            if out == "ok":
                ok = len(reads) == 1 and len(retire) == 1 and reads[0][0] > ci and retire[0][0] > ci and \
                    strip(retire[0][1].args[1]) == head_l[-1][1].result
                r.instance("%s: CAS ok -> read data once, retire old head once" % fname.split("::")[-1], ok)
                if not ok:
                    r.violate(fname, "ok-arm", "on CAS success the element must be read once and the old head retired once",
                              ce.loc())
                elif retire:
                    # the old head is not retired while the tail may still point at it: after the head CAS the tail is
                    # loaded and compared with the old head; where they are equal the tail is swung first
                    ri = retire[0][0]
                    hd = head_l[-1][1].result
                    tl = [l for l in loads if outer_field(l[1].args[0]) == "Queue.tail" and ci < l[0] < ri]
                    cmp_ = [q for q in p.events[ci:ri] if q.kind == "cond" and isinstance(q.term, tuple) and q.term[0] == "call"
                            and norm(q.term[1]) == "ebr_impl::pointers::RawShared::ptr_eq" and tl and
                            {strip(q.term[2][0]), strip(q.term[2][1])} == {hd, tl[-1][1].result}]
                    okt = bool(tl) and bool(cmp_)
                    if okt and cmp_[0].value == 1:
                        okt = any(q.kind == "call" and norm(q.target or "").startswith("ebr_impl::pointers::RawAtomic::compare_exchange")
                                  and outer_field(q.args[0]) == "Queue.tail" for q in p.events[ci:ri])
                    r.instance("%s: the tail is moved off the old head before it is retired" % fname.split("::")[-1], okt)
                    if not okt:
                        r.violate(fname, "retires-tail", "the old head is retired without making sure the tail does not point at "
                                  "it (load tail after the head CAS, compare, swing it where equal): a pusher that loads the tail "
                                  "is handed a node that is freed three epochs later", retire[0][1].loc())
            elif out == "err":
                ok = not reads and not retire
                r.instance("%s: CAS failed -> nothing read or retired" % fname.split("::")[-1], ok)
                if not ok:
                    r.violate(fname, "err-arm", "an element is read or a node retired although the head CAS failed (element "
                              "popped twice / node freed while reachable)", ce.loc())
            else:
                raise AnalysisError("EBR-QUEUE: CAS outcome undecided in %s" % fname)
    # push: the node is linked by a CAS on a `next` pointer that expects null and installs the new node; what
    # push_internal returns tells success from failure (whatever its type: bool, enum, Result); push returns only after a
    # success and retries otherwise
    if (Q + "push_internal") not in prog.bodies:
        # the linking step is not a function of its own any more: the same clauses on the paths of push itself, everything the
        # queue keeps private read inlined, the retry loop unrolled
        r.notes.append("push_internal does not exist: its clauses were judged on the paths of push (entry level)")
        _queue_push_entry_level(ctx, r, Q)
        return _queue_wrappers(ctx, r, Q, n, missing_internal)
    pi = prog.body(Q + "push_internal")
    r.functions.add(pi.name)
    newp = [("arg", k, pi.local_name(k)) for k in range(1, pi.arg_count + 1)
            if "RawShared" in pi.local_ty(k) and "Node" in pi.local_ty(k)]

    def ret_key(rt, p=None):
        rt = strip(rt)
        if isinstance(rt, tuple) and rt[0] == "agg":
            return ("variant", rt[2])
        if isinstance(rt, tuple) and rt[0] == "c":
            return ("const", rt[1])
        if p is not None:
            # a flag that the path has tested (`let ok = cas.is_ok(); if ok {..}; ok`)
            for q in p.events:
                if q.kind == "cond" and q.term == rt and isinstance(q.value, int):
                    return ("const", q.value)
        return None
    okv, errv = set(), set()
    for p in ctx.ex.paths(pi):
        if p.exit[0] != "return":
            continue
        link = [(i_, e) for i_, e in enumerate(p.events) if e.kind == "call" and
                norm(e.target or "") in ("ebr_impl::pointers::RawAtomic::compare_exchange",
                                         "ebr_impl::pointers::RawAtomic::compare_exchange_weak")
                and outer_field(e.args[0]) == "Node.next"]
        rb = p.ret
        linked = None
        if link:
            li, le = link[0]
            exp_null = strip(le.args[1])
            ok = isinstance(exp_null, tuple) and exp_null[0] == "call" and norm(exp_null[1]) == "ebr_impl::pointers::RawShared::null" \
                and strip(le.args[2]) in newp
            r.instance("push_internal links `new` with a CAS expecting null", ok)
            if not ok:
                r.violate(pi.name, "link", "the new node is not linked by a CAS that expects a null next pointer", le.loc())
            out = ctx.cas_outcome(p, le.result, li)
            isok = strip(rb)
            if out is None and isinstance(isok, tuple) and isok[0] == "call" and \
                    norm(isok[1]) == "std::result::Result::is_ok" and strip(isok[2][0]) == le.result:
                # `return cas(..).is_ok()`: the result *is* the outcome
                okv.add(("is_ok", None))
                errv.add(("is_err", None))
                continue
            if out is None:
                r.violate(pi.name, "result", "push_internal's result is not the outcome of the linking CAS", le.loc())
                continue
            linked = out == "ok"
        else:
            linked = False
        k = ret_key(rb, p)
        if k is None:
            r.violate(pi.name, "result", "push_internal's result is not the outcome of the linking CAS", pi.loc(0))
            continue
        (okv if linked else errv).add(k)
    if okv & errv:
        r.violate(pi.name, "result", "push_internal reports the same result (%s) with and without the node linked: push cannot "
                  "tell whether to retry" % sorted(map(str, okv & errv)), pi.loc(0))
    if not okv and not r.violations:
        r.violate(pi.name, "result", "push_internal never reports success", pi.loc(0))
    pu = prog.body(Q + "push")
    for p in ctx.ex.paths(pu):
        calls = [e for e in p.events if e.kind == "call" and e.target == Q + "push_internal"]
        if p.exit[0] not in ("return", "retry") or not calls:
            continue
        res = calls[-1].result
        seen_k = None
        for q in p.events[p.events.index(calls[-1]):]:
            if q.kind != "cond":
                continue
            if q.term == res and isinstance(q.value, int):
                seen_k = ("is_ok", None) if q.value == 1 else ("is_err", None)
                if ("const", q.value) in okv | errv:
                    seen_k = ("const", q.value)
            elif q.term == ("disc", res):
                seen_k = ("disc", q.value)
        def in_set(k, S):
            if k is None:
                return False
            if k[0] == "disc":
                names = {v[1] for v in S if v[0] == "variant"}
                idx = _variant_indices(prog, pi, names)
                if isinstance(k[1], int):
                    return k[1] in idx
                return isinstance(k[1], tuple) and bool(idx) and not (idx & set(k[1][1])) and \
                    not (_variant_indices(prog, pi, {v[1] for v in (okv | errv) - S if v[0] == "variant"}) - set(k[1][1]))
            return k in S
        if p.exit[0] == "return":
            ok = in_set(seen_k, okv)
            r.instance("push returns only after push_internal succeeded", ok)
            if not ok:
                r.violate(pu.name, "loop", "push returns although the node was not linked (element lost)", pu.loc(0))
        else:
            ok = in_set(seen_k, errv)
            r.instance("push retries only after push_internal failed", ok)
            if not ok:
                r.violate(pu.name, "loop", "push retries although the node was linked (element pushed twice)", pu.loc(0))
    return _queue_wrappers(ctx, r, Q, n, missing_internal)


def _queue_push_entry_level(ctx, r, Q):
    prog = ctx.prog
    priv = {nm for nm, b in prog.bodies.items() if nm.startswith(Q) and b.kind != "closure"
            and nm.split("::")[-1] not in ("try_pop", "try_pop_if", "push", "new")}
    pu = prog.body(Q + "push")
    r.functions.add(pu.name)
    nret = 0
    for p in Exec(prog, inline=priv, unroll=2).paths(pu):
        if p.exit[0] == "diverge":
            continue
        r.paths += 1
        owned = [e.result for e in p.events if e.kind == "call" and norm(e.target or "") == "ebr_impl::pointers::RawShared::from_owned"]
        link = [(i, e) for i, e in enumerate(p.events) if e.kind == "call" and
                norm(e.target or "") in ("ebr_impl::pointers::RawAtomic::compare_exchange",
                                         "ebr_impl::pointers::RawAtomic::compare_exchange_weak")
                and outer_field(e.args[0]) == "Node.next"]
        for (li, le) in link:
            exp_null = strip(le.args[1])
            ok = isinstance(exp_null, tuple) and exp_null[0] == "call" and norm(exp_null[1]) == "ebr_impl::pointers::RawShared::null" \
                and strip(le.args[2]) in owned
            r.instance("push links its new node with a CAS expecting null", ok)
            if not ok:
                r.violate(pu.name, "link", "the new node is not linked by a CAS that expects a null next pointer", le.loc())
        outs = [ctx.cas_outcome(p, le.result, li) for (li, le) in link]
        if p.exit[0] == "return":
            nret += 1
            ok = bool(outs) and outs[-1] == "ok" and outs.count("ok") == 1
            r.instance("push returns only after the node was linked (once)", ok)
            if not ok:
                r.violate(pu.name, "loop", "push returns although the node was not linked (element lost)" if "ok" not in outs
                          else "push links the node more than once", pu.loc(0))
        elif p.exit[0] == "retry":
            ok = "ok" not in outs
            r.instance("push retries only while the node is not linked", ok)
            if not ok:
                r.violate(pu.name, "loop", "push retries although the node was linked (element pushed twice)", pu.loc(0))
    if nret < 1 and not r.violations:
        r.floor_failures.append("EBR-QUEUE: no returning path of push found (entry level)")


def _queue_wrappers(ctx, r, Q, n, missing_internal):
    prog = ctx.prog
    # the retry wrappers: an attempt that lost the race for the head (Err) says nothing about emptiness or the predicate;
    # `None` may be returned only as the Ok payload of the last attempt
    nw = 0
    for wname, inner in ((Q + "try_pop", Q + "pop_internal"), (Q + "try_pop_if", Q + "pop_if_internal")):
        if missing_internal:
            nw += 1       # judged at entry level (clause `none-return`)
            continue
        wb = prog.body(wname)
        r.functions.add(wname)
        exw = Exec(prog, inline=set())
        for p in exw.paths(wb):
            att = [(i, e) for i, e in enumerate(p.events) if e.kind == "call" and e.target == inner]
            if p.exit[0] == "diverge":
                continue
            r.paths += 1
            if not att:
                if p.exit[0] == "return":
                    r.violate(wname, "wrapper", "returns without an attempt", wb.loc(0))
                continue
            li, le = att[-1]
            out = ctx.cas_outcome(p, le.result, li)
            # (a rotated loop - `a = attempt(); while a.is_err() { a = attempt() }` - makes the next attempt before the
            #  back edge: every attempt but the last must have been examined and found lost)
            earlier_ok = True
            for (ai, ae) in att[:-1]:
                if ctx.cas_outcome(p, ae.result, ai) != "err":
                    earlier_ok = False
            if not earlier_ok:
                r.instance("%s makes a further attempt only after a lost race" % wname.split("::")[-1], False)
                r.violate(wname, "retry", "retries although the attempt succeeded (element dropped)", le.loc())
                continue
            if p.exit[0] == "return":
                nw += 1
                ret = strip(p.ret)
                payload = ("field", "0", ("variant", "Ok", le.result))
                # `attempt.ok().flatten()` on a path that knows the attempt is Ok is its payload
                flat = isinstance(ret, tuple) and ret[0] == "call" and norm(ret[1]) == "std::option::Option::flatten" and \
                    strip(ret[2][0]) == ("okopt", le.result)
                ok = out == "ok" and (ret == payload or flat)
                r.instance("%s returns the Ok payload of its last attempt" % wname.split("::")[-1], ok)
                if not ok:
                    r.violate(wname, "lost-race", "returns %s after an attempt that %s: a lost race for the head is reported as "
                              "`empty / predicate failed` although the queue may hold elements that satisfy the predicate"
                              % (show(p.ret)[:40], "lost the race (Err)" if out == "err" else "was not examined"), le.loc())
            elif p.exit[0] == "retry":
                ok = out == "err" or (out is None and len(att) >= 2)
                r.instance("%s retries exactly when the attempt lost the race" % wname.split("::")[-1], ok)
                if not ok:
                    r.violate(wname, "retry", "retries although the attempt succeeded (element dropped)", le.loc())
    r.require(n, 4, "pop paths with a head CAS")
    if nw < 2 and not r.violations:
        r.floor_failures.append("EBR-QUEUE: found %d returning paths of try_pop/try_pop_if, expected at least 2" % nw)
    return r
