"""Engine C: abstract interpreter for the pure bit / modular code (DESIGN.md 3.3).

Interprets the MIR of side-effect-free functions (Tagged::*, low_bits, with_tag, State::*,
Modular::*, Epoch::*) over a reduced product of
  * constants (exact wrapping arithmetic),
  * bit provenance: each bit is 0, 1, a copy (or negated copy) of an input bit, or a set of input
    bits it may depend on (carry/borrow chains are followed exactly where an operand bit is a
    known 0),
  * linear forms over Z/2^w in the input symbols (exact for + - and * by constants),
  * affine forms a*K + b over the integers in one symbolic parameter K >= 1 (for the modular
    window; `%` by 2^w is reduced when 2^w | a and the sign is known).
Generic parameters are eliminated by exhaustive partition (alignment of T; residues of the
epoch). Anything the domain cannot decide is `Unknown` -> analysis error, never a pass.
This is abstract interpretation of the source: no circ code is compiled to run."""
import re
from .facts import AnalysisError
from .mir import Callee
from .sym import norm


class Unknown(AnalysisError):
    pass


def mask(w):
    return (1 << w) - 1


def to_signed(v, w):
    v &= mask(w)
    return v - (1 << w) if v >> (w - 1) else v


class W:
    """abstract machine word"""
    __slots__ = ("w", "signed", "cst", "bits", "lin", "aff", "eq", "tz")

    def __init__(self, w, signed=False, cst=None, bits=None, lin=None, aff=None, eq=None, tz=None):
        self.tz = tz        # this value is trailing_zeros(of a word with these bits)
        self.w = w
        self.signed = signed
        self.cst = cst
        self.bits = bits
        self.lin = lin
        self.aff = aff
        self.eq = eq
        if cst is not None:
            cst &= mask(w)
            self.cst = cst
            self.bits = [(cst >> i) & 1 for i in range(w)]
            self.lin = {1: cst} if cst else {}
            self.aff = (0, to_signed(cst, w) if signed else cst)

    @staticmethod
    def const(v, w, signed=False):
        return W(w, signed, cst=v & mask(w))

    @staticmethod
    def sym(name, w, signed=False, symw=None):
        symw = symw or w
        bits = [("v", name, i, False) if i < symw else 0 for i in range(w)]
        return W(w, signed, bits=bits, lin={name: 1})

    @staticmethod
    def affine(a, b, w=64, signed=True):
        if a == 0:
            return W.const(b, w, signed)
        return W(w, signed, aff=(a, b))

    def sval(self):
        if self.cst is None:
            return None
        return to_signed(self.cst, self.w) if self.signed else self.cst

    def __repr__(self):
        if self.cst is not None:
            return "W(%s)" % (self.sval(),)
        if self.aff is not None:
            return "W(%d*K%+d)" % self.aff
        return "W(bits=%s lin=%s)" % (bits_str(self.bits), self.lin)


def bits_str(bits):
    if bits is None:
        return "?"
    out = []
    for b in reversed(bits):
        if b in (0, 1):
            out.append(str(b))
        elif isinstance(b, tuple):
            out.append("%s%s%d" % ("~" if b[3] else "", b[1], b[2]))
        else:
            out.append("*")
    return " ".join(out)


class XorBit:
    """exactly a ^ b for two input-bit copies a, b (`(p ^ q) & mask == 0` is `p == q` on the masked bits)"""
    __slots__ = ("a", "b")

    def __init__(self, a, b):
        self.a, self.b = a, b

    def __eq__(self, o):
        return isinstance(o, XorBit) and {self.a, self.b} == {o.a, o.b}

    def __hash__(self):
        return hash(frozenset([self.a, self.b]))

    def __repr__(self):
        return "(%r ^ %r)" % (self.a, self.b)


def deps(b):
    if b in (0, 1):
        return frozenset()
    if isinstance(b, XorBit):
        return deps(b.a) | deps(b.b)
    if isinstance(b, tuple):
        return frozenset([(b[1], b[2])])
    return b


def bnot(b):
    if b in (0, 1):
        return 1 - b
    if isinstance(b, XorBit):
        return XorBit(bnot(b.a), b.b)
    if isinstance(b, tuple):
        return (b[0], b[1], b[2], not b[3])
    return b


def band(a, b):
    if a == 0 or b == 0:
        return 0
    if a == 1:
        return b
    if b == 1:
        return a
    if a == b:
        return a
    if isinstance(a, tuple) and isinstance(b, tuple) and a[:3] == b[:3] and a[3] != b[3]:
        return 0
    return deps(a) | deps(b)


def bor(a, b):
    if a == 1 or b == 1:
        return 1
    if a == 0:
        return b
    if b == 0:
        return a
    if a == b:
        return a
    if isinstance(a, tuple) and isinstance(b, tuple) and a[:3] == b[:3] and a[3] != b[3]:
        return 1
    return deps(a) | deps(b)


def bxor(a, b):
    if a == 0:
        return b
    if b == 0:
        return a
    if a == 1:
        return bnot(b)
    if b == 1:
        return bnot(a)
    if a == b:
        return 0
    if isinstance(a, tuple) and isinstance(b, tuple):
        return XorBit(a, b)
    return deps(a) | deps(b)


def lin_add(a, b, w, sign=1):
    if a is None or b is None:
        return None
    d = dict(a)
    for k, v in b.items():
        d[k] = (d.get(k, 0) + sign * v) & mask(w)
        if d[k] == 0:
            del d[k]
    return d


def lin_scale(a, c, w):
    if a is None:
        return None
    d = {}
    for k, v in a.items():
        x = (v * c) & mask(w)
        if x:
            d[k] = x
    return d


def add_bits(a, b, sub=False):
    """ripple carry/borrow with exact propagation where possible"""
    if a is None or b is None:
        return None
    out = []
    carry = 0   # 0, 1 or frozenset deps
    for i in range(len(a)):
        x, y = a[i], b[i]
        s = bxor(bxor(x, y), carry)
        out.append(s)
        if not sub:
            # carry_out = maj(x, y, carry)
            c1 = band(x, y)
            c2 = band(carry, bxor(x, y)) if carry not in (0,) else 0
            carry = bor(c1, c2)
        else:
            # borrow_out = (~x & y) | (borrow & ~(x ^ y))
            c1 = band(bnot(x), y)
            c2 = band(carry, bnot(bxor(x, y))) if carry not in (0,) else 0
            carry = bor(c1, c2)
        if isinstance(carry, tuple):
            carry = deps(carry)
    return out


def binop(op, a, b):
    w = a.w
    signed = a.signed
    if op.endswith("WithOverflow"):
        r = binop(op[:-len("WithOverflow")], a, b)
        return [r, W.const(0, 1)]     # overflow flag: checked arithmetic panics instead (assert falls through)
    if op in ("Eq", "Ne", "Lt", "Le", "Gt", "Ge"):
        return compare(op, a, b)
    if a.cst is not None and b.cst is not None and op not in ("Offset",):
        x, y = a.cst, b.cst
        sx, sy = a.sval(), b.sval()
        if op == "Add":
            return W.const(x + y, w, signed)
        if op == "Sub":
            return W.const(x - y, w, signed)
        if op == "Mul":
            return W.const(x * y, w, signed)
        if op == "BitAnd":
            return W.const(x & y, w, signed)
        if op == "BitOr":
            return W.const(x | y, w, signed)
        if op == "BitXor":
            return W.const(x ^ y, w, signed)
        if op == "Shl":
            return W.const(x << (b.cst % w), w, signed)
        if op == "Shr":
            return W.const((sx >> (b.cst % w)) if signed else (x >> (b.cst % w)), w, signed)
        if op == "Div":
            if y == 0:
                raise Unknown("division by zero")
            q = abs(sx) // abs(sy)
            return W.const(q if (sx >= 0) == (sy >= 0) else -q, w, signed)
        if op == "Rem":
            if y == 0:
                raise Unknown("remainder by zero")
            r = abs(sx) % abs(sy)
            return W.const(r if sx >= 0 else -r, w, signed)
    if op in ("BitAnd", "BitOr", "BitXor"):
        f = {"BitAnd": band, "BitOr": bor, "BitXor": bxor}[op]
        bits = [f(x, y) for x, y in zip(a.bits, b.bits)] if a.bits is not None and b.bits is not None else None
        return W(w, signed, bits=bits)
    if op in ("Shl", "Shr"):
        if b.cst is None:
            raise Unknown("shift by a non-constant")
        n = b.cst % w
        bits = None
        if a.bits is not None:
            if op == "Shl":
                bits = [0] * n + a.bits[:w - n]
            else:
                fill = a.bits[-1] if signed else 0
                bits = a.bits[n:] + [fill] * n
        lin = lin_scale(a.lin, 1 << n, w) if op == "Shl" else None
        return W(w, signed, bits=bits, lin=lin)
    if op in ("Add", "Sub"):
        sub = op == "Sub"
        bits = add_bits(a.bits, b.bits, sub)
        lin = lin_add(a.lin, b.lin, w, -1 if sub else 1)
        aff = None
        if a.aff is not None and b.aff is not None:
            aff = (a.aff[0] - b.aff[0], a.aff[1] - b.aff[1]) if sub else (a.aff[0] + b.aff[0], a.aff[1] + b.aff[1])
            if aff[0] == 0:
                return W.const(aff[1], w, signed)
        return W(w, signed, bits=bits, lin=lin, aff=aff)
    if op == "Mul":
        c, x = (a, b) if a.cst is not None else (b, a) if b.cst is not None else (None, None)
        if c is None:
            raise Unknown("multiplication of two non-constants")
        k = c.cst
        lin = lin_scale(x.lin, k, w)
        bits = None
        if x.bits is not None and k and (k & (k - 1)) == 0:
            n = k.bit_length() - 1
            bits = [0] * n + x.bits[:w - n]
        aff = (x.aff[0] * c.sval(), x.aff[1] * c.sval()) if x.aff is not None else None
        return W(w, signed, bits=bits, lin=lin, aff=aff)
    if op == "Div":
        if b.cst is None or b.cst == 0 or (b.cst & (b.cst - 1)) or signed:
            raise Unknown("division by something other than an unsigned power of two")
        return binop("Shr", a, W.const(b.cst.bit_length() - 1, 32))
    if op == "Rem":
        if b.cst is None or b.cst == 0 or (b.cst & (b.cst - 1)):
            raise Unknown("remainder by something other than a power of two")
        m = b.cst
        if not signed:
            return binop("BitAnd", a, W.const(m - 1, w))
        if a.aff is None:
            raise Unknown("signed remainder of a value without a known affine form")
        ak, bk = a.aff
        if ak % m != 0:
            raise Unknown("signed remainder: modulus does not divide the K coefficient")
        # sign of ak*K + bk for every K >= 1
        if ak >= 0 and ak + bk >= 0:
            return W.const(bk % m, w, True)
        if ak <= 0 and ak + bk <= 0:
            return W.const(-((-bk) % m), w, True)
        raise Unknown("signed remainder: sign of %d*K%+d is not fixed for K >= 1" % (ak, bk))
    raise Unknown("unmodelled binary operation %s" % op)


def _low_zero(bits, n):
    """abstract truth of `bits[0..n) are all zero` as a comparison of those bits with 0"""
    n = max(0, min(n, len(bits)))
    lo = W(len(bits), False, bits=list(bits[:n]) + [0] * (len(bits) - n))
    return compare("Eq", lo, W.const(0, len(bits)))


def _negate(r):
    if r.cst is not None:
        return W.const(1 - r.cst, 1)
    if r.eq is not None:
        return W(1, False, bits=r.bits, eq=("Ne" if r.eq[0] == "Eq" else "Eq", r.eq[1], r.eq[2]))
    return r


def compare(op, a, b):
    if getattr(a, "tz", None) is not None and b.cst is not None:
        c = b.cst
        if op == "Ge":
            return _low_zero(a.tz, c)
        if op == "Gt":
            return _low_zero(a.tz, c + 1)
        if op == "Lt":
            return _negate(_low_zero(a.tz, c))
        if op == "Le":
            return _negate(_low_zero(a.tz, c + 1))
        raise Unknown("trailing_zeros compared with == / !=")
    if getattr(b, "tz", None) is not None and a.cst is not None:
        return compare({"Lt": "Gt", "Le": "Ge", "Gt": "Lt", "Ge": "Le", "Eq": "Eq", "Ne": "Ne"}[op], b, a)
    if a.cst is not None and b.cst is not None:
        x, y = a.sval(), b.sval()
        r = {"Eq": x == y, "Ne": x != y, "Lt": x < y, "Le": x <= y, "Gt": x > y, "Ge": x >= y}[op]
        return W.const(int(r), 1)
    if a.aff is not None and b.aff is not None and a.aff[0] == b.aff[0] and op not in ("Eq", "Ne"):
        x, y = a.aff[1], b.aff[1]
        r = {"Lt": x < y, "Le": x <= y, "Gt": x > y, "Ge": x >= y}[op]
        return W.const(int(r), 1)
    if a.aff is not None and b.aff is not None and op in ("Eq", "Ne") and a.aff[0] == b.aff[0]:
        r = (a.aff[1] == b.aff[1]) == (op == "Eq")
        return W.const(int(r), 1)
    if a.aff is not None and b.aff is not None:
        # different K coefficients: decide for all K >= 1 if the difference has a fixed sign
        da, db = a.aff[0] - b.aff[0], a.aff[1] - b.aff[1]
        lo = da + db   # K = 1
        if da > 0 and lo > 0:
            sgn = 1
        elif da < 0 and lo < 0:
            sgn = -1
        else:
            return W(1, False, bits=[frozenset([("K", 0)])])    # undecided for some K: a branch on it is `Unknown`
        r = {"Eq": False, "Ne": True, "Lt": sgn < 0, "Le": sgn < 0, "Gt": sgn > 0, "Ge": sgn > 0}[op]
        return W.const(int(r), 1)
    if op in ("Eq", "Ne") and a.bits is not None and b.bits is not None:
        # decide if some bit pair is definitely different
        d = frozenset()
        abits, bbits = list(a.bits), list(b.bits)
        for i, (x, y) in enumerate(zip(abits, bbits)):
            # (x ^ y) compared with 0 is x compared with y
            if isinstance(x, XorBit) and y == 0:
                abits[i], bbits[i] = x.a, x.b
            elif isinstance(y, XorBit) and x == 0:
                abits[i], bbits[i] = y.a, y.b
        a = W(a.w, a.signed, bits=abits)
        b = W(b.w, b.signed, bits=bbits)
        for x, y in zip(a.bits, b.bits):
            if x in (0, 1) and y in (0, 1):
                if x != y:
                    return W.const(int(op == "Ne"), 1)
                continue
            if isinstance(x, tuple) and x == y:
                continue       # the same input bit on both sides
            if isinstance(x, tuple) and isinstance(y, tuple) and x[:3] == y[:3] and x[3] != y[3]:
                return W.const(int(op == "Ne"), 1)
            d |= deps(x) | deps(y)
        if not d:
            return W.const(int(op == "Eq"), 1)
        r = W(1, False, bits=[d], eq=(op, a.bits, b.bits))
        return r
    if a.bits is not None and b.bits is not None:
        d = frozenset()
        for x in a.bits + b.bits:
            d |= deps(x)
        return W(1, False, bits=[d if d else frozenset([("?", 0)])])     # undecided: a branch on it is `Unknown`
    raise Unknown("comparison %s of values the domain cannot order" % op)


def cast(v, kind, ty):
    w, signed = int_type(ty)
    if w is None:
        if isinstance(v, W):
            return v     # pointer <-> pointer / pointer <-> usize: same word
        return v
    if not isinstance(v, W):
        raise Unknown("cast of a non-word")
    if v.cst is not None:
        return W.const(v.sval() if v.signed else v.cst, w, signed)
    bits = None
    if v.bits is not None:
        if w <= v.w:
            bits = v.bits[:w]
        else:
            fill = v.bits[-1] if v.signed else 0
            bits = v.bits + [fill] * (w - v.w)
    lin = None
    if v.lin is not None:
        if w <= v.w:
            lin = {k: c & mask(w) for k, c in v.lin.items() if c & mask(w)}
        elif not v.signed and set(v.lin) - {1} and len(v.lin) == 1 and list(v.lin.values()) == [1]:
            lin = dict(v.lin)   # zero-extension of a plain symbol
    aff = v.aff if w >= v.w or v.aff is None else None
    if aff is not None and w == v.w:
        aff = v.aff
    return W(w, signed, bits=bits, lin=lin, aff=aff)


def int_type(ty):
    t = ty.strip()
    m = {"u8": (8, False), "u16": (16, False), "u32": (32, False), "u64": (64, False), "usize": (64, False),
         "i8": (8, True), "i16": (16, True), "i32": (32, True), "i64": (64, True), "isize": (64, True),
         "bool": (1, False), "u128": (128, False), "i128": (128, True)}
    if t in m:
        return m[t]
    return (None, None)


# (every free function of the pointer module is a pure bit helper; the methods of its atomic wrappers never reach here:
#  the interpreter stops at the first atomic operation)
WHITELIST_PREFIX = ("ebr_impl::pointers::Tagged::", "ebr_impl::pointers::",
                    "utils::State::", "utils::Modular::", "ebr_impl::epoch::Epoch::",
                    "<ebr_impl::pointers::Tagged<T> as std::convert::From", "<ebr_impl::epoch::Epoch as ")


class Interp:
    def __init__(self, prog, align=8, consts=None):
        self.prog = prog
        self.align = align
        self.consts = consts or {}
        self.assumed = []
        self.steps = 0
        self.funcs = set()
        self.tstack = []

    def call(self, name, args, tenv=None):
        b = self.prog.bodies.get(name)
        if b is None:
            raise Unknown("no body for %s" % name)
        if not norm(name).startswith(WHITELIST_PREFIX) and not name.startswith(WHITELIST_PREFIX):
            raise Unknown("function %s is not in the whitelist of pure functions" % name)
        self.funcs.add(name)
        self.tstack.append(tenv or {})
        try:
            return self._call_body(name, b, args)
        finally:
            self.tstack.pop()

    def _callee_tenv(self, c, cb):
        """what the callee's type parameters stand for: the pointee parameter of the function under analysis (whose
        alignment is the partition variable) or a type whose layout does not depend on it"""
        cur = self.tstack[-1] if self.tstack else {}
        gens = [g for g in sorted(cb.j.get("generics", []), key=lambda g: g.get("index", 0)) if g.get("kind") != "lifetime"]
        cargs = getattr(c, "resolved_args", None) or getattr(c, "args", None) or []
        out = {}
        if len(gens) != len(cargs):
            return out
        for g, a in zip(gens, cargs):
            if g.get("kind") == "type" and a.get("k") == "ty":
                out[g["name"]] = self._tyval(a, cur)
        return out

    @staticmethod
    def _tyval(a, cur):
        if "param" in a:
            return cur.get(a["param"], ("param", a["param"]))
        return ("ty", a.get("ty"), a.get("align"))

    def _call_body(self, name, b, args):
        env = {}
        for i, a in enumerate(args):
            env[i + 1] = a
        bb = 0
        visited = 0
        while True:
            visited += 1
            if visited > 2000:
                raise Unknown("loop in %s" % name)
            blk = b.blocks[bb]
            for st in blk["stmts"]:
                if st["k"] == "assign":
                    self.assign(b, env, st["place"], self.rvalue(b, env, st["rv"]))
            t = blk["term"]
            k = t["k"]
            if k == "goto":
                bb = t["target"]
            elif k == "return":
                return env.get(0)
            elif k == "assert":
                bb = t["target"]
            elif k == "switch":
                d = self.operand(b, env, t["discr"])
                if isinstance(d, W) and d.cst is not None:
                    tgt = t["otherwise"]
                    for v, x in t["targets"]:
                        if int(v) == d.cst:
                            tgt = x
                    bb = tgt
                else:
                    # unknown condition: only a debug assertion may be skipped
                    succ = []
                    for x in [x for _, x in t["targets"]] + [t["otherwise"]]:
                        if x not in succ:
                            succ.append(x)
                    alive = [x for x in succ if not self._diverges(b, x)]
                    if len(alive) == 1:
                        self.assumed.append("%s: %s" % (name, b.loc(bb)))
                        bb = alive[0]
                    else:
                        raise Unknown("branch on a value the domain cannot decide in %s at %s" % (name, b.loc(bb)))
            elif k == "call":
                res = self.do_call(b, env, t)
                if t["target"] is None:
                    raise Unknown("diverging call reached in %s" % name)
                self.assign(b, env, t["dest"], res)
                bb = t["target"]
            elif k == "drop":
                bb = t["target"]
            else:
                raise Unknown("terminator %s in %s" % (k, name))

    def _diverges(self, b, bb):
        seen = set()
        while bb not in seen:
            seen.add(bb)
            t = b.blocks[bb]["term"]
            if t["k"] == "call" and t["target"] is None:
                return True
            if t["k"] == "goto" and not b.blocks[bb]["stmts"]:
                bb = t["target"]
                continue
            return t["k"] in ("unreachable",)
        return False

    # ---- places
    def read(self, b, env, place):
        v = env.get(place["local"])
        if v is None:
            raise Unknown("read of uninitialised _%d in %s" % (place["local"], b.name))
        for e in place["proj"]:
            if e == "deref":
                if isinstance(v, tuple) and v[0] == "ref":
                    v = v[1]
                else:
                    raise Unknown("deref of a non-reference")
            elif "field" in e:
                if isinstance(v, dict):
                    v = v[e.get("name", e["field"])]
                elif isinstance(v, list):
                    v = v[e["field"]]
                else:
                    raise Unknown("field of a non-aggregate")
            elif isinstance(e, dict) and ("index" in e or "const_index" in e):
                # a lookup in a small table with a decided index
                ix = env.get(e["index"]) if "index" in e else W.const(e["const_index"], 64)
                if not isinstance(v, list) or not isinstance(ix, W) or ix.cst is None or not (0 <= ix.cst < len(v)):
                    raise Unknown("indexing with an index the domain cannot decide")
                v = v[ix.cst]
            else:
                raise Unknown("projection %s" % (e,))
        return v

    def assign(self, b, env, place, val):
        if not place["proj"]:
            env[place["local"]] = val
            return
        if len(place["proj"]) == 1 and "field" in place["proj"][0] and isinstance(env.get(place["local"]), dict):
            env[place["local"]] = dict(env[place["local"]])
            env[place["local"]][place["proj"][0].get("name")] = val
            return
        raise Unknown("assignment through a projection in %s" % b.name)

    def operand(self, b, env, op):
        p = op.get("copy") or op.get("move")
        if p is not None:
            return self.read(b, env, p)
        c = op["const"]
        if "int" in c:
            w, s = int_type(c["ty"])
            if w is None:
                # a constant of a one-field struct (`const STARTING: Epoch = Epoch { data: 0 }`) is a scalar to the compiler
                for a in self.prog.items.get("adts", []):
                    if a["path"] == c["ty"] and len(a["variants"]) == 1 and len(a["variants"][0]["fields"]) == 1:
                        f = a["variants"][0]["fields"][0]
                        fw, fs = int_type(f["ty"])
                        if fw is not None:
                            return {"__adt": c["ty"], f["name"]: W.const(int(c["int"]), fw, fs)}
                w, s = c.get("size", 8) * 8, False
            return W.const(int(c["int"]), w, s)
        if "param" in c:
            if c["param"] in self.consts:
                w, s = int_type(c["ty"])
                return W.const(self.consts[c["param"]], w or 32, s or False)
            raise Unknown("const parameter %s unbound" % c["param"])
        if "uneval" in c:
            pc = self.prog.consts.get(c["uneval"])
            if pc is not None and "int" in pc:
                w, s = int_type(c["ty"])
                return W.const(int(pc["int"]), w or 64, s or False)
            if pc is not None and "ints" in pc:
                w, s = int_type(pc.get("elem_ty", "u64"))
                return [W.const(int(x), w or 64, s or False) for x in pc["ints"]]
            cb = self.prog.bodies.get(c["uneval"])
            if cb is not None and cb.kind == "const" and not c.get("promoted"):
                # a generic associated constant: interpret its initialiser under the current const bindings
                return self.call(c["uneval"], [])
        if c.get("zst") or c["ty"] == "()":
            return ("unit",)
        raise Unknown("constant %s" % c["display"])

    def rvalue(self, b, env, rv):
        k = rv["k"]
        if k == "use":
            return self.operand(b, env, rv["op"])
        if k in ("ref", "rawptr"):
            return ("ref", self.read(b, env, rv["place"]))
        if k == "copy_for_deref":
            return self.read(b, env, rv["place"])
        if k == "cast":
            v = self.operand(b, env, rv["op"])
            kind = rv["kind"]
            if isinstance(v, tuple) and v[0] == "ref" and kind.startswith("PointerCoercion"):
                return v
            return cast(v, kind, rv["ty"])
        if k == "binop":
            return binop(rv["op"], self.operand(b, env, rv["l"]), self.operand(b, env, rv["r"]))
        if k == "unop":
            x = self.operand(b, env, rv["x"])
            if rv["op"] == "Not":
                if x.cst is not None:
                    return W.const(~x.cst, x.w, x.signed)
                return W(x.w, x.signed, bits=[bnot(z) for z in x.bits] if x.bits is not None else None)
            if rv["op"] == "Neg":
                return binop("Sub", W.const(0, x.w, x.signed), x)
            raise Unknown("unary %s" % rv["op"])
        if k == "aggregate":
            fields = [self.operand(b, env, f) for f in rv["fields"]]
            if rv["agg"] == "adt":
                d = {"__adt": rv["adt"]}
                for n, f in zip(rv["field_names"], fields):
                    d[n] = f
                return d
            if rv["agg"] == "closure":
                return {"__closure": rv["closure"], "caps": fields}
            return fields
        raise Unknown("rvalue %s" % k)

    # ---- calls
    def do_call(self, b, env, t):
        c = Callee(t)
        args = [self.operand(b, env, a) for a in t["args"]]
        tg = c.target or ""
        nt = norm(tg)
        if tg in self.prog.bodies and (nt.startswith(WHITELIST_PREFIX) or tg.startswith(WHITELIST_PREFIX)):
            return self.call(tg, args, self._callee_tenv(c, self.prog.bodies[tg]))
        if nt == "std::mem::align_of":
            # of WHAT: the pointee parameter (the partition variable) or a type with a layout of its own
            targs = [a for a in (getattr(c, "resolved_args", None) or getattr(c, "args", None) or []) if a.get("k") == "ty"]
            if len(targs) != 1:
                raise Unknown("align_of without a resolvable type argument")
            v = self._tyval(targs[0], self.tstack[-1] if self.tstack else {})
            if v[0] == "param":
                return W.const(self.align, 64)
            if v[2] is None:
                raise Unknown("align_of::<%s>: layout depends on a type parameter" % v[1])
            return W.const(int(v[2]), 64)
        if nt == "core::num::trailing_zeros":
            if args[0].cst is None:
                if args[0].bits is None:
                    raise Unknown("trailing_zeros of a value without known bits")
                # only comparisons with a constant are understood: tz(x) >= n  <=>  the low n bits of x are all zero
                return W(32, False, tz=list(args[0].bits))
            v = args[0].cst
            return W.const((v & -v).bit_length() - 1 if v else 64, 32)
        if nt in ("core::num::wrapping_sub", "core::num::wrapping_add"):
            return binop("Sub" if nt.endswith("sub") else "Add", args[0], args[1])
        if nt == "core::num::rem_euclid":
            x, m = args
            if m.cst is None or m.cst == 0 or (m.cst & (m.cst - 1)):
                raise Unknown("rem_euclid by something other than a power of two")
            if x.cst is not None:
                return W.const(x.sval() % m.cst, x.w, x.signed)
            if x.aff is not None and x.aff[0] % m.cst == 0:
                return W.const(x.aff[1] % m.cst, x.w, x.signed)
            if not x.signed:
                return binop("BitAnd", x, W.const(m.cst - 1, x.w))
            raise Unknown("rem_euclid of a value without a usable abstract form")
        if nt in ("std::ptr::mut_ptr::is_null", "std::ptr::const_ptr::is_null"):
            return compare("Eq", args[0], W.const(0, args[0].w))
        if nt in ("std::ptr::null_mut", "std::ptr::null"):
            return W.const(0, 64)
        if nt == "std::cmp::Ord::max":
            return self.ord_max(args[0], args[1])
        if nt == "core::slice::iter":
            v = args[0]
            if isinstance(v, tuple) and v[0] == "ref":
                v = v[1]
            return ("iter", v)
        if nt in ("std::iter::Iterator::map",) or nt.endswith("Iterator>::map"):
            it, clos = args
            if not (isinstance(it, tuple) and it[0] == "iter"):
                raise Unknown("map over an unknown iterator")
            return ("iter", [self.call(clos["__closure"], [("ref", clos_self(clos)), ("ref", x)]) for x in it[1]])
        if nt in ("std::iter::Iterator::max",) or nt.endswith("Iterator>::max"):
            it = args[0]
            if not (isinstance(it, tuple) and it[0] == "iter"):
                raise Unknown("max over an unknown iterator")
            if not it[1]:
                return {"__adt": "Option", "__variant": "None"}
            acc = it[1][0]
            for x in it[1][1:]:
                acc = self.ord_max(x, acc)
            return {"__adt": "Option", "__variant": "Some", "0": acc}
        if nt == "std::option::Option::unwrap_or":
            o = args[0]
            if isinstance(o, dict) and o.get("__variant") == "Some":
                return o["0"]
            if isinstance(o, dict) and o.get("__variant") == "None":
                return args[1]
            raise Unknown("unwrap_or of an unknown Option")
        if nt.endswith("Iterator>::fold"):
            it, acc, clos = args
            if not (isinstance(it, tuple) and it[0] == "iter"):
                raise Unknown("fold over an unknown iterator")
            for x in it[1]:
                acc = self.call(clos["__closure"], [("ref", clos_self(clos)), acc, ("ref", x)])
            return acc
        if nt.endswith("std::ops::Rem<isize>>::rem") or "as std::ops::Rem" in tg:
            x = args[0][1] if isinstance(args[0], tuple) and args[0][0] == "ref" else args[0]
            y = args[1][1] if isinstance(args[1], tuple) and args[1][0] == "ref" else args[1]
            return binop("Rem", x, y)
        if nt.startswith("<ebr_impl::pointers::Tagged<T> as std::convert::From"):
            return {"__adt": "ebr_impl::pointers::Tagged", "ptr": args[0]}
        mo = re.search(r"<impl std::cmp::PartialOrd for (\w+)>::(le|lt|ge|gt)$", tg) or \
            re.search(r"<impl std::cmp::PartialEq for (\w+)>::(eq|ne)$", tg)
        if mo and int_type(mo.group(1))[0]:
            x = args[0][1] if isinstance(args[0], tuple) and args[0][0] == "ref" else args[0]
            y = args[1][1] if isinstance(args[1], tuple) and args[1][0] == "ref" else args[1]
            return compare({"le": "Le", "lt": "Lt", "ge": "Ge", "gt": "Gt", "eq": "Eq", "ne": "Ne"}[mo.group(2)], x, y)
        m = re.search(r"<impl std::convert::From<(\w+)> for (\w+)>::from$", tg)
        if m and int_type(m.group(1))[0] and int_type(m.group(2))[0]:
            return cast(args[0], "IntToInt", m.group(2))       # u64::from(x: u32): the lossless widening `as`
        if nt == "std::convert::From::from" or nt == "std::convert::Into::into":
            return args[0]
        if nt == "std::ptr::const_ptr::cast_mut":
            return args[0]
        if nt == "std::default::Default::default" or nt.endswith("Default>::default"):
            if (c.full or "").startswith("<usize as "):
                return W.const(0, 64)
            raise Unknown("Default::default of %s" % c.full)
        raise Unknown("call to unmodelled function %s in %s" % (tg, b.name))

    def ord_max(self, a, b):
        r = compare("Ge", a, b)
        return a if r.cst == 1 else b


def clos_self(clos):
    # closure environment as the callee sees it: a struct with positional fields
    return clos["caps"]
