"""WRAP-ATOMICS, CW-ALLOC-INIT, EBR-DEFAULT-COLLECTOR, CW-DEFER-WRAPPER: the thin wrappers that the other rules
trust by name are themselves checked to do exactly what their name says (operands in order, same cell, no extra
effect)."""
from .facts import AnalysisError
from .report import RuleResult
from .sym import norm, show, strip, subterms
from .cw import const_of, _uncast
from .rules_cw import closure_name, deferred_callee

AE = "ebr_impl::epoch::AtomicEpoch::"
RA = "ebr_impl::pointers::RawAtomic::<T>::"


def _ret_paths(ctx, name):
    b = ctx.prog.body(name)
    return b, [p for p in ctx.ex.paths(b) if p.exit[0] == "return"]


def _field_of_arg(t, field, argi):
    t = strip(t)
    return isinstance(t, tuple) and t[0] == "field" and t[1] == field and strip(t[2])[0] == "arg" and strip(t[2])[1] == argi


def _calls(p, pred=None):
    return [e for e in p.events if e.kind == "call" and (pred is None or pred(e))]


def _is_ptr_word(x):
    """`self.ptr as usize`"""
    return "ptr" in show(x) and not any(y[0] == "call" for y in subterms(x))


def _mask_sig(p, term):
    """(shape of the term, the calls that compute it with their type arguments)"""
    import re
    from .sym import event_type_args
    subs = list(subterms(term)) + [strip(term)]
    calls = sorted((e.ntarget or "", tuple(event_type_args(e))) for e in p.events
                   if e.kind == "call" and e.result is not None and e.result in subs)
    return (re.sub(r"#\d+", "", show(term)), tuple(calls))


def rule_wrap_atomics(ctx):
    r = RuleResult("WRAP-ATOMICS", ["C13", "C14", "C17", "C18"],
                   "AtomicEpoch::{load,store,compare_exchange} and RawAtomic::{load,store,compare_exchange(_weak),fetch_or} are "
                   "exactly the atomic operation of that name on their own cell, operands in order, result variants preserved")
    prog = ctx.prog

    def bad(name, what, b):
        r.violate(name, "wrapper", what, b.loc(0))
    # ---- AtomicEpoch
    b, ps = _ret_paths(ctx, AE + "load")
    ok = len(ps) == 1
    if ok:
        c = _calls(ps[0])
        ok = len(c) == 1 and norm(c[0].target) == "std::sync::atomic::Atomic::load" and _field_of_arg(c[0].args[0], "data", 1) \
            and strip(ps[0].ret)[0] == "agg" and strip(strip(ps[0].ret)[3][0]) == c[0].result
    r.instance("AtomicEpoch::load == Epoch{data: self.data.load(ord)}", ok)
    if not ok:
        bad(b.name, "AtomicEpoch::load is not a plain atomic load of its own cell", b)
    if AE + "new" in prog.bodies:
        b, ps = _ret_paths(ctx, AE + "new")
        ok = len(ps) == 1
        if ok:
            ret = strip(ps[0].ret)
            ok = isinstance(ret, tuple) and ret[0] == "agg" and ret[1] == "ebr_impl::epoch::AtomicEpoch" and len(ret[3]) == 1
            if ok:
                v = strip(ret[3][0])
                ok = isinstance(v, tuple) and v[0] == "call" and norm(v[1]) == "std::sync::atomic::Atomic::new" and \
                    _field_of_arg(v[2][0], "data", 1)
        r.instance("AtomicEpoch::new == AtomicEpoch{data: AtomicUsize::new(epoch.data)}", ok)
        if not ok:
            bad(b.name, "AtomicEpoch::new does not start the cell at exactly the given epoch", b)
    b, ps = _ret_paths(ctx, AE + "store")
    ok = len(ps) == 1
    if ok:
        c = _calls(ps[0])
        ok = len(c) == 1 and norm(c[0].target) == "std::sync::atomic::Atomic::store" and _field_of_arg(c[0].args[0], "data", 1) \
            and _field_of_arg(c[0].args[1], "data", 2)
    r.instance("AtomicEpoch::store == self.data.store(epoch.data, ord)", ok)
    if not ok:
        bad(b.name, "AtomicEpoch::store does not store exactly the given epoch into its own cell", b)
    b, ps = _ret_paths(ctx, AE + "compare_exchange")
    ok = len(ps) == 2
    for p in ps:
        c = _calls(p)
        if not (len(c) == 1 and norm(c[0].target) == "std::sync::atomic::Atomic::compare_exchange"
                and _field_of_arg(c[0].args[0], "data", 1) and _field_of_arg(c[0].args[1], "data", 2)
                and _field_of_arg(c[0].args[2], "data", 3)):
            ok = False
            continue
        out = ctx.cas_outcome(p, c[0].result, p.events.index(c[0]))
        ret = strip(p.ret)
        var = ret[2] if ret[0] == "agg" else None
        payload = ("field", "0", ("variant", "Ok" if out == "ok" else "Err", c[0].result))
        # (the path reader reads the Ok payload of a std compare_exchange as its `current` argument)
        payloads = (payload, strip(c[0].args[1])) if out == "ok" else (payload,)
        inner = strip(ret[3][0]) if ret[0] == "agg" and ret[3] else None
        ok = ok and ((out == "ok") == (var == "Ok")) and inner is not None and inner[0] == "agg" and strip(inner[3][0]) in payloads
    r.instance("AtomicEpoch::compare_exchange == self.data.compare_exchange(current.data, new.data, ..) with Ok/Err preserved", ok)
    if not ok:
        bad(b.name, "AtomicEpoch::compare_exchange does not forward (current, new) in order or swaps its result variants", b)
    # ---- RawAtomic
    b, ps = _ret_paths(ctx, RA + "load")
    ok = len(ps) == 1
    if ok:
        c = _calls(ps[0], lambda e: norm(e.target or "").startswith("atomic::Atomic::"))
        ok = len(c) == 1 and norm(c[0].target) == "atomic::Atomic::load" and _field_of_arg(c[0].args[0], "inner", 1) and \
            c[0].result in list(subterms(ps[0].ret))
    r.instance("RawAtomic::load == RawShared::from(self.inner.load(order))", ok)
    if not ok:
        bad(b.name, "RawAtomic::load is not a plain load of its own cell", b)
    b, ps = _ret_paths(ctx, RA + "store")
    ok = len(ps) == 1
    if ok:
        c = _calls(ps[0], lambda e: norm(e.target or "").startswith("atomic::Atomic::"))
        ok = len(c) == 1 and norm(c[0].target) == "atomic::Atomic::store" and _field_of_arg(c[0].args[0], "inner", 1) and \
            _field_of_arg(c[0].args[1], "inner", 2)
    r.instance("RawAtomic::store == self.inner.store(val.inner, order)", ok)
    if not ok:
        bad(b.name, "RawAtomic::store does not store exactly the given pointer into its own cell", b)
    for nm, op in ((RA + "compare_exchange", "atomic::Atomic::compare_exchange"),
                   (RA + "compare_exchange_weak", "atomic::Atomic::compare_exchange_weak")):
        b, ps = _ret_paths(ctx, nm)
        ok = len(ps) == 2
        seen = set()
        for p in ps:
            c = _calls(p, lambda e: norm(e.target or "").startswith("atomic::Atomic::"))
            if not (len(c) == 1 and norm(c[0].target) == op and _field_of_arg(c[0].args[0], "inner", 1)
                    and _field_of_arg(c[0].args[1], "inner", 2) and _field_of_arg(c[0].args[2], "inner", 3)):
                ok = False
                continue
            out = ctx.cas_outcome(p, c[0].result, p.events.index(c[0]))
            ret = strip(p.ret)
            var = ret[2] if ret[0] == "agg" else None
            seen.add(out)
            want2 = ("field", "0", ("variant", "Ok" if out == "ok" else "Err", c[0].result))
            has = any(x == want2 for x in subterms(ret))
            ok = ok and ((out == "ok") == (var == "Ok")) and has
        ok = ok and seen == {"ok", "err"}
        r.instance("%s forwards (current.inner, new.inner) in order with Ok/Err preserved" % nm.split("::")[-1], ok)
        if not ok:
            bad(b.name, "does not forward (current, new) in order to the atomic of the same name or swaps its result variants", b)
    b, ps = _ret_paths(ctx, RA + "fetch_or")
    ok = len(ps) == 1
    if ok:
        c = _calls(ps[0], lambda e: norm(e.target or "") == "std::sync::atomic::Atomic::fetch_or")
        ok = len(c) == 1 and "inner" in show(c[0].args[0]) and c[0].result in list(subterms(ps[0].ret))
        if ok:
            # the mask is the one Tagged::tag reads the tag with (whose bit-level meaning BIT-TAGGED decides): the same
            # term, computed by the same calls with the same type arguments - however the helper is named or placed
            v = strip(c[0].args[1])
            ok = isinstance(v, tuple) and v[0] == "bin" and v[1] == "BitAnd" and \
                any(strip(x) == ("arg", 2, b.local_name(2)) for x in (v[2], v[3]))
            if ok:
                mask = [x for x in (v[2], v[3]) if strip(x) != ("arg", 2, b.local_name(2))][0]
                tb, tps = _ret_paths(ctx, "ebr_impl::pointers::Tagged::<T>::tag")
                ok = len(tps) == 1
                if ok:
                    tv = strip(tps[0].ret)
                    ok = isinstance(tv, tuple) and tv[0] == "bin" and tv[1] == "BitAnd"
                    if ok:
                        tmask = [x for x in (tv[2], tv[3]) if not _is_ptr_word(x)]
                        ok = len(tmask) == 1 and _mask_sig(ps[0], mask) == _mask_sig(tps[0], tmask[0])
    r.instance("RawAtomic::fetch_or == one atomic fetch_or of (tag & low_bits) on its own cell", ok)
    if not ok:
        bad(b.name, "RawAtomic::fetch_or is not a single atomic fetch_or of the masked tag on its own cell", b)
    # ---- RawShared: the pointer type of the collector's own queue and list is a Tagged with a lifetime; every accessor is
    # the Tagged accessor of the same name on its own word, operands in order (EBR-QUEUE / EBR-LIST reason with these)
    RS = "ebr_impl::pointers::RawShared::<'g, T>::"
    TG = "ebr_impl::pointers::Tagged::<T>::"
    for m, nargs in (("tag", 1), ("with_tag", 2), ("as_raw", 1), ("ptr_eq", 2), ("deref", 1), ("as_ref", 1)):
        if RS + m not in prog.bodies:
            continue
        b, ps = _ret_paths(ctx, RS + m)
        ok = len(ps) == 1
        if ok:
            c = _calls(ps[0], lambda e: (e.target or "") == TG + m)
            ok = len(c) == 1 and len(c[0].args) == nargs and "inner" in show(c[0].args[0]) and \
                any(y == ("arg", 1, b.local_name(1)) for y in subterms(c[0].args[0])) and \
                c[0].result in [strip(ps[0].ret)] + list(subterms(ps[0].ret))
            if ok and nargs == 2:
                a2 = strip(c[0].args[1])
                ok = any(y == ("arg", 2, b.local_name(2)) for y in [a2] + list(subterms(a2)))
            if ok:
                # nothing else but the wrapping back into a RawShared
                ok = all(e is c[0] or ("RawShared" in (e.target or "") and (e.target or "").endswith(">::from")) for e in _calls(ps[0]))
        r.instance("RawShared::%s == Tagged::%s on its own word" % (m, m), ok)
        if not ok:
            bad(b.name, "RawShared::%s is not exactly Tagged::%s of its own word (operands in order, result returned)" % (m, m), b)
    if RS + "from_owned" in prog.bodies:
        b, ps = _ret_paths(ctx, RS + "from_owned")
        ok = len(ps) == 1
        if ok:
            nm = [norm(e.target or "") for e in _calls(ps[0])]
            ok = nm.count("std::boxed::Box::new") == 1 and nm.count("std::boxed::Box::into_raw") == 1 and \
                any(strip(e.args[0]) == ("arg", 1, b.local_name(1)) for e in _calls(ps[0]) if norm(e.target or "") == "std::boxed::Box::new")
        r.instance("RawShared::from_owned == Box::into_raw(Box::new(init))", ok)
        if not ok:
            bad(b.name, "RawShared::from_owned does not box exactly its argument", b)
    if RS + "drop" in prog.bodies:
        b, ps = _ret_paths(ctx, RS + "drop")
        ok = len(ps) == 1
        if ok:
            fr = _calls(ps[0], lambda e: norm(e.target or "") == "std::boxed::Box::from_raw")
            ok = len(fr) == 1 and any(isinstance(y, tuple) and y[0] == "call" and y[1] == TG + "as_raw" for y in subterms(fr[0].args[0])) and \
                (any(e.kind == "drop" for e in ps[0].events) or bool(_calls(ps[0], lambda e: norm(e.target or "") == "std::mem::drop")))
        r.instance("RawShared::drop == drop(Box::from_raw(self.inner.as_raw()))", ok)
        if not ok:
            bad(b.name, "RawShared::drop does not free exactly the allocation behind the untagged address", b)
    # ---- IsElement for Local: entry_of adds, element_of subtracts, the same offset
    eo = prog.body("<ebr_impl::internal::Local as ebr_impl::sync::list::IsElement<ebr_impl::internal::Local>>::entry_of")
    el = prog.body("<ebr_impl::internal::Local as ebr_impl::sync::list::IsElement<ebr_impl::internal::Local>>::element_of")
    def offs(b, op):
        ps = [p for p in ctx.ex.paths(b) if p.exit[0] == "return"]
        if len(ps) != 1:
            return None
        for x in subterms(ps[0].ret):
            if x[0] == "bin" and x[1] == op and "Local.entry" in show(x[3]):
                return show(x[3]).replace(show(x[3]).split("#")[-1][:0], "")
        return None
    a, s = offs(eo, "Add"), offs(el, "Sub")
    import re
    norm_ = lambda z: re.sub(r"#\d+", "", z) if z else z
    ok = a is not None and s is not None and norm_(a) == norm_(s)
    r.instance("IsElement<Local>: entry_of adds and element_of subtracts the same offset_of!(Local, entry)", ok)
    if not ok:
        r.violate(el.name, "offset", "entry_of / element_of do not use the same offset in opposite directions", el.loc(0))
    fin = prog.body("<ebr_impl::internal::Local as ebr_impl::sync::list::IsElement<ebr_impl::internal::Local>>::finalize")
    ps = [p for p in ctx.ex.paths(fin) if p.exit[0] == "return"]
    ok = len(ps) == 1 and len(_calls(ps[0], lambda e: e.target == "ebr_impl::guard::Guard::defer_destroy")) == 1 and \
        any(e.target == el.name for e in _calls(ps[0]))
    r.instance("IsElement<Local>::finalize defers the destruction of element_of(entry)", ok)
    if not ok:
        r.violate(fin.name, "finalize", "finalize does not defer_destroy the Local that owns the entry", fin.loc(0))
    r.require(len(r.instances), 14, "wrapper obligations")
    return r


def rule_alloc_init(ctx):
    r = RuleResult("CW-ALLOC-INIT", ["C01", "C03", "C04", "C10"],
                   "RcInner::alloc starts the count word at init_strong * COUNT + WEAK_COUNT (the strong side's implicit weak "
                   "share), no flag set; the payload is wrapped in ManuallyDrop; dealloc frees exactly that Box")
    prog = ctx.prog
    b, ps = _ret_paths(ctx, "utils::RcInner::<T>::alloc")
    ok = len(ps) == 1
    what = None
    if ok:
        p = ps[0]
        init = [e for e in _calls(p) if norm(e.target) == "std::sync::atomic::Atomic::new"]
        ok = len(init) == 1
        if ok:
            # linear form of the initial value in `init_strong`
            lin = _linear(init[0].args[0], ("arg", 2, b.local_name(2)))
            ok = lin == (ctx.COUNT, ctx.WEAK_COUNT)
            what = "initial count word = %s*init_strong + %s" % lin if lin else "initial count word is not linear in init_strong"
            md = [e for e in _calls(p) if norm(e.target) == "std::mem::ManuallyDrop::new" and strip(e.args[0]) == ("arg", 1, b.local_name(1))]
            bx = [e for e in _calls(p) if norm(e.target) == "std::boxed::Box::into_raw"]
            ok = ok and len(md) == 1 and len(bx) == 1 and strip(p.ret) == bx[0].result
    r.instance("alloc: state := init_strong*COUNT + WEAK_COUNT; storage := ManuallyDrop::new(obj); Box::into_raw", ok)
    if not ok:
        r.violate(b.name, "init", "the object does not start with `init_strong` strong shares plus the implicit weak share and "
                  "clear flags (%s)" % what, b.loc(0))
    b, ps = _ret_paths(ctx, "utils::RcInner::<T>::dealloc")
    ok = len(ps) == 1
    if ok:
        fr = [e for e in _calls(ps[0]) if norm(e.target) == "std::boxed::Box::from_raw"]
        ok = len(fr) == 1 and strip(fr[0].args[0]) == ("arg", 1, b.local_name(1))
        dropped = [e for e in ps[0].events if e.kind == "drop" and "Box<" in e.ty] or \
            [e for e in _calls(ps[0]) if norm(e.target) == "std::mem::drop"]
        ok = ok and bool(dropped)
    r.instance("dealloc: drop(Box::from_raw(ptr))", ok)
    if not ok:
        r.violate(b.name, "free", "dealloc does not free exactly the Box of its argument", b.loc(0))
    # the storage field is ManuallyDrop (so freeing the block never runs T's destructor a second time)
    ok = any(a["path"] == "utils::RcInner" and any(f["name"] == "storage" and "ManuallyDrop<" in f["ty"] for f in a["variants"][0]["fields"])
             for a in prog.items["adts"])
    r.instance("RcInner.storage is ManuallyDrop<T>", ok)
    if not ok:
        r.violate("utils::RcInner", "storage", "the payload is not ManuallyDrop: freeing the block would destruct it again")
    return r


def _linear(t, var):
    """a*var + b for terms built from casts, Mul/Add with constants"""
    t = _uncast(strip(t))
    if t == var:
        return (1, 0)
    c = const_of(t)
    if c is not None:
        return (0, c)
    if isinstance(t, tuple) and t[0] == "bin" and t[1] in ("Add", "Mul"):
        l, rr = _linear(t[2], var), _linear(t[3], var)
        if l is None or rr is None:
            return None
        if t[1] == "Add":
            return (l[0] + rr[0], l[1] + rr[1])
        if l[0] == 0:
            return (rr[0] * l[1], rr[1] * l[1])
        if rr[0] == 0:
            return (l[0] * rr[1], l[1] * rr[1])
    return None


def rule_default_collector(ctx):
    r = RuleResult("EBR-DEFAULT-COLLECTOR", ["C02", "C13", "C14"],
                   "cs() pins a participant of the same collector whose epoch global_epoch() reads (the stamps of the reference-"
                   "counting layer and the grace periods of EBR use one clock)")
    prog = ctx.prog
    COL = "ebr_impl::default::collector"
    b, ps = _ret_paths(ctx, "ebr_impl::default::global_epoch")
    ok = len(ps) == 1
    if ok:
        ret = strip(ps[0].ret)
        ok = ret[0] == "call" and ret[1] == "ebr_impl::epoch::Epoch::value"
        ge = strip(ret[2][0]) if ok else None
        ok = ok and ge[0] == "call" and ge[1] == "ebr_impl::collector::Collector::global_epoch" and \
            strip(ge[2][0])[0] == "call" and strip(ge[2][0])[1] in ("ebr_impl::default::default_collector", COL)
    r.instance("global_epoch() == default_collector().global_epoch().value()", ok)
    if not ok:
        r.violate(b.name, "clock", "global_epoch() does not read the default collector's epoch value", b.loc(0))
    b, ps = _ret_paths(ctx, "ebr_impl::collector::Collector::global_epoch")
    ok = len(ps) == 1 and "Global.epoch" in show(ps[0].ret) and "load" in show(ps[0].ret)
    r.instance("Collector::global_epoch loads Global.epoch", ok)
    if not ok:
        r.violate(b.name, "clock", "Collector::global_epoch does not load the collector's Global.epoch", b.loc(0))
    b, ps = _ret_paths(ctx, "ebr_impl::default::default_collector")
    ok = len(ps) == 1 and strip(ps[0].ret)[0] == "call" and strip(ps[0].ret)[1] == COL
    r.instance("default_collector() == collector()", ok)
    if not ok:
        r.violate(b.name, "collector", "default_collector() is not the collector the thread-local handle registers with", b.loc(0))
    # there is ONE default collector: collector() initialises a static cell, and the initialiser runs under mutual
    # exclusion - std's OnceLock/LazyLock, or a `Once::call_once` on a Once that lives in the cell.  Two racing first
    # cs() calls must not both run Collector::new (the loser's participants sit in an orphaned registry that no
    # try_advance of the surviving collector ever visits, and read a different clock)
    colb = prog.body(COL)
    tgs = [c.target or "" for (_, _, c) in colb.calls()]
    cells = [x for x in prog.items.get("statics", []) if "Collector" in x.get("ty", "") and x["path"].startswith("ebr_impl::default::")]
    okc = len(cells) == 1 and not cells[0].get("thread_local") and not cells[0].get("mutable")
    if okc:
        okc = False
        for p in ctx.ex.paths(colb):
            for e in p.events:
                if e.kind in ("call", "hof") and e.args and "alloc" in show(e.args[0]) and "Collector" in show(e.args[0]):
                    okc = True
    r.instance("collector() hands out the content of one process-wide (non-thread-local, immutable) static cell", okc)
    if not okc:
        r.violate(COL, "cell", "the default collector does not live in exactly one process-wide static cell that collector() "
                  "initialises and returns: threads would register with different collectors (different registries and clocks)",
                  colb.loc(0))
    std_once = any(norm(t).startswith(("std::sync::OnceLock", "std::sync::LazyLock", "std::sync::once_lock::OnceLock",
                                       "std::sync::lazy_lock::LazyLock")) for t in tgs)
    if std_once:
        r.instance("collector() initialises its static through std's OnceLock/LazyLock", True)
    else:
        reach, work = set(), [COL]
        while work:
            v = work.pop()
            if v in reach or v not in prog.bodies or v.startswith("ebr_impl::collector::") or v.startswith("ebr_impl::internal::"):
                continue
            reach.add(v)
            work.extend((c.target or "") for (_, _, c) in prog.bodies[v].calls())
            work.extend(x.name for x in prog.closures_of(v))
        # closures handed to Once::call_once(_force) on a Once stored in the cell (reached through self)
        guarded = set()
        for v in reach:
            vb = prog.bodies[v]
            if vb.kind == "closure":
                continue
            for p in ctx.ex.paths(vb):
                for e in p.events:
                    if e.kind in ("call", "hof") and norm(e.target or "") in ("std::sync::Once::call_once", "std::sync::Once::call_once_force"):
                        recv = show(e.args[0])
                        if "self" in recv and "." in recv:
                            guarded.update(e.callee.closure_args() if getattr(e, "callee", None) is not None else [])
        # a helper all of whose callers are guarded closures (or such helpers) runs under the Once too
        callers = {}
        for v in reach:
            for (_, _, c) in prog.bodies[v].calls():
                if c.target in reach:
                    callers.setdefault(c.target, set()).add(v)
        changed = True
        while changed:
            changed = False
            for f, cs_ in callers.items():
                if f not in guarded and prog.bodies[f].kind != "closure" and cs_ and all(x in guarded for x in cs_):
                    guarded.add(f)
                    changed = True
        nsites = 0
        bad_sites = []
        for v in sorted(reach):
            for (bi, _, c) in prog.bodies[v].calls():
                nt = norm(c.target or "")
                if nt in ("std::ptr::mut_ptr::write", "std::ptr::write", "std::mem::MaybeUninit::write") or \
                        (nt == "std::ops::FnOnce::call_once" and "once_lock" in v):
                    nsites += 1
                    if v not in guarded:
                        bad_sites.append((v, bi, nt))
        ok = nsites >= 2 and not bad_sites
        r.instance("the default collector's cell is initialised only inside Once::call_once on the cell's own Once "
                   "(%d initialising steps, guarded closures %s)" % (nsites, sorted(x.split("::")[-2] + "::" + x.split("::")[-1] for x in guarded)), ok)
        if nsites < 2 and not bad_sites:
            r.floor_failures.append("EBR-DEFAULT-COLLECTOR: found %d initialising steps of the default collector's cell, expected "
                                    "at least 2 (anchor lost?)" % nsites)
        for (v, bi, nt) in bad_sites:
            r.violate(v, "init-race:" + nt.split("::")[-1], "the default collector's cell is initialised outside a "
                      "`Once::call_once` of the cell's own Once: two threads whose first critical sections overlap both run "
                      "Collector::new, the later write wins, and the participants already registered with the other collector "
                      "are never visited by try_advance (and read another clock)", prog.bodies[v].loc(bi))
        # the hand-written cell publishes through a flag: the flag is set with release after the slot was written, and read
        # with acquire before the slot is (mutation sweep 3; no test on x86-64 can see the difference)
        from .rules_ord import ord_of, has_rel, has_acq
        nflag = 0
        for v in sorted(reach):
            vb = prog.bodies[v]
            for p in ctx.ex.paths(vb):
                for e in p.events:
                    if e.kind != "call" or not e.args:
                        continue
                    nt = norm(e.target or "")
                    if not nt.startswith("std::sync::atomic::Atomic") or nt.split("::")[-1] not in ("load", "store"):
                        continue      # (every atomic flag of the cell's own code: `reach` stops at the collector itself)
                    o = [ord_of(a) for a in e.args if ord_of(a) is not None]
                    if nt.endswith("::store"):
                        nflag += 1
                        okf = bool(o) and has_rel(o[0])
                        r.instance("%s: the initialised flag is set with %s (floor Release)" % (v.split("::")[-1], o[0] if o else "?"), okf)
                        if not okf:
                            r.violate(v, "flag-store", "the flag that publishes the default collector is set with ordering %s, weaker "
                                      "than Release: a thread that sees the flag may read the slot before it was written" % (o[0] if o else "?"),
                                      e.loc())
                    elif nt.endswith("::load"):
                        nflag += 1
                        okf = bool(o) and has_acq(o[0])
                        r.instance("%s: the initialised flag is read with %s (floor Acquire)" % (v.split("::")[-1], o[0] if o else "?"), okf)
                        if not okf:
                            r.violate(v, "flag-load", "the flag that guards the fast path to the default collector is read with ordering "
                                      "%s, weaker than Acquire: the slot may be read before its initialisation is visible" % (o[0] if o else "?"),
                                      e.loc())
        if nflag < 2 and not r.violations:
            r.floor_failures.append("EBR-DEFAULT-COLLECTOR: found %d accesses of the cell's initialised flag, expected at least 2" % nflag)
    # HANDLE's initialiser registers with collector()
    init = prog.body("ebr_impl::default::HANDLE::__rust_std_internal_init_fn")
    tg = [c.target for (_, _, c) in init.calls()]
    ok = COL in tg and "ebr_impl::collector::Collector::register" in tg
    r.instance("HANDLE = collector().register()", ok)
    if not ok:
        r.violate(init.name, "handle", "the thread-local handle is not registered with collector()", init.loc(0))
    # cs() = with_handle(|h| h.pin()); LocalHandle::pin -> (*local).pin(); Collector::register -> Local::register(self)
    csb = prog.body("ebr_impl::default::cs")
    cl = [b2 for b2 in prog.closures_of("ebr_impl::default::cs")]
    # (the callable handed to with_handle is a closure that calls LocalHandle::pin, or that very function as a fn item)
    ok = any(c.target == "ebr_impl::default::with_handle" for (_, _, c) in csb.calls()) and \
        (any(c.target == "ebr_impl::collector::LocalHandle::pin" for b2 in cl for (_, _, c) in b2.calls()) or
         any(path == "ebr_impl::collector::LocalHandle::pin" for (_, path) in csb.fn_refs()))
    r.instance("cs() == with_handle(|h| h.pin())", ok)
    if not ok:
        r.violate(csb.name, "pin", "cs() does not pin through the thread's handle", csb.loc(0))
    lp = prog.body("ebr_impl::collector::LocalHandle::pin")
    ok = any(c.target == "ebr_impl::internal::Local::pin" for (_, _, c) in lp.calls())
    r.instance("LocalHandle::pin == (*self.local).pin()", ok)
    if not ok:
        r.violate(lp.name, "pin", "LocalHandle::pin does not pin its Local", lp.loc(0))
    rg = prog.body("ebr_impl::collector::Collector::register")
    ok = any(c.target == "ebr_impl::internal::Local::register" for (_, _, c) in rg.calls())
    r.instance("Collector::register == Local::register(self)", ok)
    if not ok:
        r.violate(rg.name, "register", "Collector::register does not register a Local with itself", rg.loc(0))
    lr = prog.body("ebr_impl::internal::Local::register")
    okr = False
    for p in ctx.ex.paths(lr):
        ins = [e for e in _calls(p) if norm(e.target or "") == "ebr_impl::sync::list::List::insert"]
        cl2 = [e for e in _calls(p) if "Clone" in (e.target or "") or norm(e.target or "").endswith("Collector as std::clone::Clone>::clone")]
        if ins and "Global.locals" in show(ins[0].args[0]) and "collector" in show(ins[0].args[0]):
            okr = True
    r.instance("Local::register inserts the new Local into the registry of the collector it was given", okr)
    if not okr:
        r.violate(lr.name, "register", "the new participant is not inserted into its own collector's registry", lr.loc(0))
    ld = prog.body("<ebr_impl::collector::LocalHandle as std::ops::Drop>::drop")
    ok = any(c.target == "ebr_impl::internal::Local::release_handle" for (_, _, c) in ld.calls())
    r.instance("LocalHandle::drop == release_handle", ok)
    if not ok:
        r.violate(ld.name, "drop", "dropping a handle does not release it", ld.loc(0))
    ah = prog.body("ebr_impl::internal::Local::acquire_handle")
    okh = False
    for p in ctx.ex.paths(ah):
        if p.exit[0] != "return":
            continue
        sets = [e for e in _calls(p) if e.ntarget == "std::cell::Cell::set" and "Local.handle_count" in show(e.args[0])]
        okh = len(sets) == 1 and isinstance(sets[0].args[1], tuple) and sets[0].args[1][0] == "bin" and sets[0].args[1][1] == "Add" \
            and const_of(sets[0].args[1][3]) == 1
    r.instance("acquire_handle: handle_count += 1", okh)
    if not okh:
        r.violate(ah.name, "count", "acquire_handle does not increment handle_count by one", ah.loc(0))
    return r


def rule_defer_wrapper(ctx):
    r = RuleResult("CW-DEFER-WRAPPER", ["C01", "C02", "C03", "C13"],
                   "Deferable::defer_with_inner defers exactly `f(ptr)` through a guard: the Option<&Guard> impl uses the given "
                   "guard or a fresh cs(); the Guard impl hands `move || f(ptr)` to defer_unchecked; defer_unchecked wraps it in "
                   "a Deferred given to Local::defer")
    prog = ctx.prog
    G = "<ebr_impl::guard::Guard as utils::Deferable>::defer_with_inner"
    O = "<std::option::Option<&ebr_impl::guard::Guard> as utils::Deferable>::defer_with_inner"
    n = 0
    if G not in prog.bodies and O not in prog.bodies:
        # the trait is gone: whatever wraps defer_unchecked now is a helper introduced by a refactoring, read inlined at
        # its call sites, where every hand-off is resolved by evaluating the closure that reaches defer_unchecked
        # (rules_cw.resolve_deferred). What remains here is that such wrappers exist and do not run f themselves.
        from .rules_cw import resolve_deferred
        helpers = [h for h in prog.auto_inline() if any(c.target == "ebr_impl::guard::Guard::defer_unchecked"
                                                        for bb_ in [prog.bodies[h]] + prog.closures_of(h)
                                                        for (_, _, c) in bb_.calls())]
        r.instance("deferral wrappers are refactoring helpers read inlined: %s" % sorted(helpers), bool(helpers))
        if not helpers:
            r.violate("utils", "wrapper", "no function hands closures to Guard::defer_unchecked any more")
        for h in helpers:
            hb = prog.body(h)
            for p in ctx.ex.paths(hb):
                if p.exit[0] != "return":
                    continue
                du_ = [e for e in _calls(p) if e.target == "ebr_impl::guard::Guard::defer_unchecked"]
                direct = [e for e in _calls(p) if "call_once" in (e.target or "") and not e.frame]
                if not du_ and not direct:
                    # the primitive is reached through a trait method of `Self` that cannot be resolved standalone
                    # (a provided method): the hand-offs are resolved where the helper is read inlined
                    n += 3
                    r.instance("%s: judged at its call sites (generic over the implementor)" % h.split("::")[-1], True)
                    continue
                ok = len(du_) == 1 and not direct
                n += 3
                r.instance("%s defers its closure exactly once and does not run it" % h.split("::")[-1], ok)
                if not ok:
                    r.violate(h, "defer", "does not hand its closure to defer_unchecked exactly once (or runs it directly)",
                              hb.loc(0))
        ps = []
        b = None
    else:
        b, ps = _ret_paths(ctx, O)
    for p in ps:
        c = [e for e in _calls(p) if e.target == G]
        direct = [e for e in _calls(p) if "call_once" in (e.target or "")]
        some = any(e.kind == "cond" and isinstance(e.term, tuple) and e.term[0] == "disc" and e.value == 1 for e in p.events)
        ok = len(c) == 1 and not direct and strip(c[0].args[1]) == ("arg", 2, b.local_name(2)) and \
            strip(c[0].args[2]) == ("arg", 3, b.local_name(3))
        if ok and not some:
            g = strip(c[0].args[0])
            ok = isinstance(g, tuple) and g[0] == "call" and g[1] == "ebr_impl::default::cs"
        n += 1
        r.instance("Option<&Guard>::defer_with_inner (%s) forwards (ptr, f) to a guard" % ("Some" if some else "None -> cs()"), ok)
        if not ok:
            r.violate(O, "forward", "does not forward (ptr, f) to Guard::defer_with_inner with the given guard / a fresh cs() "
                      "(or runs f directly)", b.loc(0))
    b, ps = _ret_paths(ctx, G) if G in prog.bodies else (None, [])
    for p in ps:
        c = [e for e in _calls(p) if e.target == "ebr_impl::guard::Guard::defer_unchecked"]
        direct = [e for e in _calls(p) if "call_once" in (e.target or "")]
        ok = len(c) == 1 and not direct and strip(c[0].args[0]) == ("arg", 1, b.local_name(1))
        if ok:
            cn = closure_name(c[0].args[1])
            cb = prog.bodies.get(cn)
            ok = cb is not None
            if ok:
                # the closure calls f(ptr) once with the captured pointer
                cps = [q for q in ctx.ex.paths(cb) if q.exit[0] == "return"]
                ok = len(cps) == 1 and len([e for e in _calls(cps[0]) if "call_once" in (e.target or "")]) == 1
                caps = strip(c[0].args[1])[3] if strip(c[0].args[1])[0] == "agg" else ()
                ok = ok and {strip(x) for x in caps} == {("arg", 2, b.local_name(2)), ("arg", 3, b.local_name(3))}
        n += 1
        r.instance("Guard::defer_with_inner == self.defer_unchecked(move || f(ptr))", ok)
        if not ok:
            r.violate(G, "defer", "does not hand exactly `move || f(ptr)` to defer_unchecked of the same guard", b.loc(0))
    du = prog.body("ebr_impl::guard::Guard::defer_unchecked")
    for p in ctx.ex.paths(du):
        if p.exit[0] != "return":
            continue
        d = [e for e in _calls(p) if e.target == "ebr_impl::internal::Local::defer"]
        if d:
            nw = [e for e in _calls(p) if e.target == "ebr_impl::deferred::Deferred::new"]
            ok = len(d) == 1 and len(nw) == 1 and strip(d[0].args[1]) == nw[0].result and strip(d[0].args[2]) == ("arg", 1, du.local_name(1))
            n += 1
            r.instance("defer_unchecked: local.defer(Deferred::new(..), self)", ok)
            if not ok:
                r.violate(du.name, "defer", "the Deferred handed to Local::defer is not the one built from the closure", du.loc(0))
    r.require(n, 4, "deferral wrapper paths")
    # an unprotected guard (local == null: the collector tearing down its own queue and list) runs the function at once -
    # exactly once: dropping it unrun loses what Queue::drop / List::drop and the tear-down paths hand to it
    DU = "ebr_impl::guard::Guard::defer_unchecked"
    if DU in prog.bodies:
        ub = prog.body(DU)
        nn = 0
        for p in ctx.ex.paths(ub):
            if p.exit[0] != "return":
                continue
            nullc = [e for e in p.events if e.kind == "cond" and isinstance(e.term, tuple) and e.term[0] == "disc" and
                     "Guard.local" in show(e.term)]
            v0 = nullc[0].value if nullc else None
            isnone = v0 == 0 or (isinstance(v0, tuple) and v0[0] == "not" and 1 in v0[1])
            if not isnone:
                continue
            nn += 1
            runs = [e for e in p.events if e.kind in ("call", "hof", "enter") and
                    (norm(e.target or "") == "std::ops::FnOnce::call_once" or (e.kind == "enter"))]
            okn = len([e for e in p.events if e.kind == "call" and norm(e.target or "") == "std::ops::FnOnce::call_once"]) == 1
            r.instance("defer_unchecked on an unprotected guard calls f exactly once, now", okn)
            if not okn:
                r.violate(DU, "unprotected", "with an unprotected guard the function is not run exactly once on the spot: it is "
                          "dropped unrun (what the collector's own tear-down hands over is never freed) or run twice", ub.loc(0))
        if nn == 0:
            r.floor_failures.append("CW-DEFER-WRAPPER: no null-local path found in defer_unchecked")
    # Guard::defer_destroy(ptr) - how the list and the queue retire their nodes - defers `ptr.drop()`, it does not run it
    DD = "ebr_impl::guard::Guard::defer_destroy"
    if DD in prog.bodies:
        db, dps = _ret_paths(ctx, DD)
        r.functions.add(DD)
        okd = len(dps) == 1
        if okd:
            du_ = [e for e in dps[0].events if e.kind in ("call", "hof") and e.target == "ebr_impl::guard::Guard::defer_unchecked"]
            direct = [e for e in _calls(dps[0]) if norm(e.target or "") == "ebr_impl::pointers::RawShared::drop"]
            okd = len(du_) == 1 and not direct
            if okd:
                cl = prog.closures_of(DD)
                okd = len(cl) == 1 and [norm(c.target or "") for (_, _, c) in cl[0].calls()].count("ebr_impl::pointers::RawShared::drop") == 1
        r.instance("Guard::defer_destroy == defer_unchecked(move || ptr.drop())", okd)
        if not okd:
            r.violate(DD, "destroy", "defer_destroy does not hand exactly `ptr.drop()` to defer_unchecked (or frees the node "
                      "itself): a list entry or queue node is freed while another thread's traversal still reads it", db.loc(0))
    return r


def rule_ebr_init(ctx):
    """What a participant and a collector start as.  None of the protocol rules looks at the constructors, yet each of
    them assumes the state they leave: a fresh participant is unpinned, counts no guard and exactly the one handle that
    `register` returns, has no collection running, and refers to the very Global it was inserted into."""
    r = RuleResult("EBR-INIT", ["C13", "C14", "C16", "C18", "C20"],
                   "Local::register creates an unpinned participant (epoch = starting) with guard_count 0, handle_count 1 (the "
                   "handle it returns), all flags clear, holding a clone of the collector whose registry it is inserted into; "
                   "Collector::clone shares the Global; Global::new starts at the starting epoch; Local::global is that Global")
    prog = ctx.prog
    P = "ebr_impl::internal::"
    b, ps = _ret_paths(ctx, P + "Local::register")
    r.functions.add(b.name)
    ok = len(ps) == 1
    fields = {}
    if ok:
        p = ps[0]
        aggs = [e for e in p.events if e.kind == "agg" and e.adt == P + "Local"]
        ok = len(aggs) == 1
        if ok:
            v = aggs[0].value
            fields = dict(zip(v[5], v[3]))

    def cell_const(t):
        t = strip(t)
        if isinstance(t, tuple) and t[0] == "call" and norm(t[1]) == "std::cell::Cell::new":
            return const_of(t[2][0])
        # Cell::default() / Default::default() of a Cell<usize> / Cell<bool>: zero / false
        if isinstance(t, tuple) and t[0] == "call" and not t[2] and t[1].endswith("as std::default::Default>::default") \
                and "Cell<" in t[1]:
            return 0
        return None
    want = {"guard_count": 0, "handle_count": 1, "must_collect": 0, "collecting": 0, "advancing": 0}
    for f, c in want.items():
        if f not in fields:
            # a flag a later change removed or renamed is not this rule's business; the two counters are
            if f in ("guard_count", "handle_count"):
                r.violate(b.name, "field:" + f, "Local::register no longer initialises `%s`" % f, b.loc(0))
            continue
        okf = cell_const(fields[f]) == c
        r.instance("Local::register: %s = %d" % (f, c), okf)
        if not okf:
            r.violate(b.name, "init:" + f, "a fresh participant starts with %s = %s instead of %d: %s" % (
                f, show(fields[f])[:40], c,
                {"guard_count": "with a phantom guard it never publishes its epoch (pin only does so for the outermost guard)",
                 "handle_count": "the handle register returns is the one and only owner; any other count finalizes too early or never"
                 }.get(f, "a flag that starts set blocks collections / advances of this participant for good")), b.loc(0))
    # other boolean flags, whatever they are called, start clear
    for f, t in fields.items():
        if f in want:
            continue
        t0 = strip(t)
        if isinstance(t0, tuple) and t0[0] == "call" and norm(t0[1]) == "std::cell::Cell::new" and \
                isinstance(t0[2][0], tuple) and t0[2][0][0] == "c" and t0[2][0][2] == "bool":
            okf = const_of(t0[2][0]) == 0
            r.instance("Local::register: flag %s starts clear" % f, okf)
            if not okf:
                r.violate(b.name, "init:" + f, "a fresh participant starts with the flag %s set" % f, b.loc(0))
    ep = fields.get("epoch")
    okp = ep is not None and any(x[0] == "call" and x[1] == "ebr_impl::epoch::AtomicEpoch::new" and
                                 strip(x[2][0])[0] == "call" and strip(x[2][0])[1] == "ebr_impl::epoch::Epoch::starting"
                                 for x in subterms(ep))
    r.instance("Local::register: epoch = AtomicEpoch::new(Epoch::starting()) (unpinned)", okp)
    if not okp:
        r.violate(b.name, "init:epoch", "a fresh participant does not start unpinned (Epoch::starting()): a participant that "
                  "looks pinned in epoch 0 before its first pin blocks every advance - or is trusted to be pinned when it is not",
                  b.loc(0))
    col = fields.get("collector")
    okc = col is not None and any(x[0] == "call" and x[1] == "<ebr_impl::collector::Collector as std::clone::Clone>::clone" and
                                  strip(x[2][0]) == ("arg", 1, b.local_name(1)) for x in subterms(col))
    r.instance("Local::register: collector = clone of the collector given", okc)
    if not okc:
        r.violate(b.name, "init:collector", "the participant does not keep a clone of the collector it registers with", b.loc(0))
    if ok:
        ret = strip(ps[0].ret)
        okr = isinstance(ret, tuple) and ret[0] == "agg" and ret[1] == "ebr_impl::collector::LocalHandle" and \
            any(x[0] == "agg" and x[1] == P + "Local" for x in subterms(ret))
        r.instance("Local::register returns the one handle of the participant it created", okr)
        if not okr:
            r.violate(b.name, "handle", "register does not return a handle to the participant it created", b.loc(0))
    # Collector::clone shares the Global
    cb, cps = _ret_paths(ctx, "<ebr_impl::collector::Collector as std::clone::Clone>::clone")
    r.functions.add(cb.name)
    okk = len(cps) == 1
    if okk:
        ret = strip(cps[0].ret)
        okk = isinstance(ret, tuple) and ret[0] == "agg" and ret[1] == "ebr_impl::collector::Collector"
        if okk:
            g = strip(ret[3][0])
            okk = isinstance(g, tuple) and g[0] == "call" and norm(g[1]).endswith("Arc<T, A> as std::clone::Clone>::clone") and \
                "Collector.global" in show(g[2][0]) and "self" in show(g[2][0])
    r.instance("Collector::clone == Collector { global: Arc::clone(&self.global) }", okk)
    if not okk:
        r.violate(cb.name, "clone", "cloning a collector does not share its Global: the participant (which keeps a clone) would "
                  "pin against another clock and flush into another queue than the registry it sits in", cb.loc(0))
    # Global::new
    gb, gps = _ret_paths(ctx, P + "Global::new")
    r.functions.add(gb.name)
    okg = len(gps) == 1 and any(x[0] == "call" and x[1] == "ebr_impl::epoch::AtomicEpoch::new" and
                                strip(x[2][0])[0] == "call" and strip(x[2][0])[1] == "ebr_impl::epoch::Epoch::starting"
                                for x in subterms(gps[0].ret))
    r.instance("Global::new: epoch = AtomicEpoch::new(Epoch::starting())", okg)
    if not okg:
        r.violate(gb.name, "init:epoch", "the global epoch does not start at Epoch::starting()", gb.loc(0))
    # Local::global / Local::collector
    lb, lps = _ret_paths(ctx, P + "Local::global")
    r.functions.add(lb.name)
    okl = len(lps) == 1 and "Collector.global" in show(lps[0].ret) and (P + "Local::collector") in [e.target for e in _calls(lps[0])]
    r.instance("Local::global == &self.collector().global", okl)
    if not okl:
        r.violate(lb.name, "global", "Local::global is not the Global of the participant's own collector", lb.loc(0))
    kb, kps = _ret_paths(ctx, P + "Local::collector")
    okk2 = len(kps) == 1 and "Local.collector" in show(kps[0].ret) and "self" in show(kps[0].ret)
    r.instance("Local::collector == &*self.collector.get()", okk2)
    if not okk2:
        r.violate(kb.name, "collector", "Local::collector does not return the participant's own collector", kb.loc(0))
    # thread-wide flags start clear (a re-entrancy flag that starts set means: this thread never collects)
    for st in prog.items.get("statics", []):
        if st.get("thread_local") and st.get("ty") == "std::cell::Cell<bool>" and st["path"].startswith("ebr_impl::") and "int" in st:
            okf = int(st["int"]) == 0
            nm = st["path"].split("::{")[0].split("::")[-1]
            r.instance("thread-local flag %s starts clear" % nm, okf)
            if not okf:
                r.violate(st["path"].split("::{")[0], "init:tls-flag", "the thread-local flag %s starts set: a thread whose "
                          "re-entrancy flag is set from the start never runs a collection (nothing it or anybody else "
                          "deferred is reclaimed by it)" % nm, "%s:%s" % (st["span"]["file"], st["span"]["line"]))
    # the collector's queue starts as one sentinel that both ends point to and that has no successor
    QN = "ebr_impl::sync::queue::Queue::<T>::new"
    if QN in prog.bodies:
        qb, qps = _ret_paths(ctx, QN)
        r.functions.add(QN)
        okq = len(qps) == 1
        if okq:
            p = qps[0]
            sent = [e for e in _calls(p) if norm(e.target or "") == "ebr_impl::pointers::RawShared::from_owned"]
            stores = [e for e in _calls(p) if norm(e.target or "") in ("ebr_impl::pointers::RawAtomic::store",)]
            news = [e for e in p.events if e.kind == "agg" and e.adt == "ebr_impl::sync::queue::Node"]
            okq = len(sent) == 1 and len(news) == 1
            if okq:
                nv = dict(zip(news[0].value[5], news[0].value[3]))
                nxt = strip(nv.get("next"))
                okq = isinstance(nxt, tuple) and nxt[0] == "call" and norm(nxt[1]) == "ebr_impl::pointers::RawAtomic::null"
            if okq:
                to_head = [e for e in stores if "Queue.head" in show(e.args[0]) and strip(e.args[1]) == sent[0].result]
                to_tail = [e for e in stores if "Queue.tail" in show(e.args[0]) and strip(e.args[1]) == sent[0].result]
                other = [e for e in stores if e not in to_head and e not in to_tail]
                # (or the sentinel is put into the struct literal directly)
                lit = [e for e in p.events if e.kind == "agg" and e.adt == "ebr_impl::sync::queue::Queue"]
                inlit = lambda f: any(lit and sent[0].result in list(subterms(dict(zip(x.value[5], x.value[3])).get(f, ()))) for x in lit)
                okq = (bool(to_head) or inlit("head")) and (bool(to_tail) or inlit("tail")) and not other
        r.instance("Queue::new: head == tail == one sentinel whose next is null", okq)
        if not okq:
            r.violate(QN, "sentinel", "a new queue is not `head == tail == sentinel, sentinel.next == null`: push links onto the "
                      "tail and pop reads head.next - an end that does not point to the sentinel (or a sentinel with a "
                      "successor) loses or invents elements", qb.loc(0))
    r.require(len(r.instances), 9, "constructor obligations")
    return r


def _tunable(prog, t):
    """value of a term that is an integer constant or a read of a named static with an evaluated initial value"""
    import re
    v = const_of(t)
    if v is not None:
        return v, "constant"
    m = re.findall(r"static ([A-Za-z0-9_:]+):", show(t))
    if len(set(m)) == 1:
        st = [x for x in prog.items.get("statics", []) if x["path"] == m[0]]
        # a plain read of the static itself: load(deref(address))
        t0 = t
        while isinstance(t0, tuple) and t0[0] in ("load", "deref", "cast"):
            t0 = t0[1] if t0[0] != "cast" else t0[2]
        plain = isinstance(t0, tuple) and t0[0] == "c" and t is not t0
        if st and "int" in st[0] and plain:
            return int(st[0]["int"]), "static %s" % m[0].split("::")[-1]
    return None, None


def rule_tunables(ctx):
    """The liveness half of the collector hangs on a handful of numbers: how many deferrals fill a bag, after how many
    events a thread flushes and tries to advance, how many bags one collection pops.  Zero in any of them compiles and
    passes every functional test on a quiet machine, and either divides by zero or silently never reclaims."""
    r = RuleResult("EBR-TUNABLES", ["C15", "C04", "C20"],
                   "the collector's tunables are positive: a bag holds at least one deferred function, every periodic trigger "
                   "(`count % N == 0`) has N >= 1, one collection tries to pop at least one bag")
    prog = ctx.prog
    P = "ebr_impl::internal::"
    n = 0
    # (1) divisors of the periodic triggers
    for name in sorted(nm for nm in prog.bodies if nm.startswith(("ebr_impl::", "utils::")) and prog.bodies[nm].kind != "closure"
                       and not nm.startswith(("utils::Modular::", "utils::State::"))):
        b = prog.body(name)
        if not any(st["k"] == "assign" and st["rv"]["k"] == "binop" and st["rv"]["op"] in ("Rem", "Div")
                   for bi in b.reachable() for st in b.blocks[bi]["stmts"]):
            continue
        seen = set()
        for p in ctx.ex.paths(b):
            for e in p.events:
                terms = [e.term] if e.kind == "cond" else list(getattr(e, "args", None) or []) if e.kind == "call" else []
                for t in terms:
                    for x in subterms(t):
                        if x[0] == "bin" and x[1] in ("Rem", "Div"):
                            v, what = _tunable(prog, x[3])
                            key = show(x[3])
                            if v is None or key in seen:
                                continue
                            seen.add(key)
                            n += 1
                            r.functions.add(name)
                            ok = v >= 1
                            r.instance("%s: period %s = %d >= 1" % (name.split("::")[-1], what, v), ok)
                            if not ok:
                                r.violate(name, "period", "a periodic trigger divides by a tunable that is 0: the first event "
                                          "panics (division by zero) - from every thread that drops an Rc", e.loc())
    # (2) capacity of a bag
    bd = "<ebr_impl::internal::Bag as std::default::Default>::default"
    if bd in prog.bodies:
        b, ps = _ret_paths(ctx, bd)
        for p in ps:
            for e in _calls(p, lambda e: norm(e.target or "") == "std::vec::Vec::with_capacity"):
                v, what = _tunable(prog, e.args[0])
                if v is None:
                    continue
                n += 1
                r.functions.add(bd)
                ok = v >= 1
                r.instance("Bag capacity %s = %d >= 1" % (what, v), ok)
                if not ok:
                    r.violate(bd, "capacity", "a bag holds no deferred function: try_push fails for ever and Local::defer spins "
                              "pushing empty bags (every drop of an Rc hangs)", e.loc())
    # (3) bags popped per collection
    cb = prog.body(P + "Global::collect")
    r.functions.add(cb.name)
    trials = set()
    for p in ctx.ex.paths(cb):
        for e in p.events:
            if e.kind == "call" and norm(e.target or "").endswith("IntoIterator>::into_iter"):
                a = strip(e.args[0])
                if isinstance(a, tuple) and a[0] == "agg" and "Range" in str(a[1]):
                    lo, hi = const_of(a[3][0]), const_of(a[3][1])
                    if lo is not None and hi is not None:
                        trials.add(hi - lo)
    # (the pop may sit in a closure or in a helper a refactoring split off)
    pops = any(cb.name in prog.path_roots(x.name) or prog.home(x.name) == cb.name
               for q in prog.bodies if norm(q).startswith("ebr_impl::sync::queue::Queue::try_pop")
               for (x, _, _, _) in prog.callers_of(q))
    if trials:
        n += 1
        ok = min(trials) >= 1 and pops
        r.instance("Global::collect tries to pop up to %s bag(s)" % sorted(trials), ok)
        if not ok:
            r.violate(cb.name, "trials", "a collection pops no bag at all: nothing that was ever deferred is run (every object "
                      "leaks) although every test that does not count destructions passes", cb.loc(0))
    elif pops:
        # an unbounded or differently written loop: at least it pops
        n += 1
        r.instance("Global::collect pops bags (loop bound not a constant range)", True)
    else:
        r.violate(cb.name, "trials", "Global::collect no longer pops the global queue", cb.loc(0))
    r.require(n, 3, "tunables")
    return r


def rule_dbg_pure(ctx):
    """`debug_assert!(..)` disappears from a release build with everything its condition does.  The test suite runs with
    debug assertions on, so a compare_exchange, a counter update or a deferral written inside one is executed in every
    test and in no production build."""
    from .sym import prog_purity, PURE_EXTERNAL
    from .mir import Callee
    r = RuleResult("DBG-PURE", ["C04", "C05", "C13", "C15", "C16"],
                   "the condition of a debug_assert! only reads: every call in the region that exists only under "
                   "cfg!(debug_assertions) is pure, a load, or the panic machinery")
    prog = ctx.prog
    pure = prog_purity(prog)
    READS = ("std::sync::atomic::Atomic::load", "atomic::Atomic::load", "std::cell::Cell::get", "std::cell::UnsafeCell::get",
             "std::cell::RefCell::borrow", "std::vec::Vec::len", "std::vec::Vec::is_empty", "std::vec::Vec::capacity",
             "std::sync::Arc::strong_count", "std::thread::LocalKey::with", "std::thread::LocalKey::try_with",
             # reading the clock is a read (that the very first call also creates the default collector is not an effect any
             # property depends on: `debug_assert!(stamp <= global_epoch())` is fine)
             "ebr_impl::default::global_epoch")
    memo = {}

    def readonly(target, depth=0):
        nt = norm(target or "")
        if nt.startswith(("core::panicking::", "std::fmt::", "core::fmt::", "std::panicking::")):
            return True
        if target in pure or nt in pure or nt in PURE_EXTERNAL or nt in READS:
            return True
        if nt.startswith(("core::num::", "std::num::", "core::cmp::", "std::cmp::", "core::ops::bit::", "core::ops::arith::",
                          "std::option::Option::is_", "std::option::Option::as_ref", "std::option::Option::unwrap",
                          "std::option::Option::expect", "std::option::Option::map_or", "std::result::Result::is_",
                          "std::result::Result::as_ref", "std::ptr::const_ptr::", "std::ptr::mut_ptr::is_null",
                          "std::ptr::mut_ptr::cast", "std::ptr::eq", "std::mem::size_of", "std::mem::align_of", "core::slice::",
                          "std::slice::", "std::convert::", "core::convert::", "core::bool::", "std::sync::Arc::ptr_eq", "core::tuple::",
                          "core::array::equality::", "core::str::")):
            return True
        if nt.endswith((" as std::ops::Deref>::deref", " as std::cmp::PartialEq>::eq", " as std::cmp::PartialEq>::ne",
                        " as std::fmt::Debug>::fmt", " as std::clone::Clone>::clone")) and target not in prog.bodies:
            return True
        if target in memo:
            return memo[target]
        b = prog.bodies.get(target)
        if b is None or depth > 6:
            return False
        memo[target] = True     # (recursion: optimistic)
        ok = all(readonly(c.target, depth + 1) for (_, _, c) in b.calls()) and \
            all(readonly(x.name, depth + 1) for x in prog.closures_of(target))
        # no stores through pointers either
        if ok:
            for bi in b.reachable():
                for st in b.blocks[bi]["stmts"]:
                    if st["k"] == "assign" and "deref" in st["place"]["proj"]:
                        ok = False
        memo[target] = ok
        return ok

    def succs(b, v):
        tt = b.blocks[v]["term"]
        k = tt["k"]
        if k == "call":
            return [tt["target"]] if tt.get("target") is not None else []
        if k == "switch":
            return [x for _, x in tt["targets"]] + [tt["otherwise"]]
        if k in ("goto", "drop", "assert"):
            return [tt["target"]]
        return []

    def reach(b, start, avoid=None):
        seen, work = set(), [start]
        while work:
            v = work.pop()
            if v in seen or v == avoid:
                continue
            seen.add(v)
            work.extend(succs(b, v))
        return seen
    nreg = 0
    for name, b in sorted(prog.bodies.items()):
        for bi, blk in enumerate(b.blocks):
            t = blk["term"]
            sp = t.get("span") or {}
            if t["k"] != "switch" or not (sp.get("mac") or "").startswith("debug_assert"):
                continue
            d = t["discr"].get("move") or t["discr"].get("copy")
            isconst = "const" in t["discr"]
            if d and not d["proj"]:
                for st in blk["stmts"]:
                    if st["k"] == "assign" and st["place"]["local"] == d["local"] and not st["place"]["proj"] and \
                            st["rv"]["k"] == "use" and "const" in st["rv"]["op"]:
                        isconst = True
            if not isconst:
                continue
            nreg += 1
            r.functions.add(prog.home(name))
            en = t["otherwise"]
            region = reach(b, en) - reach(b, 0, avoid=en)
            bad = []
            for v in sorted(region):
                tt = b.blocks[v]["term"]
                if tt["k"] == "call":
                    c = Callee(tt)
                    if c.target is None or not readonly(c.target):
                        bad.append((v, c.target or "<indirect>"))
                    else:
                        # a closure handed to a reading higher-order function (`KEY.with(|c| c.replace(true))`) runs here too
                        for cn in (c.closure_args() or []):
                            if cn in prog.bodies and not readonly(cn):
                                cb_ = prog.bodies[cn]
                                eff = [x.target for (_, _, x) in cb_.calls() if x.target and not readonly(x.target)]
                                bad.append((v, (eff[0] if eff else cn)))
                for st in b.blocks[v]["stmts"]:
                    if st["k"] == "assign" and "deref" in st["place"]["proj"]:
                        bad.append((v, "<store through a pointer>"))
            ok = not bad
            r.instance("%s: debug_assert! at line %s only reads" % (prog.home(name).split("::")[-1], sp.get("line")), ok)
            for (v, tg) in bad[:2]:
                r.violate(prog.home(name), "effect:" + norm(tg).split("::")[-1], "`%s` is called inside the condition of a "
                          "debug_assert!: it runs in the build the tests use and vanishes from a release build" % norm(tg),
                          b.loc(v))
    r.require(nreg, 10, "debug_assert! regions")
    return r
