import re
"""MIR model over the mirfacts JSON: bodies, places, operands, pretty printer, CFG analyses."""
from collections import defaultdict

from .facts import AnalysisError


# ------------------------------------------------------------------ helpers on JSON values

def op_place(op):
    """Operand -> place dict or None."""
    if op is None:
        return None
    return op.get("copy") or op.get("move")


def op_const(op):
    return op.get("const") if op else None


def op_local(op):
    """Operand that is a bare local (no projection) -> local index, else None."""
    p = op_place(op)
    if p is not None and not p["proj"]:
        return p["local"]
    return None


def const_int(op):
    c = op_const(op)
    if c is not None and "int" in c:
        return int(c["int"])
    return None


def place_str(p):
    s = "_%d" % p["local"]
    for e in p["proj"]:
        if e == "deref":
            s = "(*%s)" % s
        elif "field" in e:
            s = "%s.%s" % (s, e.get("name", e["field"]))
        elif "downcast" in e:
            s = "(%s as %s)" % (s, e.get("name"))
        elif "index" in e:
            s = "%s[_%d]" % (s, e["index"])
        elif "const_index" in e:
            s = "%s[%d]" % (s, e["const_index"])
        else:
            s = "%s.<%s>" % (s, list(e.keys())[0])
    return s


def op_str(op):
    if "copy" in op:
        return place_str(op["copy"])
    if "move" in op:
        return "move " + place_str(op["move"])
    if "const" in op:
        c = op["const"]
        if "fn" in c:
            return "fn:" + c.get("fn_full", c["fn"])
        if "int" in c:
            return "const %s_%s" % (c["int"], c["ty"])
        return "const " + c["display"]
    return str(op)


def rv_str(rv):
    k = rv["k"]
    if k == "use":
        return op_str(rv["op"])
    if k == "ref":
        return ("&mut " if rv["mut"] else "&") + place_str(rv["place"])
    if k == "rawptr":
        return ("&raw mut " if rv["mut"] else "&raw const ") + place_str(rv["place"])
    if k == "cast":
        return "%s as %s (%s)" % (op_str(rv["op"]), rv["ty"], rv["kind"])
    if k == "binop":
        return "%s(%s, %s)" % (rv["op"], op_str(rv["l"]), op_str(rv["r"]))
    if k == "unop":
        return "%s(%s)" % (rv["op"], op_str(rv["x"]))
    if k == "discriminant":
        return "discriminant(%s)" % place_str(rv["place"])
    if k == "aggregate":
        name = rv.get("adt") or rv.get("closure") or rv["agg"]
        if rv.get("variant") and rv["agg"] == "adt":
            name += "::" + rv["variant"]
        return "%s{%s}" % (name, ", ".join(op_str(f) for f in rv["fields"]))
    if k == "copy_for_deref":
        return "deref_copy " + place_str(rv["place"])
    if k == "repeat":
        return "[%s; %s]" % (op_str(rv["op"]), rv["n"])
    if k == "tls_ref":
        return "tls(%s)" % rv["def"]
    return rv.get("debug", k)


class Body:
    def __init__(self, j):
        self.j = j
        self.name = j["def"]
        self.kind = j["kind"]
        self.blocks = j["blocks"]
        self.locals = j["locals"]
        self.arg_count = j["arg_count"]
        self.span = j["span"]
        self._succ = None
        self._pred = None
        self._defs = None

    # ---- naming
    def local_name(self, l):
        return self.locals[l].get("name")

    def local_ty(self, l):
        return self.locals[l]["ty"]

    def file(self):
        return self.span["file"]

    def loc(self, bb, idx=None):
        b = self.blocks[bb]
        sp = None
        if idx is not None and idx < len(b["stmts"]):
            sp = b["stmts"][idx].get("span")
        if sp is None:
            sp = b["term"].get("span")
        if sp is None:
            sp = self.span
        return "%s:%d" % (sp["file"], sp["line"])

    # ---- CFG (normal edges only; unwind edges are ignored by design)
    def term(self, bb):
        return self.blocks[bb]["term"]

    def successors(self, bb):
        if self._succ is None:
            self._build_cfg()
        return self._succ[bb]

    def predecessors(self, bb):
        if self._pred is None:
            self._build_cfg()
        return self._pred[bb]

    def _term_succs(self, t):
        k = t["k"]
        if k == "goto":
            return [t["target"]]
        if k == "switch":
            folded = self.fold_switch(t)
            if folded is not None:
                return [folded]
            out = []
            for _, bb in t["targets"]:
                if bb not in out:
                    out.append(bb)
            if t["otherwise"] not in out:
                out.append(t["otherwise"])
            return out
        if k in ("call", "drop", "assert"):
            return [t["target"]] if t.get("target") is not None else []
        return []

    def fold_switch(self, t):
        """Constant-fold a switch whose discriminant is a constant (dead cfg! arms)."""
        v = const_int(t["discr"])
        if v is None:
            return None
        for val, bb in t["targets"]:
            if int(val) == v:
                return bb
        return t["otherwise"]

    def _build_cfg(self):
        n = len(self.blocks)
        self._succ = [[] for _ in range(n)]
        self._pred = [[] for _ in range(n)]
        for i, b in enumerate(self.blocks):
            if b["cleanup"]:
                continue
            for s in self._term_succs(b["term"]):
                if self.blocks[s]["cleanup"]:
                    continue
                self._succ[i].append(s)
                self._pred[s].append(i)
        # propagate constants through single-assignment bool temps so that cfg!() folds
        self._fold_const_switches()

    def _fold_const_switches(self):
        # `cfg!(..)` lowers to `_x = const true; switchInt(move _x)`; fold when the only
        # definition of the switched local is a constant.
        defs = self.defs()
        changed = False
        for i, b in enumerate(self.blocks):
            t = b["term"]
            if t["k"] != "switch" or b["cleanup"]:
                continue
            l = op_local(t["discr"])
            if l is None:
                continue
            ds = defs.get(l, [])
            if len(ds) != 1:
                continue
            d = ds[0]
            if d[0] != "assign":
                continue
            rv = d[3]["rv"]
            if rv["k"] == "use" and const_int(rv["op"]) is not None:
                v = const_int(rv["op"])
                tgt = t["otherwise"]
                for val, bb in t["targets"]:
                    if int(val) == v:
                        tgt = bb
                for s in list(self._succ[i]):
                    if s != tgt:
                        self._succ[i].remove(s)
                        self._pred[s].remove(i)
                        changed = True
        return changed

    def reachable(self):
        seen = set()
        st = [0]
        while st:
            b = st.pop()
            if b in seen:
                continue
            seen.add(b)
            st.extend(self.successors(b))
        return seen

    # ---- definitions of locals
    def defs(self):
        """local -> list of ('assign', bb, idx, stmt) | ('call', bb, None, term) | ('arg',)"""
        if self._defs is not None:
            return self._defs
        d = defaultdict(list)
        for l in range(1, self.arg_count + 1):
            d[l].append(("arg", None, None, None))
        for bi, b in enumerate(self.blocks):
            if b["cleanup"]:
                continue
            for si, st in enumerate(b["stmts"]):
                if st["k"] == "assign":
                    p = st["place"]
                    if not p["proj"]:
                        d[p["local"]].append(("assign", bi, si, st))
                    else:
                        d[p["local"]].append(("partial", bi, si, st))
            t = b["term"]
            if t["k"] == "call":
                p = t["dest"]
                if not p["proj"]:
                    d[p["local"]].append(("call", bi, None, t))
                else:
                    d[p["local"]].append(("partial_call", bi, None, t))
        self._defs = d
        return d

    # ---- dominators (iterative, on reachable normal CFG)
    def dominators(self):
        if hasattr(self, "_dom"):
            return self._dom
        reach = self.reachable()
        order = self._rpo()
        dom = {b: None for b in reach}
        dom[0] = {0}
        allb = set(reach)
        for b in reach:
            if b != 0:
                dom[b] = set(allb)
        changed = True
        while changed:
            changed = False
            for b in order:
                if b == 0:
                    continue
                preds = [p for p in self.predecessors(b) if p in reach]
                if not preds:
                    continue
                new = set.intersection(*[dom[p] for p in preds]) | {b}
                if new != dom[b]:
                    dom[b] = new
                    changed = True
        self._dom = dom
        return dom

    def dominates(self, a, b):
        d = self.dominators()
        return b in d and a in d[b]

    def _rpo(self):
        seen = set()
        out = []

        def dfs(b):
            stack = [(b, iter(self.successors(b)))]
            seen.add(b)
            while stack:
                node, it = stack[-1]
                adv = False
                for s in it:
                    if s not in seen:
                        seen.add(s)
                        stack.append((s, iter(self.successors(s))))
                        adv = True
                        break
                if not adv:
                    out.append(node)
                    stack.pop()

        dfs(0)
        out.reverse()
        return out

    def exits(self):
        return [b for b in self.reachable() if self.term(b)["k"] == "return"]

    def post_dominators(self):
        """Post-dominators w.r.t. a virtual exit joining all `return` blocks (diverging blocks
        such as panics are ignored)."""
        if hasattr(self, "_pdom"):
            return self._pdom
        reach = self.reachable()
        exits = set(self.exits())
        # nodes that can reach an exit
        can = set(exits)
        work = list(exits)
        while work:
            b = work.pop()
            for p in self.predecessors(b):
                if p in reach and p not in can:
                    can.add(p)
                    work.append(p)
        pdom = {}
        for b in can:
            pdom[b] = {b} if b in exits else set(can)
        changed = True
        while changed:
            changed = False
            for b in can:
                if b in exits:
                    continue
                succs = [s for s in self.successors(b) if s in can]
                if not succs:
                    continue
                new = set.intersection(*[pdom[s] for s in succs]) | {b}
                if new != pdom[b]:
                    pdom[b] = new
                    changed = True
        self._pdom = pdom
        return pdom

    def back_edges(self):
        dom = self.dominators()
        out = []
        for b in self.reachable():
            for s in self.successors(b):
                if s in dom[b]:
                    out.append((b, s))
        return out

    def loop_body(self, header):
        body = {header}
        work = [b for (b, h) in self.back_edges() if h == header]
        while work:
            b = work.pop()
            if b in body:
                continue
            body.add(b)
            work.extend(self.predecessors(b))
        return body

    # ---- calls
    def calls(self):
        """Yield (bb, term, callee_info) for each call in a non-cleanup reachable block."""
        reach = self.reachable()
        for bi in sorted(reach):
            t = self.blocks[bi]["term"]
            if t["k"] == "call":
                yield bi, t, callee(t)

    def fn_refs(self):
        """Yield (bb, path) for every fn item used as a *value* (passed as an argument or stored), i.e. not in
        callee position: `opt.map_or(true, RcInner::try_increment_strong)`, `helper(Atomic::compare_exchange)`."""
        if hasattr(self, "_fn_refs"):
            return self._fn_refs
        out = []

        def walk(x, bi):
            if isinstance(x, dict):
                if "fn" in x and isinstance(x.get("fn"), str):
                    out.append((bi, x.get("resolved") or x["fn"]))
                    return
                for v in x.values():
                    walk(v, bi)
            elif isinstance(x, list):
                for v in x:
                    walk(v, bi)
        reach = self.reachable()
        for bi in sorted(reach):
            blk = self.blocks[bi]
            for s in blk["stmts"]:
                walk(s, bi)
            tm = blk["term"]
            if tm["k"] == "call":
                walk(tm["args"], bi)
        self._fn_refs = out
        return out

    # ---- pretty printer
    def pretty(self):
        out = ["fn %s  [%s]  args=%d" % (self.name, self.kind, self.arg_count)]
        for i, l in enumerate(self.locals):
            nm = l.get("name")
            out.append("  let _%d: %s%s" % (i, l["ty"], ("  // " + nm) if nm else ""))
        for u in self.j.get("upvars", []):
            out.append("  upvar %s = %s" % (u["name"], place_str(u["place"])))
        reach = self.reachable()
        for bi, b in enumerate(self.blocks):
            tag = " (cleanup)" if b["cleanup"] else ("" if bi in reach else " (dead)")
            out.append("  bb%d%s:" % (bi, tag))
            for st in b["stmts"]:
                if st["k"] == "assign":
                    out.append("    %s = %s;   // L%d%s" % (place_str(st["place"]), rv_str(st["rv"]),
                                                            st["span"]["line"], " exp" if st["span"]["exp"] else ""))
                elif st["k"] == "storage_dead":
                    pass
                else:
                    out.append("    %s %s" % (st["k"], st.get("debug", "")))
            t = b["term"]
            k = t["k"]
            if k == "call":
                c = callee(t)
                out.append("    %s = %s(%s) -> bb%s;   // L%d  [%s]" % (
                    place_str(t["dest"]), c.display, ", ".join(op_str(a) for a in t["args"]),
                    t["target"], t["span"]["line"], c.resolved or "?"))
            elif k == "switch":
                out.append("    switch(%s) %s else bb%d" % (
                    op_str(t["discr"]), ", ".join("%s->bb%d" % (v, bb) for v, bb in t["targets"]), t["otherwise"]))
            elif k == "drop":
                out.append("    drop(%s: %s) -> bb%d" % (place_str(t["place"]), t["ty"], t["target"]))
            elif k == "assert":
                out.append("    assert(%s == %s, %s) -> bb%d" % (op_str(t["cond"]), t["expected"], t["msg"], t["target"]))
            elif k == "goto":
                out.append("    goto bb%d" % t["target"])
            else:
                out.append("    %s" % k)
        return "\n".join(out)


class Callee:
    __slots__ = ("name", "full", "resolved", "args", "resolved_args", "local", "is_ptr", "display",
                 "trait", "resolved_kind", "raw")

    def __init__(self, t):
        f = t["func"]
        c = op_const(f)
        self.raw = t
        if c is not None and "fn" in c:
            self.name = c["fn"]
            self.full = c.get("fn_full", c["fn"])
            self.resolved = c.get("resolved", None)
            self.resolved_kind = c.get("resolved_kind")
            self.args = c.get("fn_args", [])
            self.resolved_args = c.get("resolved_args", self.args)
            self.local = c.get("resolved_local", c.get("fn_local", False))
            self.trait = c.get("fn_trait")
            self.is_ptr = False
            self.display = self.full
            if self.resolved is None:
                self.resolved = None if self.trait else self.name
        else:
            self.name = None
            self.full = None
            self.resolved = None
            self.resolved_kind = None
            self.args = []
            self.resolved_args = []
            self.local = False
            self.trait = None
            self.is_ptr = True
            self.display = "(" + op_str(f) + ")"

    @property
    def target(self):
        """Best known def path of the function actually called."""
        return self.resolved or self.name

    def closure_args(self):
        return [a["closure"] for a in self.args if a.get("closure")]

    def const_args(self):
        return [a for a in self.args if a["k"] == "const"]

    def type_args(self):
        return [a for a in self.args if a["k"] == "ty"]


def callee(t):
    return Callee(t)


class RefCallee:
    """stands for a use of a fn item as a value (the function is called by whoever receives it)"""
    is_ref = True
    is_ptr = False
    trait = None
    local = True
    resolved_kind = "item"

    def __init__(self, target):
        self.name = self.full = self.resolved = self.display = target
        self.args = []
        self.resolved_args = []
        self.raw = None

    @property
    def target(self):
        return self.name

    def closure_args(self):
        return []

    def const_args(self):
        return []

    def type_args(self):
        return []


class Program:
    def __init__(self, facts):
        self.facts = facts
        self.meta = facts["meta"]
        self.items = facts["items"]
        self.bodies = {}
        self.dups = defaultdict(list)
        for j in facts["bodies"]:
            b = Body(j)
            if b.name in self.bodies:
                # e.g. the two nested `call` fns in Deferred::new: disambiguate by line
                self.dups[b.name].append(b)
                b.name = "%s@L%d" % (b.name, b.span["line"])
            self.bodies[b.name] = b
        self.consts = {c["path"]: c for c in self.items["consts"]}

    # ---- helpers introduced by refactoring (not in the baseline vocabulary, private, single call site)
    def auto_inline(self):
        if hasattr(self, "_auto_inline"):
            return self._auto_inline
        import json
        import os
        path = os.path.join(os.path.dirname(os.path.abspath(__file__)), "baseline_functions.json")
        with open(path) as f:
            base = set(json.load(f)["functions"])
        sites = {}
        for b in self.bodies.values():
            for bi, t, c in b.calls():
                if c.target in self.bodies:
                    sites.setdefault(c.target, []).append(b.name)
            for bi, path in b.fn_refs():
                if path in self.bodies:
                    sites.setdefault(path, []).append(b.name)
        out = {}
        for name, b in self.bodies.items():
            if b.kind == "closure" or name in base:
                continue
            if "Public" in b.j.get("vis", ""):
                continue
            new_trait_impl = False
            if b.j.get("impl_trait"):
                # impls of a trait the baseline tree does not have (a private trait introduced to share code between
                # two types) are helpers like any other; impls of known traits are API
                tr = re.sub(r"<.*$", "", b.j.get("impl_trait") or "")
                if tr.startswith(("std::", "core::", "alloc::")):
                    continue
                # (a new method of a local trait - known or new - is not in the baseline vocabulary: a helper)
                new_trait_impl = True      # called through the trait: no statically resolved call site
            cs = sites.get(name, [])
            if name in cs:
                continue          # recursive
            if len(cs) == 1:
                out[name] = cs[0]
            elif len(cs) > 1 or new_trait_impl:
                out[name] = None   # several callers: inlined at each call site by the path reader, no single home
        self._auto_inline = out
        return out

    def is_new_type(self, path):
        """an ADT that the baseline tree does not have (introduced by a refactoring)"""
        if not hasattr(self, "_base_adts"):
            import json
            import os
            pth = os.path.join(os.path.dirname(os.path.abspath(__file__)), "baseline_functions.json")
            with open(pth) as f:
                self._base_adts = set(json.load(f).get("adts", []))
        return path not in self._base_adts

    def roots_of(self, name):
        """Non-helper functions that reach `name` through chains of refactoring helpers (the function itself
        when it is not such a helper)."""
        ai = self.auto_inline()
        if name not in ai:
            b = self.bodies.get(name)
            if b is not None and b.kind == "closure":
                return self.roots_of(b.j.get("root", name))
            # the Drop impl of a type a change introduced (an RAII scope) runs where its values are dropped - the path reader
            # reads it there: its code belongs to the functions that drop such a value
            if b is not None and (b.j.get("impl_trait") or "").startswith("std::ops::Drop") and name.endswith("::drop"):
                adt = re.sub(r"<.*$", "", b.j.get("impl_self") or "")
                if adt and self.is_new_type(adt) and not getattr(self, "_in_drop_roots", False):
                    self._in_drop_roots = True
                    try:
                        sites = set()
                        for ob in self.bodies.values():
                            if ob.name == name:
                                continue
                            for blk in ob.blocks:
                                tm = blk["term"]
                                if tm["k"] == "drop" and not blk.get("cleanup") and adt in (tm.get("ty") or ""):
                                    sites.add(ob.name)
                        out = []
                        for s_ in sorted(sites):
                            for r_ in self.roots_of(s_):
                                if r_ not in out:
                                    out.append(r_)
                        if out:
                            return out
                    finally:
                        self._in_drop_roots = False
            return [name]
        sites = set()
        for b in self.bodies.values():
            for bi, t, c in b.calls():
                if c.target == name:
                    sites.add(b.name)
            for bi, path in b.fn_refs():
                if path == name:
                    sites.add(b.name)
        out = []
        for s in sorted(sites):
            for r in self.roots_of(s):
                if r not in out:
                    out.append(r)
        return out or [name]

    def path_roots(self, name):
        """Functions whose path enumeration contains the code of body `name`: a closure is read inside its root
        function, a helper introduced by refactoring inside each non-helper function that reaches it."""
        b = self.bodies.get(name)
        seen = set()
        while b is not None and b.kind == "closure" and b.name not in seen:
            seen.add(b.name)
            b = self.bodies.get(b.j.get("root"))
        if b is None:
            return [name]
        out = []
        for r in self.roots_of(b.name):
            rb = self.bodies.get(r)
            if rb is not None and rb.kind == "closure":
                for x in self.path_roots(r):
                    if x not in out:
                        out.append(x)
            elif r not in out:
                out.append(r)
        return out

    def home(self, name):
        """The function a body belongs to for who-may-call purposes: closures -> their root function; helpers
        introduced by refactoring -> their single caller."""
        seen = set()
        while name not in seen:
            seen.add(name)
            b = self.bodies.get(name)
            if b is None:
                return name
            if b.kind == "closure":
                name = b.j.get("root", name)
                continue
            ai = self.auto_inline()
            if ai.get(name):
                name = ai[name]
                continue
            return name
        return name

    def body(self, name, required=True):
        b = self.bodies.get(name)
        if b is None and required:
            raise AnalysisError("anchor missing: no MIR body named `%s`" % name)
        return b

    def find(self, suffix):
        return [b for n, b in self.bodies.items() if n.endswith(suffix)]

    def const_value(self, path):
        c = self.consts.get(path)
        if c is None or "int" not in c:
            raise AnalysisError("anchor missing: constant `%s` not found or not evaluated" % path)
        return int(c["int"])

    def closures_of(self, fn_name):
        return [b for n, b in self.bodies.items() if b.kind == "closure" and b.j.get("root") == fn_name]

    def callers_of(self, target):
        """All (body, bb, term, callee) whose resolved callee is `target`."""
        out = []
        for b in self.bodies.values():
            for bi, t, c in b.calls():
                if c.target == target:
                    out.append((b, bi, t, c))
            for bi, path in b.fn_refs():
                if path == target:
                    out.append((b, bi, b.blocks[bi]["term"], RefCallee(target)))
        return out
